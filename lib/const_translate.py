#!/usr/bin/env python3
"""Translator for the constant tables and character classes of the crate (static tie, like
lib/macro_translate.py for the `json!` rule set).

Reads the small declarative pieces of <repo>/src that the Coq models transcribe by hand -- the
print option presets, the string escaping table and the hex `digit` function, `is_whitespace`,
`Context::follows`, `is_control`, the surrogate ranges, the `kind_set!` table and the names
`Kind::fmt` prints, NUMBER_TOKEN -- EVALUATES them, and prints the results as Coq data in
coq/theories/Generated/Consts.v (`src_<site>`, Definitions only).  Proofs/ConstsTie.v proves one
`tie_<site> : src_<site> = <the same data computed from the model's own function>` per site;
`bin/check` of the properties concerned regenerates the file from the tree under check at the
start of every run (`pre_build` below, same mechanism as the macro tie) and re-establishes the
theorems against it.

  python3 lib/const_translate.py [--repo DIR]            print the generated file
  python3 lib/const_translate.py [--repo DIR] --write    refresh coq/theories/Generated/Consts.v
  python3 lib/const_translate.py [--repo DIR] --diff     site diff against the committed file

How a site is read: the file is tokenised into Rust token trees (tokeniser of
lib/macro_translate.py), items are indexed by NAME (free `fn`/`const`, `impl` blocks with their
type and trait, `enum`/`struct` declarations, the single-rule `macro_rules! kind_set` and its
invocation, which is expanded), and the function or constant of the site is run by a small
interpreter of Rust expressions: char/byte/integer/string literals incl. `\\u{..}` escapes, typed
integer arithmetic with overflow checks and `as` casts, ranges and `.contains`, `|` patterns,
`match` with guards, `matches!`, `if`/`else`, `let`, local `const`, `for c in s.chars()`,
struct literals `Self { field: value, ..base }`, enum paths like `Indent::Spaces(2)`, calls of
functions and methods defined in the same file, `f.write_str` / `f.write_char` / `write!` on a
formatter (collected as output), and a few std methods whose meaning is fixed
(`char::is_control`, `is_ascii_digit`, `count_ones`, ..).  Character classes are evaluated on
every code point of `char_domain` (Base/ConstSyntax.v; mirrored below) and printed as sorted runs;
functions of a character as the list of points where they differ from a default.  So order of
alternatives, layout, comments and equivalent rewritings do not change the generated text.

A site the reader cannot find, parse or evaluate is a reported broken obligation naming this
translator and the site; it is never skipped and never a crash.

What is trusted here: the tokeniser, this reader's parsing and evaluation of the Rust fragment
above (a construct it mis-evaluates the same way as the model's author would go unnoticed), and
that agreement on the domain points extends to all code points on the SOURCE side (the model
side is extended by lemmas of Proofs/ConstsTie.v).  Plain python3, no dependencies."""
import os
import re
import sys

sys.path.insert(0, os.path.dirname(os.path.abspath(__file__)))
from macro_translate import lex, trees, Tok, TranslateError, parse_pat, cstr  # noqa: E402

TRANSLATOR = "lib/const_translate.py"
GEN_REL = "theories/Generated/Consts.v"
TIE_TARGET = "theories/Proofs/ConstsTie.vo"


class SiteError(Exception):
    """the reader cannot find / parse / evaluate something; carries a source line when known"""

    def __init__(self, msg, line=None):
        super().__init__(msg if line is None else f"line {line}: {msg}")
        self.line = line


class EvalPanic(Exception):
    """the evaluated Rust code panics (panic!, overflow, unwrap on None ..)"""


class _Return(Exception):
    def __init__(self, v):
        self.v = v


class _Break(Exception):
    def __init__(self, v=None):
        self.v = v


class _Continue(Exception):
    pass


# ----------------------------------------------------------------------------- literals

INT_TYPES = {"u8": (8, False), "u16": (16, False), "u32": (32, False), "u64": (64, False), "u128": (128, False),
             "usize": (64, False), "i8": (8, True), "i16": (16, True), "i32": (32, True), "i64": (64, True),
             "i128": (128, True), "isize": (64, True)}
ESC = {"n": 10, "r": 13, "t": 9, "\\": 0x5C, "0": 0, "'": 0x27, '"': 0x22}


def unescape(body, line, byte=False):
    """code points of the body of a char / string literal"""
    out, i, n = [], 0, len(body)
    while i < n:
        c = body[i]
        if c != "\\":
            out.append(ord(c))
            i += 1
            continue
        if i + 1 >= n:
            raise SiteError("dangling backslash in a literal", line)
        d = body[i + 1]
        if d in ESC:
            out.append(ESC[d])
            i += 2
        elif d == "x":
            out.append(int(body[i + 2:i + 4], 16))
            i += 4
        elif d == "u" and not byte:
            j = body.find("}", i)
            if body[i + 2:i + 3] != "{" or j < 0:
                raise SiteError("malformed \\u{..} escape", line)
            out.append(int(body[i + 3:j].replace("_", ""), 16))
            i = j + 1
        elif d == "\n":                       # line continuation: skips following white space
            i += 2
            while i < n and body[i] in " \t\r\n":
                i += 1
        else:
            raise SiteError(f"unknown escape \\{d} in a literal", line)
    return out


def literal(text, line):
    """value of a literal token"""
    if text.startswith("b'"):
        v = unescape(text[2:-1], line, byte=True)
        if len(v) != 1 or v[0] > 255:
            raise SiteError(f"byte literal {text}", line)
        return ("int", v[0], "u8")
    if text.startswith("'"):
        v = unescape(text[1:-1], line)
        if len(v) != 1:
            raise SiteError(f"char literal {text}", line)
        return ("char", v[0])
    m = re.match(r'(b|c)?r(#*)"', text)
    if m:
        body = text[m.end():len(text) - 1 - len(m.group(2))]
        return ("str", [ord(ch) for ch in body])
    if text.startswith('b"'):
        return ("str", unescape(text[2:-1], line, byte=True))
    if text.startswith('"'):
        return ("str", unescape(text[1:-1], line))
    t = text.replace("_", "")
    m = re.fullmatch(r"(0x[0-9a-fA-F]+|0b[01]+|0o[0-7]+|\d+)([iu](?:8|16|32|64|128|size))?", t)
    if not m:
        raise SiteError(f"literal {text} is not an integer, character or string literal", line)
    return ("int", int(m.group(1), 0), m.group(2))


# ----------------------------------------------------------------------------- parser
# AST: tuples (tag, line, ...)

KEYWORDS = {"if", "else", "match", "let", "for", "in", "while", "loop", "return", "break", "continue", "as", "fn",
            "const", "static", "use", "impl", "struct", "enum", "mod", "pub", "unsafe", "move", "ref", "mut", "where",
            "true", "false", "trait", "type", "async", "await", "dyn"}
BIN = {"*": 12, "/": 12, "%": 12, "+": 11, "-": 11, "<<": 10, ">>": 10, "&": 9, "^": 8, "|": 7,
       "==": 6, "!=": 6, "<": 6, ">": 6, "<=": 6, ">=": 6, "&&": 5, "||": 4}
ASSIGN = {"=", "+=", "-=", "*=", "/=", "%=", "^=", "&=", "|=", "<<=", ">>="}
BLOCKLIKE = {"if", "match", "for", "while", "loop", "unsafe"}


def is_kw(t, s):
    return t is not None and t.kind == "ident" and t.text == s


def is_group(t, d=None):
    return t is not None and t.kind == "group" and (d is None or t.text == d)


def split_top(ts, sep=","):
    """splits a token list at top-level `sep`; returns (parts, trailing separator present)"""
    parts, cur = [], []
    for t in ts:
        if t.is_p(sep):
            parts.append(cur)
            cur = []
        else:
            cur.append(t)
    trailing = bool(parts) and not cur
    if cur:
        parts.append(cur)
    return parts, trailing


class Parser:
    def __init__(self, toks, line=0):
        self.t = toks
        self.i = 0
        self.line0 = line
        self.nostruct = False

    def peek(self, k=0):
        j = self.i + k
        return self.t[j] if j < len(self.t) else None

    def eof(self):
        return self.i >= len(self.t)

    def line(self):
        t = self.peek()
        if t is not None:
            return t.line
        return self.t[-1].line if self.t else self.line0

    def next(self):
        t = self.peek()
        if t is None:
            raise SiteError("unexpected end of the token group", self.line())
        self.i += 1
        return t

    def at_p(self, s, k=0):
        t = self.peek(k)
        return t is not None and t.is_p(s)

    def expect_p(self, s):
        t = self.next()
        if not t.is_p(s):
            raise SiteError(f"expected `{s}`, found `{t.text}`", t.line)
        return t

    def skip_attrs(self):
        while self.at_p("#"):
            self.i += 1
            if self.at_p("!"):
                self.i += 1
            if not is_group(self.peek(), "Bracket"):
                raise SiteError("`#` without an attribute", self.line())
            self.i += 1

    # ---- types (only what casts and annotations need): the last identifier of a path
    def type_name(self):
        """consumes a simple type: `&`s, path with optional generic arguments; returns its last identifier"""
        while self.at_p("&") or self.at_p("&&") or is_kw(self.peek(), "mut") or (
                self.peek() is not None and self.peek().kind == "ident" and self.peek().text.startswith("'")):
            self.i += 1
        t = self.peek()
        if is_group(t):                  # tuple / slice type
            self.i += 1
            return "(..)"
        if t is None or t.kind != "ident":
            raise SiteError("expected a type", self.line())
        name = self.next().text
        while True:
            if self.at_p("::") and self.peek(1) is not None and self.peek(1).kind == "ident":
                self.i += 1
                name = self.next().text
            elif self.at_p("<") or (self.at_p("::") and self.at_p("<", 1)):
                if self.at_p("::"):
                    self.i += 1
                depth = 0
                while not self.eof():
                    u = self.next()
                    if u.is_p("<"):
                        depth += 1
                    elif u.is_p(">"):
                        depth -= 1
                    elif u.is_p(">>"):
                        depth -= 2
                    if depth <= 0:
                        break
            else:
                return name

    # ---- expressions
    def expr(self, minbp=0):
        t = self.peek()
        if t is not None and (t.is_p("..") or t.is_p("..=")):
            self.i += 1
            hi = self.expr(4) if self.starts_expr() else None
            lhs = ("range", t.line, None, hi, t.text == "..=")
        else:
            lhs = self.unary()
        while True:
            t = self.peek()
            if t is None:
                break
            if is_kw(t, "as"):
                if 13 < minbp:
                    break
                self.i += 1
                lhs = ("cast", t.line, lhs, self.type_name())
                continue
            if t.kind != "punct":
                break
            op = t.text
            if op in ("..", "..="):
                if 3 < minbp:
                    break
                self.i += 1
                hi = self.expr(4) if self.starts_expr() else None
                lhs = ("range", t.line, lhs, hi, op == "..=")
                continue
            if op in ASSIGN:
                if 2 < minbp:
                    break
                self.i += 1
                lhs = ("assign", t.line, op, lhs, self.expr(2))
                continue
            bp = BIN.get(op)
            if bp is None or bp < minbp:
                break
            self.i += 1
            lhs = ("bin", t.line, op, lhs, self.expr(bp + 1))
        return lhs

    def starts_expr(self):
        t = self.peek()
        if t is None:
            return False
        if t.kind in ("lit", "ident"):
            return not (t.kind == "ident" and t.text in ("else", "as", "in"))
        if t.kind == "group":
            return not (self.nostruct and t.text == "Brace")
        return t.text in ("-", "!", "&", "*", "&&")

    def unary(self):
        t = self.peek()
        if t is None:
            raise SiteError("expected an expression", self.line())
        if t.kind == "punct" and t.text in ("-", "!", "*", "&", "&&"):
            self.i += 1
            if t.text in ("&", "&&") and is_kw(self.peek(), "mut"):
                self.i += 1
            return ("un", t.line, t.text, self.unary())
        if t.kind == "punct" and t.text in ("|", "||"):
            # a closure `|pattern, ..| body` (no captures by move, no type annotations)
            self.i += 1
            pats = []
            if t.text == "|":
                toks = []
                while not self.at_p("|"):
                    if self.eof():
                        raise SiteError("unterminated closure parameter list", t.line)
                    toks.append(self.next())
                self.i += 1
                parts, _ = split_top(toks)
                pats = [Parser(q, t.line).whole_pattern() for q in parts]
            return ("closure", t.line, pats, self.expr())
        if t.is_p("<"):
            # `<T>::name`: a path qualified by a type (`<()>::parse_in`)
            self.i += 1
            ty = []
            while not self.at_p(">"):
                if self.eof():
                    raise SiteError("unterminated `<type>` qualifier", t.line)
                ty.append(self.next())
            self.i += 1
            if len(ty) == 1 and is_group(ty[0], "Paren") and not ty[0].sub:
                name = "unit"
            else:
                name = last_ident(strip_angles(ty))
            segs = [name]
            while self.at_p("::") and self.peek(1) is not None and self.peek(1).kind == "ident":
                segs.append(self.peek(1).text)
                self.i += 2
            return self.postfix(("path", t.line, segs))
        return self.postfix(self.primary())

    def postfix(self, e, only_dot=False):
        while True:
            t = self.peek()
            if t is None:
                return e
            if t.is_p("."):
                u = self.peek(1)
                if u is None:
                    raise SiteError("`.` at the end", t.line)
                if u.kind == "ident":
                    self.i += 2
                    if self.at_p("::"):
                        raise SiteError("turbofish method call", u.line)
                    if is_group(self.peek(), "Paren"):
                        e = ("mcall", u.line, e, u.text, self.args(self.next()))
                    else:
                        e = ("field", u.line, e, u.text)
                elif u.kind == "lit" and re.fullmatch(r"\d+", u.text):
                    self.i += 2
                    e = ("field", u.line, e, int(u.text))
                else:
                    raise SiteError(f"unexpected `{u.text}` after `.`", u.line)
            elif t.is_p("?"):
                self.i += 1
                e = ("try", t.line, e)
            elif only_dot:
                return e
            elif is_group(t, "Paren"):
                self.i += 1
                e = ("call", t.line, e, self.args(t))
            elif is_group(t, "Bracket"):
                self.i += 1
                e = ("index", t.line, e, Parser(t.sub, t.line).whole_expr())
            else:
                return e

    def args(self, g):
        parts, _ = split_top(g.sub)
        return [Parser(p, g.line).whole_expr() for p in parts]

    def whole_expr(self):
        e = self.expr()
        if not self.eof():
            raise SiteError(f"unexpected `{self.peek().text}` after an expression", self.line())
        return e

    def path(self):
        segs = [self.next().text]
        while self.at_p("::"):
            u = self.peek(1)
            if u is not None and u.kind == "ident":
                self.i += 2
                segs.append(u.text)
            else:
                raise SiteError("generic arguments in an expression path (`::<`) are not read by this translator", self.line())
        return segs

    def primary(self):
        t = self.peek()
        ln = t.line
        if t.kind == "lit":
            self.i += 1
            return ("lit", ln, literal(t.text, ln))
        if t.kind == "group":
            self.i += 1
            if t.text == "Brace":
                return parse_block(t)
            parts, trailing = split_top(t.sub)
            items = [Parser(p, ln).whole_expr() for p in parts]
            if t.text == "Bracket":
                if any(u.is_p(";") for u in t.sub):
                    raise SiteError("array repeat expressions are not read by this translator", ln)
                return ("array", ln, items)
            if not items:
                return ("lit", ln, ("unit",))
            if len(items) == 1 and not trailing:
                return items[0]
            return ("tuple", ln, items)
        if t.kind != "ident":
            raise SiteError(f"unexpected `{t.text}` where an expression should start", ln)
        w = t.text
        if w in ("true", "false"):
            self.i += 1
            return ("lit", ln, ("bool", w == "true"))
        if w == "if":
            return self.if_expr()
        if w == "match":
            self.i += 1
            scrut = self.cond()
            g = self.next()
            if not is_group(g, "Brace"):
                raise SiteError("expected the arms of a `match`", g.line)
            return ("match", ln, scrut, parse_arms(g))
        if w == "for":
            self.i += 1
            pat = self.pattern_top()
            if not is_kw(self.peek(), "in"):
                raise SiteError("expected `in`", self.line())
            self.i += 1
            it = self.cond()
            return ("for", ln, pat, it, self.block_here())
        if w == "while":
            self.i += 1
            if is_kw(self.peek(), "let"):
                self.i += 1
                pat = self.pattern_top()
                self.expect_p("=")
                c = ("iflet", ln, pat, self.cond())
                return ("while", ln, c, self.block_here())
            c = self.cond()
            return ("while", ln, c, self.block_here())
        if w == "unsafe":
            self.i += 1
            return self.block_here()
        if w == "return":
            self.i += 1
            return ("return", ln, self.expr() if self.starts_expr() else None)
        if w == "break":
            self.i += 1
            return ("break", ln, self.expr() if self.starts_expr() else None)
        if w == "loop":
            self.i += 1
            return ("loop", ln, self.block_here())
        if w == "continue":
            self.i += 1
            return ("continue", ln)
        if w in KEYWORDS and w not in ("Self", "self", "crate", "super"):
            raise SiteError(f"`{w}` is not part of the Rust fragment this translator evaluates", ln)
        segs = self.path()
        if self.at_p("!") and is_group(self.peek(1)):
            self.i += 1
            return ("mac", ln, segs[-1], self.next())
        if (is_group(self.peek(), "Brace") and not self.nostruct
                and (segs[-1][:1].isupper() or segs == ["Self"])):
            return ("struct", ln, segs, parse_fields(self.next()))
        return ("path", ln, segs)

    def cond(self):
        """an expression in a position where a struct literal is not allowed"""
        old, self.nostruct = self.nostruct, True
        try:
            return self.expr()
        finally:
            self.nostruct = old

    def block_here(self):
        g = self.next()
        if not is_group(g, "Brace"):
            raise SiteError(f"expected a block, found `{g.text}`", g.line)
        return parse_block(g)

    def if_expr(self):
        ln = self.next().line
        if is_kw(self.peek(), "let"):
            self.i += 1
            pat = self.pattern_top()
            self.expect_p("=")
            c = ("iflet", ln, pat, self.cond())
        else:
            c = self.cond()
        then = self.block_here()
        els = None
        if is_kw(self.peek(), "else"):
            self.i += 1
            els = self.if_expr() if is_kw(self.peek(), "if") else self.block_here()
        return ("if", ln, c, then, els)

    # ---- patterns
    def pattern_top(self):
        if self.at_p("|"):
            self.i += 1
        alts = [self.pattern_one()]
        while self.at_p("|"):
            self.i += 1
            alts.append(self.pattern_one())
        return alts[0] if len(alts) == 1 else ("por", alts[0][1], alts)

    def lit_pat(self):
        t = self.next()
        ln = t.line
        if t.is_p("-"):
            u = self.next()
            v = literal(u.text, ln) if u.kind == "lit" else None
            if v is None or v[0] != "int":
                raise SiteError("expected a number after `-` in a pattern", ln)
            return ("int", -v[1], v[2])
        if t.kind == "lit":
            return literal(t.text, ln)
        if t.kind == "ident" and t.text in ("true", "false"):
            return ("bool", t.text == "true")
        raise SiteError(f"expected a literal in a pattern, found `{t.text}`", ln)

    def pattern_one(self):
        t = self.peek()
        if t is None:
            raise SiteError("expected a pattern", self.line())
        ln = t.line
        if t.is_p("&") or t.is_p("&&"):
            self.i += 1
            if is_kw(self.peek(), "mut"):
                self.i += 1
            return self.pattern_one()
        if t.is_p(".."):
            self.i += 1
            return ("prest", ln)
        if t.kind == "lit" or t.is_p("-") or (t.kind == "ident" and t.text in ("true", "false")):
            lo = self.lit_pat()
            u = self.peek()
            if u is not None and u.kind == "punct" and u.text in ("..=", "..", "..."):
                self.i += 1
                v = self.peek()
                hi = None
                if v is not None and (v.kind == "lit" or v.is_p("-")):
                    hi = self.lit_pat()
                elif u.text != "..":
                    raise SiteError("inclusive range pattern without an end", ln)
                return ("prange", ln, lo, hi, u.text != "..")
            return ("plit", ln, lo)
        if t.kind == "group":
            self.i += 1
            if t.text != "Paren":
                raise SiteError("slice and block patterns are not read by this translator", ln)
            parts, trailing = split_top(t.sub)
            ps = [Parser(p, ln).whole_pattern() for p in parts]
            if len(ps) == 1 and not trailing and ps[0][0] != "prest":
                return ps[0]
            return ("ptuple", ln, ps)
        if t.kind != "ident":
            raise SiteError(f"unexpected `{t.text}` in a pattern", ln)
        if t.text == "_":
            self.i += 1
            return ("pwild", ln)
        while is_kw(self.peek(), "ref") or is_kw(self.peek(), "mut"):
            self.i += 1
        segs = self.path()
        g = self.peek()
        if is_group(g, "Paren"):
            self.i += 1
            parts, _ = split_top(g.sub)
            return ("ppath", ln, segs, [Parser(p, ln).whole_pattern() for p in parts])
        if is_group(g, "Brace") and not self.nostruct:
            raise SiteError("struct patterns are not read by this translator", ln)
        if len(segs) > 1 or segs[0][:1].isupper():
            return ("ppath", ln, segs, None)
        sub = None
        if self.at_p("@"):
            self.i += 1
            sub = self.pattern_one()
        return ("pbind", ln, segs[0], sub)

    def whole_pattern(self):
        p = self.pattern_top()
        if not self.eof():
            raise SiteError(f"unexpected `{self.peek().text}` after a pattern", self.line())
        return p


def parse_fields(g):
    """fields of a struct literal: [(name, expr)], base expression or None"""
    parts, _ = split_top(g.sub)
    fields, base = [], None
    for p in parts:
        if p[0].is_p(".."):
            base = Parser(p[1:], g.line).whole_expr()
        elif len(p) >= 3 and p[0].kind in ("ident", "lit") and p[1].is_p(":"):
            fields.append((p[0].text, p[0].line, Parser(p[2:], g.line).whole_expr()))
        elif len(p) == 1 and p[0].kind == "ident":
            fields.append((p[0].text, p[0].line, ("path", p[0].line, [p[0].text])))
        else:
            raise SiteError("malformed field of a struct literal", p[0].line)
    return fields, base


def parse_arms(g):
    p = Parser(g.sub, g.line)
    arms = []
    while not p.eof():
        p.skip_attrs()
        pat = p.pattern_top()
        guard = None
        if is_kw(p.peek(), "if"):
            p.i += 1
            guard = p.expr()
        t = p.next()
        if not t.is_p("=>"):
            raise SiteError(f"expected `=>` in a match arm, found `{t.text}`", t.line)
        if is_group(p.peek(), "Brace"):
            body = parse_block(p.next())
            if not p.eof() and not p.at_p(","):
                nxt = p.peek()
                if nxt.kind == "punct" and nxt.text in (".", "?"):
                    body = p.postfix(body, only_dot=True)
        else:
            body = p.expr()
        if p.at_p(","):
            p.i += 1
        elif not p.eof() and body[0] not in ("block", "if", "match", "for", "while"):
            raise SiteError("expected `,` between match arms", p.line())
        arms.append((pat, guard, body))
    return arms


def parse_block(g):
    """("block", line, [stmt], tail or None); stmt = ("let", line, pat, type, expr) | ("const", line, name, type, expr)
    | ("expr", line, e)"""
    p = Parser(g.sub, g.line)
    stmts, tail = [], None
    while not p.eof():
        p.skip_attrs()
        if p.eof():
            break
        t = p.peek()
        ln = t.line
        if t.is_p(";"):
            p.i += 1
        elif is_kw(t, "let"):
            p.i += 1
            pat = p.pattern_top()
            ty = None
            if p.at_p(":"):
                p.i += 1
                ty = p.type_name()
            init = None
            if p.at_p("="):
                p.i += 1
                init = p.expr()
            if is_kw(p.peek(), "else"):
                raise SiteError("`let .. else` is not read by this translator", ln)
            p.expect_p(";")
            stmts.append(("let", ln, pat, ty, init))
        elif (is_kw(t, "const") or is_kw(t, "static")) and p.peek(1) is not None and p.peek(1).kind == "ident" \
                and not is_kw(p.peek(1), "fn"):
            p.i += 1
            name = p.next().text
            p.expect_p(":")
            ty = p.type_name()
            p.expect_p("=")
            e = p.expr()
            p.expect_p(";")
            stmts.append(("const", ln, name, ty, e))
        elif is_kw(t, "use"):
            while not p.eof() and not p.at_p(";"):
                p.i += 1
            if not p.eof():
                p.i += 1
        elif is_kw(t, "enum") and p.peek(1) is not None and p.peek(1).kind == "ident" and is_group(p.peek(2), "Brace"):
            # a local enum of unit variants (`enum State { Init, .. }`)
            name = p.peek(1).text
            parts, _ = split_top(p.peek(2).sub)
            vs = []
            for part in parts:
                part = [u_ for u_ in part if not (u_.kind == "group" and u_.text == "Bracket") and not u_.is_p("#")]
                if len(part) == 1 and part[0].kind == "ident":
                    vs.append((part[0].text, "unit"))
                elif len(part) == 2 and part[0].kind == "ident" and is_group(part[1], "Paren"):
                    vs.append((part[0].text, "tuple"))
                else:
                    raise SiteError(f"the local enum `{name}` has a variant that is neither a unit nor a tuple variant", ln)
            p.i += 3
            stmts.append(("enum", ln, name, vs))
        elif is_kw(t, "fn") and p.peek(1) is not None and p.peek(1).kind == "ident":
            # a local function without generics: fn name(params) -> Ret { body }
            name = p.peek(1).text
            q = p.i + 2
            if not is_group(p.t[q] if q < len(p.t) else None, "Paren"):
                raise SiteError(f"the local function `{name}` has generic parameters or no parameter list", ln)
            params = p.t[q]
            q += 1
            ret = []
            while q < len(p.t) and not is_group(p.t[q], "Brace"):
                ret.append(p.t[q])
                q += 1
            if q >= len(p.t):
                raise SiteError(f"the local function `{name}` has no body", ln)
            stmts.append(("localfn", ln, name, Fn(name, params, ret, p.t[q], ln)))
            p.i = q + 1
        elif is_kw(t, "fn") or is_kw(t, "struct") or is_kw(t, "enum") or is_kw(t, "impl"):
            raise SiteError(f"nested `{t.text}` items are not read by this translator", ln)
        else:
            blocklike = (t.kind == "group" and t.text == "Brace") or (t.kind == "ident" and t.text in BLOCKLIKE)
            if blocklike:
                e = p.postfix(p.primary(), only_dot=True)
            else:
                e = p.expr()
            if p.at_p(";"):
                p.i += 1
                stmts.append(("expr", ln, e))
            elif p.eof():
                tail = e
            elif blocklike:
                stmts.append(("expr", ln, e))
            else:
                raise SiteError(f"expected `;`, found `{p.peek().text}`", p.line())
    return ("block", g.line, stmts, tail)


# ----------------------------------------------------------------------------- items of a file

class Fn:
    def __init__(self, name, params, ret, body, line, impl_type=None, impl_trait=None):
        self.name, self.param_group, self.ret, self.body_group, self.line = name, params, ret, body, line
        self.impl_type, self.impl_trait = impl_type, impl_trait
        self._ast = None
        self._params = None

    @property
    def params(self):
        if self._params is None:
            self._params = Module.params(self.param_group)
        return self._params

    def ast(self):
        if self._ast is None:
            self._ast = parse_block(self.body_group)
        return self._ast

    def where(self):
        q = f"{self.impl_type}::" if self.impl_type else ""
        return f"fn {q}{self.name}"


def strip_angles(ts):
    """drops `<...>` generic parts of an impl header / signature"""
    out, depth = [], 0
    for t in ts:
        if t.is_p("<"):
            depth += 1
        elif t.is_p(">") and depth:
            depth -= 1
        elif t.is_p(">>") and depth:
            depth = max(0, depth - 2)
        elif depth == 0:
            out.append(t)
    return out


def last_ident(ts):
    ids = [t.text for t in ts if t.kind == "ident" and t.text not in ("mut", "dyn") and not t.text.startswith("'")]
    return ids[-1] if ids else None


class Module:
    """the items of one source file, indexed by name"""

    def __init__(self, path, rel):
        self.path, self.rel = path, rel
        try:
            src = open(path, encoding="utf-8").read()
        except (OSError, UnicodeDecodeError) as e:
            raise SiteError(f"cannot read {path}: {e}")
        try:
            self.tokens = trees(lex(src))
        except TranslateError as e:
            raise SiteError(f"cannot tokenise {rel}: {e}", getattr(e, "line", None))
        self.fns = {}            # name -> [Fn] (free functions)
        self.impl_fns = {}       # (type, name) -> [Fn]
        self.consts = {}         # name -> (type, expr tokens, line)
        self.impl_consts = {}    # (type, name) -> (type, expr tokens, line)
        self.enums = {}          # name -> [(variant, kind, line)]
        self.enum_lines = {}
        self.structs = {}        # name -> "tuple" | "record" | "unit"
        self.macros = {}         # name -> (pattern group, body group, line)
        self.invocations = {}    # name -> [group]
        self.const_cache = {}
        self.index(self.tokens, None, None)

    def index(self, ts, impl_type, impl_trait):
        i, n = 0, len(ts)
        while i < n:
            t = ts[i]
            if t.kind != "ident":
                i += 1
                continue
            w = t.text
            nx = ts[i + 1] if i + 1 < n else None
            if w == "macro_rules" and nx is not None and nx.is_p("!") and i + 3 < n and ts[i + 2].kind == "ident" \
                    and ts[i + 3].kind == "group":
                body = ts[i + 3].sub
                if len(body) >= 3 and body[0].kind == "group" and body[1].is_p("=>") and body[2].kind == "group" \
                        and len([x for x in body if x.is_p("=>")]) == 1:
                    self.macros[ts[i + 2].text] = (body[0], body[2], t.line)
                i += 4
            elif w == "impl" and impl_type is None:
                j = i + 1
                while j < n and not is_group(ts[j], "Brace"):
                    j += 1
                if j >= n:
                    break
                head = strip_angles(ts[i + 1:j])
                cut = next((k for k, x in enumerate(head) if is_kw(x, "where")), len(head))
                head = head[:cut]
                k = next((k for k, x in enumerate(head) if is_kw(x, "for")), None)
                ty = last_ident(head if k is None else head[k + 1:])
                tr = None if k is None else last_ident(head[:k])
                self.index(ts[j].sub, ty or "?", tr)
                i = j + 1
            elif w == "fn" and nx is not None and nx.kind == "ident":
                j, depth = i + 2, 0
                while j < n and not (depth == 0 and is_group(ts[j], "Paren")):
                    if ts[j].is_p("<"):
                        depth += 1
                    elif ts[j].is_p(">") and depth:
                        depth -= 1
                    elif ts[j].is_p(">>") and depth:
                        depth = max(0, depth - 2)
                    j += 1
                k = j + 1
                while k < n and not is_group(ts[k], "Brace") and not ts[k].is_p(";"):
                    k += 1
                if j < n and k < n and is_group(ts[k], "Brace"):
                    ret = None
                    sig = strip_angles(ts[j + 1:k])
                    if sig and sig[0].is_p("->"):
                        cut = next((q for q, x in enumerate(sig) if is_kw(x, "where")), len(sig))
                        ret = last_ident(sig[1:cut])
                    f = Fn(nx.text, ts[j], ret, ts[k], t.line, impl_type, impl_trait)
                    if impl_type is None:
                        self.fns.setdefault(nx.text, []).append(f)
                    else:
                        self.impl_fns.setdefault((impl_type, nx.text), []).append(f)
                i = k + 1
            elif w in ("const", "static") and nx is not None and nx.kind == "ident" and not is_kw(nx, "fn") \
                    and i + 2 < n and ts[i + 2].is_p(":"):
                j = i + 3
                while j < n and not ts[j].is_p("=") and not ts[j].is_p(";"):
                    j += 1
                k = j
                while k < n and not ts[k].is_p(";"):
                    k += 1
                if j < n and ts[j].is_p("="):
                    rec = (last_ident(strip_angles(ts[i + 3:j])), ts[j + 1:k], t.line)
                    if impl_type is None:
                        self.consts[nx.text] = rec
                    else:
                        self.impl_consts[(impl_type, nx.text)] = rec
                i = k + 1
            elif w == "enum" and nx is not None and nx.kind == "ident" and impl_type is None:
                j = i + 2
                while j < n and not is_group(ts[j], "Brace"):
                    j += 1
                if j < n:
                    vs = []
                    parts, _ = split_top(ts[j].sub)
                    for p in parts:
                        q = 0
                        while q < len(p) and p[q].is_p("#"):
                            q += 2
                        if q < len(p) and p[q].kind == "ident":
                            kind = "unit"
                            if q + 1 < len(p) and p[q + 1].kind == "group":
                                kind = "tuple" if p[q + 1].text == "Paren" else "record"
                            if q + 1 < len(p) and p[q + 1].is_p("="):
                                kind = "explicit"
                            vs.append((p[q].text, kind, p[q].line))
                    self.enums[nx.text] = vs
                    self.enum_lines[nx.text] = t.line
                i = j + 1
            elif w == "struct" and nx is not None and nx.kind == "ident" and impl_type is None:
                j = i + 2
                while j < n and not is_group(ts[j]) and not ts[j].is_p(";"):
                    j += 1
                if j < n and is_group(ts[j], "Paren"):
                    self.structs[nx.text] = "tuple"
                elif j < n and is_group(ts[j], "Brace"):
                    self.structs[nx.text] = "record"
                else:
                    self.structs[nx.text] = "unit"
                i = j + 1
            elif w == "mod" and nx is not None and nx.kind == "ident" and i + 2 < n and is_group(ts[i + 2], "Brace"):
                i += 3           # nested modules (tests) are not searched
            elif nx is not None and nx.is_p("!") and i + 2 < n and ts[i + 2].kind == "group" and impl_type is None \
                    and w not in KEYWORDS:
                self.invocations.setdefault(w, []).append(ts[i + 2])
                i += 3
            else:
                i += 1

    @staticmethod
    def params(g):
        """[(name, type name)] of a parameter list; `self` in any form is ("self", None)"""
        parts, cur, depth = [], [], 0
        for t in g.sub:
            if t.is_p("<"):
                depth += 1
            elif t.is_p(">") and depth:
                depth -= 1
            elif t.is_p(">>") and depth:
                depth = max(0, depth - 2)
            if t.is_p(",") and depth == 0:
                parts.append(cur)
                cur = []
            else:
                cur.append(t)
        if cur:
            parts.append(cur)
        out = []
        for p in parts:
            ids = [t for t in p if not (t.is_p("&") or is_kw(t, "mut") or (t.kind == "ident" and t.text.startswith("'")))]
            if ids and is_kw(ids[0], "self"):
                out.append(("self", None))
                continue
            k = next((q for q, t in enumerate(p) if t.is_p(":")), None)
            if k is None:
                raise SiteError("parameter without a type", p[0].line if p else g.line)
            names = [t for t in p[:k] if t.kind == "ident" and t.text != "mut"]
            out.append((names[-1].text if names else "_", last_ident(strip_angles(p[k + 1:]))))
        return out

    # ---- lookup
    def find_fn(self, name, impl_type=None, impl_trait=None):
        if impl_type is None:
            c = self.fns.get(name, [])
        else:
            c = [f for f in self.impl_fns.get((impl_type, name), []) if impl_trait is None or f.impl_trait == impl_trait]
            if len(c) > 1:
                d = [f for f in c if f.impl_trait in (None, "Display")]
                c = d or c
        q = f"{impl_type}::" if impl_type else ""
        if not c:
            raise SiteError(f"no definition `fn {q}{name}` found in {self.rel}")
        if len(c) > 1:
            raise SiteError(f"`fn {q}{name}` is defined {len(c)} times in {self.rel}", c[1].line)
        return c[0]


# ----------------------------------------------------------------------------- the one-rule macro kind_set!

def copy_tok(t, sub=None):
    return Tok(t.kind, t.text, t.line, sub if sub is not None else t.sub)


def match_flat(pats, ts, names_of, binds, line):
    """matches a flat pattern (tokens, single-token metavariables, groups) against a token list"""
    if len(pats) != len(ts):
        raise SiteError("an entry of the macro invocation does not have the shape of the macro's pattern", line)
    for p, t in zip(pats, ts):
        if p[0] == "tok":
            if t.kind == "group" or t.text != p[1][1]:
                raise SiteError(f"expected `{p[1][1]}` in the macro invocation, found `{t.text}`", t.line)
        elif p[0] == "var":
            frag = p[2]
            ok = (frag == "FIdent" and t.kind == "ident") or (frag == "FLiteral" and t.kind == "lit") or frag == "FTt"
            if not ok:
                raise SiteError(f"`{t.text}` does not match the fragment of metavariable ${names_of[p[1]]}", t.line)
            binds[names_of[p[1]]] = t
        elif p[0] == "group":
            if t.kind != "group" or t.text != p[1]:
                raise SiteError("expected a delimited group in the macro invocation", t.line)
            match_flat(p[2], t.sub, names_of, binds, t.line)
        else:
            raise SiteError("nested repetitions in the macro pattern are not read by this translator", line)


def macro_entries(mod, name):
    """entries of the single invocation of the one-rule macro `name` whose pattern is `$( flat ) sep *`:
    ([{metavariable: token}], invocation line)"""
    if name not in mod.macros:
        raise SiteError(f"no single-rule `macro_rules! {name}` found in {mod.rel}")
    inv = mod.invocations.get(name, [])
    if len(inv) != 1:
        raise SiteError(f"expected exactly one `{name}! {{ .. }}` invocation in {mod.rel}, found {len(inv)}")
    pg, _, mline = mod.macros[name]
    names = {}
    try:
        pat = parse_pat(pg.sub, names)
    except TranslateError as e:
        raise SiteError(f"pattern of `macro_rules! {name}`: {e}", mline)
    if len(pat) != 1 or pat[0][0] != "rep" or pat[0][3] not in ("RStar", "RPlus"):
        raise SiteError(f"the pattern of `macro_rules! {name}` is not a single repetition `$( .. ) sep *`", mline)
    inner, sep = pat[0][1], pat[0][2]
    names_of = {v: k for k, v in names.items()}
    g = inv[0]
    if sep is None:
        raise SiteError(f"the repetition of `macro_rules! {name}` has no separator", mline)
    chunks, _ = split_top(g.sub, sep[1])
    entries = []
    for ch in chunks:
        b = {}
        match_flat(inner, ch, names_of, b, ch[0].line if ch else g.line)
        entries.append(b)
    return entries, g.line


def expand_tokens(ts, entries, binds, line):
    out = []
    i = 0
    while i < len(ts):
        t = ts[i]
        if t.is_p("$") and i + 1 < len(ts):
            u = ts[i + 1]
            if u.kind == "ident":
                if binds is None or u.text not in binds:
                    raise SiteError(f"metavariable ${u.text} used outside its repetition", u.line)
                out.append(copy_tok(binds[u.text]))
                i += 2
                continue
            if is_group(u, "Paren"):
                j = i + 2
                sep = None
                if j < len(ts) and ts[j].kind == "punct" and ts[j].text in ("*", "+"):
                    j += 1
                elif j + 1 < len(ts) and ts[j + 1].kind == "punct" and ts[j + 1].text in ("*", "+"):
                    sep = ts[j]
                    j += 2
                else:
                    raise SiteError("repetition without `*` or `+` in the macro body", u.line)
                for k, b in enumerate(entries):
                    if k and sep is not None:
                        out.append(copy_tok(sep))
                    out.extend(expand_tokens(u.sub, entries, b, u.line))
                i = j
                continue
        if t.kind == "group":
            out.append(copy_tok(t, expand_tokens(t.sub, entries, binds, t.line)))
        else:
            out.append(t)
        i += 1
    return out


def expand_macro(mod, name):
    """expands the invocation of the one-rule macro and indexes the items it defines"""
    entries, line = macro_entries(mod, name)
    _, body, _ = mod.macros[name]
    mod.index(expand_tokens(body.sub, entries, None, line), None, None)
    return entries, line


# ----------------------------------------------------------------------------- interpreter
# values: ("int", n, type or None) ("char", cp) ("bool", b) ("str", [cp]) ("unit",) ("tuple", [v])
#         ("variant", type or None, name, [v]) -- enum variants, tuple structs (name = type), Some/None/Ok/Err
#         ("struct", type, {field: v}) ("range", lo, hi, inclusive) ("list", [v]) ("fmt",) ("fn", Fn) ("ctor", type, name)

UNIT = ("unit",)
OK_UNIT = ("variant", None, "Ok", [UNIT])
WHITE_SPACE = {9, 10, 11, 12, 13, 0x20, 0x85, 0xA0, 0x1680, 0x2028, 0x2029, 0x202F, 0x205F, 0x3000} | set(range(0x2000, 0x200B))


def mk_int(n, ty, what="arithmetic"):
    if ty is not None:
        bits, signed = INT_TYPES[ty]
        lo, hi = (-(1 << (bits - 1)), (1 << (bits - 1)) - 1) if signed else (0, (1 << bits) - 1)
        if not lo <= n <= hi:
            raise EvalPanic(f"{what} overflows {ty} (value {n})")
    return ("int", n, ty)


def wrap_int(n, ty):
    bits, signed = INT_TYPES[ty]
    n &= (1 << bits) - 1
    if signed and n >> (bits - 1):
        n -= 1 << bits
    return ("int", n, ty)


def show_val(v):
    k = v[0]
    if k == "int":
        return str(v[1])
    if k == "char":
        return f"U+{v[1]:04X}"
    if k == "bool":
        return "true" if v[1] else "false"
    if k == "str":
        return '"' + "".join(chr(c) if 32 <= c < 127 and c not in (0x22, 0x5C, 0x3B) else "\\u{%x}" % c for c in v[1]) + '"'
    if k == "variant":
        q = f"{v[1]}::{v[2]}" if v[1] and v[1] != v[2] else v[2]
        return q + ("(" + ", ".join(show_val(a) for a in v[3]) + ")" if v[3] else "")
    if k == "struct":
        return v[1] + " { " + ", ".join(f"{f}: {show_val(x)}" for f, x in sorted(v[2].items())) + " }"
    if k == "tuple":
        return "(" + ", ".join(show_val(a) for a in v[1]) + ")"
    return k


class Interp:
    def __init__(self, mod):
        self.mod = mod
        self.out = []            # what was written to the formatter
        self.steps = 0
        self.depth = 0

    # ---- entry
    def call(self, fn, args, self_type=None):
        """calls a Fn of the module with argument values (self first for methods)"""
        if len(args) != len(fn.params):
            raise SiteError(f"`{fn.where()}` takes {len(fn.params)} arguments, {len(args)} given", fn.line)
        self.depth += 1
        if self.depth > 40:
            raise SiteError("call depth exceeded while evaluating", fn.line)
        env = [{}]
        for (name, ty), v in zip(fn.params, args):
            env[0][name] = self.coerce(v, ty)
        st = fn.impl_type or self_type
        try:
            try:
                r = self.block(fn.ast(), env, st)
            except _Return as e:
                r = e.v
        finally:
            self.depth -= 1
        return self.coerce(r, fn.ret)

    @staticmethod
    def coerce(v, ty):
        if v[0] == "int" and v[2] is None and ty in INT_TYPES:
            return mk_int(v[1], ty, "a literal")
        return v

    def tick(self, ln):
        self.steps += 1
        if self.steps > 2_000_000:
            raise SiteError("evaluation does not finish within the step budget", ln)

    # ---- blocks and statements
    def block(self, b, env, st):
        env = env + [{}]
        for s in b[2]:
            if s[0] == "let":
                v = self.ev(s[4], env, st) if s[4] is not None else None
                if v is None:
                    if s[2][0] != "pbind":
                        raise SiteError("`let` without initialiser", s[1])
                    env[-1][s[2][2]] = None
                    continue
                v = self.coerce(v, s[3])
                env.append({})
                if not self.pm(s[2], v, env[-1], env, st):
                    raise SiteError("refutable pattern in `let` does not match", s[1])
            elif s[0] == "const":
                env[-1][s[2]] = self.coerce(self.ev(s[4], env, st), s[3])
            elif s[0] == "enum":
                self.mod.enums.setdefault(s[2], [(v if isinstance(v, str) else v[0], "unit" if isinstance(v, str) else v[1], s[1])
                                                 for v in s[3]])
            elif s[0] == "localfn":
                env[-1][s[2]] = ("fn", s[3])
            else:
                self.ev(s[2], env, st)
        return self.ev(b[3], env, st) if b[3] is not None else UNIT

    def lookup(self, env, name):
        for sc in reversed(env):
            if name in sc:
                return sc, sc[name]
        return None, None

    # ---- expressions
    def ev(self, e, env, st):
        k, ln = e[0], e[1]
        self.tick(ln)
        if k == "lit":
            return e[2]
        if k == "path":
            return self.path(e[2], env, st, ln)
        if k == "block":
            return self.block(e, env, st)
        if k == "un":
            return self.unop(e[2], self.ev(e[3], env, st), ln)
        if k == "bin":
            op = e[2]
            if op in ("&&", "||"):
                a = self.ev(e[3], env, st)
                self.need(a, "bool", ln)
                if a[1] == (op == "||"):
                    return a
                b = self.ev(e[4], env, st)
                self.need(b, "bool", ln)
                return b
            return self.binop(op, self.ev(e[3], env, st), self.ev(e[4], env, st), ln)
        if k == "cast":
            return self.cast(self.ev(e[2], env, st), e[3], ln)
        if k == "range":
            lo = self.ev(e[2], env, st) if e[2] is not None else None
            hi = self.ev(e[3], env, st) if e[3] is not None else None
            return ("range", lo, hi, e[4])
        if k == "tuple":
            return ("tuple", [self.ev(x, env, st) for x in e[2]])
        if k == "array":
            return ("list", [self.ev(x, env, st) for x in e[2]])
        if k == "if":
            c = e[2]
            inner = env
            if c[0] == "iflet":
                v = self.ev(c[3], env, st)
                b = {}
                ok = self.pm(c[2], v, b, env, st)
                inner = env + [b]
            else:
                v = self.ev(c, env, st)
                self.need(v, "bool", ln)
                ok = v[1]
            if ok:
                return self.ev(e[3], inner, st)
            return self.ev(e[4], env, st) if e[4] is not None else UNIT
        if k == "match":
            v = self.ev(e[2], env, st)
            for pat, guard, body in e[3]:
                b = {}
                if self.pm(pat, v, b, env, st):
                    inner = env + [b]
                    if guard is not None:
                        g = self.ev(guard, inner, st)
                        self.need(g, "bool", ln)
                        if not g[1]:
                            continue
                    return self.ev(body, inner, st)
            raise SiteError(f"no arm of the `match` applies to {show_val(v)}", ln)
        if k == "mac":
            return self.macro(e[2], e[3], env, st, ln)
        if k == "call":
            return self.call_expr(e[2], [self.ev(a, env, st) for a in e[3]], env, st, ln)
        if k == "mcall":
            if e[3] == "take" and not e[4] and e[2][0] == "path" and len(e[2][2]) == 1:
                # Option::take on a local variable: the variable becomes None, the old value is the result
                sc, old = self.lookup(env, e[2][2][0])
                if sc is None or old is None or old[0] != "variant" or old[2] not in ("Some", "None"):
                    raise SiteError("`.take()` on something that is not a local Option", ln)
                sc[e[2][2][0]] = ("variant", None, "None", [])
                return old
            return self.method(self.ev(e[2], env, st), e[3], [self.ev(a, env, st) for a in e[4]], st, ln)
        if k == "field":
            return self.field(self.ev(e[2], env, st), e[3], ln)
        if k == "try":
            v = self.ev(e[2], env, st)
            if v[0] == "variant" and v[2] in ("Ok", "Some"):
                return v[3][0]
            if v[0] == "variant" and v[2] in ("Err", "None"):
                raise _Return(v)
            raise SiteError("`?` on a value that is neither a Result nor an Option", ln)
        if k == "struct":
            ty = self.type_of_path(e[2], st, ln)
            fields, base = e[3]
            d = {}
            if base is not None:
                bv = self.ev(base, env, st)
                if bv[0] != "struct":
                    raise SiteError("the base of a struct update is not a struct value", ln)
                d.update(bv[2])
            for name, _, x in fields:
                d[name] = self.ev(x, env, st)
            return ("struct", ty, d)
        if k == "assign":
            return self.assign(e, env, st)
        if k == "for":
            it = self.ev(e[3], env, st)
            for x in self.iterate(it, ln):
                b = {}
                if not self.pm(e[2], x, b, env, st):
                    raise SiteError("the pattern of a `for` does not match", ln)
                try:
                    self.ev(e[4], env + [b], st)
                except _Continue:
                    continue
                except _Break:
                    break
            return UNIT
        if k == "while":
            while True:
                inner = env
                if e[2][0] == "iflet":
                    v = self.ev(e[2][3], env, st)
                    b = {}
                    if not self.pm(e[2][2], v, b, env, st):
                        break
                    inner = env + [b]
                else:
                    c = self.ev(e[2], env, st)
                    self.need(c, "bool", ln)
                    if not c[1]:
                        break
                try:
                    self.ev(e[3], inner, st)
                except _Continue:
                    continue
                except _Break:
                    break
            return UNIT
        if k == "return":
            raise _Return(self.ev(e[2], env, st) if e[2] is not None else UNIT)
        if k == "closure":
            return ("closure", e[2], e[3], env)
        if k == "break":
            raise _Break(self.ev(e[2], env, st) if len(e) > 2 and e[2] is not None else None)
        if k == "loop":
            while True:
                try:
                    self.ev(e[2], env, st)
                except _Continue:
                    continue
                except _Break as b:
                    return b.v if b.v is not None else UNIT
        if k == "continue":
            raise _Continue()
        if k == "index":
            a, i = self.ev(e[2], env, st), self.ev(e[3], env, st)
            if a[0] in ("list", "str") and i[0] == "int":
                if not 0 <= i[1] < len(a[1]):
                    raise EvalPanic("index out of bounds")
                x = a[1][i[1]]
                return x if a[0] == "list" else ("int", x, "u8")
            raise SiteError("indexing of this kind is not evaluated by this translator", ln)
        raise SiteError(f"expression form `{k}` is not evaluated by this translator", ln)

    @staticmethod
    def need(v, kind, ln):
        if v is None or v[0] != kind:
            raise SiteError(f"expected a {kind} value, found {show_val(v) if v else 'an uninitialised variable'}", ln)

    def iterate(self, it, ln):
        if it[0] == "list":
            return list(it[1])
        if it[0] == "str":
            return [("char", c) for c in it[1]]
        if it[0] == "range" and it[1] is not None and it[2] is not None and it[1][0] == "int" and it[2][0] == "int":
            hi = it[2][1] + (1 if it[3] else 0)
            if hi - it[1][1] > 100000:
                raise SiteError("loop over a range of more than 100000 values", ln)
            ty = it[1][2] or it[2][2]
            return [("int", n, ty) for n in range(it[1][1], hi)]
        raise SiteError("iteration over this kind of value is not evaluated by this translator", ln)

    def assign(self, e, env, st):
        _, ln, op, lhs, rhs = e
        while lhs[0] == "un" and lhs[2] == "*":
            lhs = lhs[3]
        v = self.ev(rhs, env, st)
        if lhs[0] == "path" and len(lhs[2]) == 1:
            sc, old = self.lookup(env, lhs[2][0])
            if sc is None:
                raise SiteError(f"assignment to unknown variable `{lhs[2][0]}`", ln)
            if op != "=":
                if old is None:
                    raise SiteError("compound assignment to an uninitialised variable", ln)
                v = self.binop(op[:-1], old, v, ln)
            elif old is not None and old[0] == "int" and v[0] == "int" and v[2] is None:
                v = mk_int(v[1], old[2])
            sc[lhs[2][0]] = v
            return UNIT
        raise SiteError("assignment to a field or place expression is not evaluated by this translator", ln)

    # ---- operators
    def unop(self, op, v, ln):
        if op in ("&", "&&", "*"):
            return v
        if op == "!":
            if v[0] == "bool":
                return ("bool", not v[1])
            if v[0] == "int" and v[2] is not None:
                bits, signed = INT_TYPES[v[2]]
                return ("int", ~v[1], v[2]) if signed else ("int", v[1] ^ ((1 << bits) - 1), v[2])
            raise SiteError("`!` on an integer of unknown type", ln)
        if op == "-":
            if v[0] == "int":
                if v[2] is not None and not INT_TYPES[v[2]][1]:
                    raise SiteError("negation of an unsigned integer", ln)
                return mk_int(-v[1], v[2], "negation")
        raise SiteError(f"`{op}` on {show_val(v)} is not evaluated by this translator", ln)

    def binop(self, op, a, b, ln):
        if op in ("==", "!="):
            r = self.equal(a, b, ln)
            return ("bool", r if op == "==" else not r)
        if op in ("<", ">", "<=", ">="):
            if a[0] != b[0] or a[0] not in ("int", "char", "bool", "str"):
                raise SiteError(f"comparison of {show_val(a)} with {show_val(b)}", ln)
            self.same_int_type(a, b, ln)
            x, y = a[1], b[1]
            return ("bool", {"<": x < y, ">": x > y, "<=": x <= y, ">=": x >= y}[op])
        if a[0] == "bool" and b[0] == "bool" and op in ("&", "|", "^"):
            return ("bool", {"&": a[1] and b[1], "|": a[1] or b[1], "^": a[1] != b[1]}[op])
        if a[0] != "int" or b[0] != "int":
            raise SiteError(f"`{op}` on {show_val(a)} and {show_val(b)} is not evaluated by this translator "
                            f"(operator traits of user types are not read)", ln)
        x, y = a[1], b[1]
        if op in ("<<", ">>"):
            ty = a[2]
            bits = INT_TYPES[ty][0] if ty else None
            if y < 0 or (bits is not None and y >= bits):
                raise EvalPanic(f"shift by {y} overflows {ty}")
            if op == ">>":
                return ("int", x >> y, ty)
            return wrap_int(x << y, ty) if ty else ("int", x << y, None)
        ty = self.same_int_type(a, b, ln)
        if op == "+":
            return mk_int(x + y, ty, "addition")
        if op == "-":
            return mk_int(x - y, ty, "subtraction")
        if op == "*":
            return mk_int(x * y, ty, "multiplication")
        if op in ("/", "%"):
            if y == 0:
                raise EvalPanic("division by zero")
            q = abs(x) // abs(y) * (1 if (x >= 0) == (y >= 0) else -1)
            return mk_int(q if op == "/" else x - q * y, ty, "division")
        if op in ("&", "|", "^"):
            if (x < 0 or y < 0) and ty is None:
                raise SiteError("bit operation on a negative integer of unknown type", ln)
            if ty is not None and INT_TYPES[ty][1]:
                bits = INT_TYPES[ty][0]
                r = {"&": x & y, "|": x | y, "^": x ^ y}[op]
                return wrap_int(r, ty)
            return ("int", {"&": x & y, "|": x | y, "^": x ^ y}[op], ty)
        raise SiteError(f"operator `{op}` is not evaluated by this translator", ln)

    @staticmethod
    def same_int_type(a, b, ln):
        if a[0] != "int":
            return None
        if a[2] is not None and b[2] is not None and a[2] != b[2]:
            raise SiteError(f"mismatched integer types {a[2]} and {b[2]}", ln)
        return a[2] or b[2]

    def equal(self, a, b, ln):
        if a[0] != b[0]:
            raise SiteError(f"comparison of {show_val(a)} with {show_val(b)}", ln)
        if a[0] == "int":
            self.same_int_type(a, b, ln)
            return a[1] == b[1]
        if a[0] in ("char", "bool", "str", "unit"):
            return a[1:] == b[1:]
        if a[0] == "variant":
            if a[1] and b[1] and a[1] != b[1]:
                raise SiteError(f"comparison of {show_val(a)} with {show_val(b)}", ln)
            return a[2] == b[2] and len(a[3]) == len(b[3]) and all(self.equal(x, y, ln) for x, y in zip(a[3], b[3]))
        if a[0] == "tuple":
            return len(a[1]) == len(b[1]) and all(self.equal(x, y, ln) for x, y in zip(a[1], b[1]))
        if a[0] == "struct":
            return a[1] == b[1] and a[2].keys() == b[2].keys() and all(self.equal(a[2][f], b[2][f], ln) for f in a[2])
        raise SiteError(f"equality of {a[0]} values is not evaluated by this translator", ln)

    def cast(self, v, ty, ln):
        if ty in INT_TYPES:
            if v[0] == "int":
                return wrap_int(v[1], ty)
            if v[0] == "char":
                return wrap_int(v[1], ty)
            if v[0] == "bool":
                return ("int", int(v[1]), ty)
            if v[0] == "variant" and v[1] in self.mod.enums and not v[3]:
                vs = self.mod.enums[v[1]]
                if any(kind != "unit" for _, kind, _ in vs):
                    raise SiteError(f"cast of a variant of enum {v[1]}, which has fields or explicit discriminants", ln)
                return mk_int([n for n, _, _ in vs].index(v[2]), ty)
        if ty == "char":
            if v[0] == "char":
                return v
            if v[0] == "int" and (v[2] == "u8" or (v[2] is None and 0 <= v[1] < 256)):
                return ("char", v[1])
            raise SiteError("only a u8 can be cast to char", ln)
        raise SiteError(f"cast of {show_val(v)} to {ty} is not evaluated by this translator", ln)

    # ---- paths, calls
    def type_of_path(self, segs, st, ln):
        name = segs[-1]
        if name == "Self":
            if st is None:
                raise SiteError("`Self` outside an impl", ln)
            return st
        return name

    def path(self, segs, env, st, ln):
        segs = [s for s in segs if s not in ("crate", "super", "self")] or segs
        if len(segs) == 1:
            name = segs[0]
            sc, v = self.lookup(env, name)
            if sc is not None:
                if v is None:
                    raise SiteError(f"variable `{name}` is read before it is initialised", ln)
                return v
            if name in self.mod.consts:
                return self.const_value(None, name, ln)
            if name in self.mod.fns:
                return ("fn", self.mod.find_fn(name))
            if name == "None":
                return ("variant", None, "None", [])
            if name in ("Some", "Ok", "Err"):
                return ("ctor", None, name)
            if name == "Self" and st is not None:
                name = st
            if self.mod.structs.get(name) == "tuple":
                return ("ctor", name, name)
            if self.mod.structs.get(name) == "unit":
                return ("variant", name, name, [])
            if (None, name) in getattr(self, "externs", {}):
                return ("extern", self.externs[(None, name)])
            raise SiteError(f"`{name}` is neither a local variable nor a constant, function or tuple struct of {self.mod.rel}", ln)
        if len(segs) >= 3:
            q = (segs[-3] + "::" + segs[-2], segs[-1])
            if q in getattr(self, "ext_values", {}):
                return self.ext_values[q]
            if q in getattr(self, "externs", {}):
                return ("extern", self.externs[q])
        ty, name = segs[-2], segs[-1]
        if ty == "Self":
            if st is None:
                raise SiteError("`Self` outside an impl", ln)
            ty = st
        if ty in self.mod.enums:
            for vn, kind, _ in self.mod.enums[ty]:
                if vn == name:
                    return ("variant", ty, name, []) if kind in ("unit", "explicit") else ("ctor", ty, name)
        if (ty, name) in self.mod.impl_consts:
            return self.const_value(ty, name, ln)
        if (ty, name) in self.mod.impl_fns:
            return ("fn", self.mod.find_fn(name, ty))
        if ty in INT_TYPES and name in ("MAX", "MIN", "BITS"):
            bits, signed = INT_TYPES[ty]
            if name == "BITS":
                return ("int", bits, "u32")
            return ("int", ((1 << (bits - 1)) - 1 if signed else (1 << bits) - 1) if name == "MAX" else (-(1 << (bits - 1)) if signed else 0), ty)
        if ty == "char" and name == "MAX":
            return ("char", 0x10FFFF)
        if ty == "Option" and name == "None":
            return ("variant", None, "None", [])
        if (ty, name) in (("Option", "Some"), ("Result", "Ok"), ("Result", "Err")):
            return ("ctor", None, name)
        if (ty, name) in BUILTIN_FNS:
            return ("builtin", ty, name)
        if (ty, name) in getattr(self, "ext_values", {}):
            return self.ext_values[(ty, name)]
        if (ty, name) in getattr(self, "externs", {}):
            return ("extern", self.externs[(ty, name)])
        raise SiteError(f"`{ty}::{name}` is not an enum variant, associated constant or function of {self.mod.rel}, "
                        f"nor a std item this translator knows", ln)

    def const_value(self, ty, name, ln):
        key = (ty, name)
        if key in self.mod.const_cache:
            v = self.mod.const_cache[key]
            if v is None:
                raise SiteError(f"constant `{name}` is defined in terms of itself", ln)
            return v
        self.mod.const_cache[key] = None
        cty, toks, cline = self.mod.consts[name] if ty is None else self.mod.impl_consts[key]
        v = self.coerce(self.ev(Parser(toks, cline).whole_expr(), [{}], ty), cty)
        self.mod.const_cache[key] = v
        return v

    def call_expr(self, callee, args, env, st, ln):
        if callee[0] != "path":
            raise SiteError("call of a computed function value is not evaluated by this translator", ln)
        f = self.path(callee[2], env, st, ln)
        if f[0] == "fn":
            return self.call(f[1], args, st)
        if f[0] == "ctor":
            return ("variant", f[1], f[2], args)
        if f[0] == "builtin":
            return BUILTIN_FNS[(f[1], f[2])](self, args, ln)
        if f[0] == "extern":
            return f[1](args, ln)
        raise SiteError(f"`{'::'.join(callee[2])}` is not callable", ln)

    def field(self, v, name, ln):
        if v[0] == "parser" and name == "position":
            return ("int", v[1]["pos"], "usize")
        if v[0] == "parser" and name == "options":
            return ("struct", "Options", {"accept_truncated_surrogate_pair": ("bool", v[1].get("trunc", False)),
                                          "accept_invalid_codepoints": ("bool", v[1].get("inval", False))})
        if v[0] == "struct" and name in v[2]:
            return v[2][name]
        if v[0] in ("variant",) and isinstance(name, int) and name < len(v[3]):
            return v[3][name]
        if v[0] == "tuple" and isinstance(name, int) and name < len(v[1]):
            return v[1][name]
        raise SiteError(f"{show_val(v)} has no field `{name}`", ln)

    def type_name(self, v):
        if v[0] == "struct":
            return v[1]
        if v[0] == "variant":
            return v[1]
        return None

    def apply(self, f, args, st, ln):
        """applies a function value (closure, constructor, extern, fn of the file) to evaluated arguments"""
        if f[0] == "closure":
            pats, body, cenv = f[1], f[2], f[3]
            if len(pats) != len(args):
                raise SiteError("a closure is applied to another number of arguments than it takes", ln)
            b = {}
            for q, a in zip(pats, args):
                if q[0] == "ptuple" and not q[2] and a[0] == "unit":
                    continue
                if not self.pm(q, a, b, cenv, st):
                    raise SiteError("the parameter pattern of a closure does not match its argument", ln)
            return self.ev(body, cenv + [b], st)
        if f[0] == "ctor":
            return ("variant", f[1], f[2], list(args))
        if f[0] == "extern":
            return f[1](list(args), ln)
        if f[0] == "fn":
            return self.call(f[1], list(args), st)
        raise SiteError(f"{show_val(f)} is not a function value", ln)

    def method(self, recv, name, args, st, ln):
        if recv[0] == "variant" and recv[2] == "Meta" and name == "map" and len(args) == 1 and len(recv[3]) == 2:
            # locspan::Meta::map: the function is applied to the value, the metadata stays
            return ("variant", recv[1], "Meta", [self.apply(args[0], [recv[3][0]], st, ln), recv[3][1]])
        if recv[0] == "parser":
            return parser_stub_method(recv[1], name, args, ln)
        ext = getattr(self, "ext_methods", {})
        if (self.type_name(recv), name) in ext:
            return ext[(self.type_name(recv), name)](recv, args, ln)
        if recv[0] == "vec":
            if name == "pop" and not args:
                return ("variant", None, "Some", [recv[1].pop()]) if recv[1] else ("variant", None, "None", [])
            if name == "push" and len(args) == 1:
                recv[1].append(args[0])
                return UNIT
            if name == "last" and not args:
                return ("variant", None, "Some", [recv[1][-1]]) if recv[1] else ("variant", None, "None", [])
            raise SiteError(f"method `{name}` on a Vec is not evaluated by this translator", ln)
        if recv[0] == "list" and name == "push" and len(args) == 1:
            recv[1].append(args[0])
            return UNIT
        if recv[0] == "objbuf":
            if name == "push" and len(args) == 2:
                recv[1].append((args[0], args[1]))
                return ("bool", True)
            raise SiteError(f"method `{name}` on the object under construction is not evaluated by this translator", ln)
        if recv[0] == "bytebuf":
            if name == "push" and len(args) == 1 and args[0][0] == "int":
                recv[1].append(args[0][1])
                return UNIT
            raise SiteError(f"method `{name}` on the byte buffer is not evaluated by this translator", ln)
        if recv[0] == "strbuf":
            if name == "push" and len(args) == 1 and args[0][0] == "char":
                recv[1].append(args[0][1])
                return UNIT
            raise SiteError(f"method `{name}` on the string under construction is not evaluated by this translator", ln)
        ty = self.type_name(recv)
        if ty is not None and (ty, name) in self.mod.impl_fns:
            return self.call(self.mod.find_fn(name, ty), [recv] + args, ty)
        f = METHODS.get((recv[0], name))
        if f is None and recv[0] == "variant" and recv[1] is None:
            f = METHODS.get(("option", name))
        if f is None:
            raise SiteError(f"method `{name}` on {show_val(recv)} is neither defined in {self.mod.rel} nor a std method "
                            f"this translator knows", ln)
        return f(self, recv, args, ln)

    # ---- macros
    def macro(self, name, g, env, st, ln):
        parts, _ = split_top(g.sub)
        if name == "matches":
            if len(parts) != 2:
                raise SiteError("`matches!` takes an expression and a pattern", ln)
            v = self.ev(Parser(parts[0], ln).whole_expr(), env, st)
            p = Parser(parts[1], ln)
            pat = p.pattern_top()
            guard = None
            if is_kw(p.peek(), "if"):
                p.i += 1
                guard = p.expr()
            if not p.eof():
                raise SiteError("unexpected tokens after the pattern of `matches!`", ln)
            b = {}
            if not self.pm(pat, v, b, env, st):
                return ("bool", False)
            if guard is None:
                return ("bool", True)
            r = self.ev(guard, env + [b], st)
            self.need(r, "bool", ln)
            return r
        if name == "vec":
            return ("vec", [self.ev(Parser(q, ln).whole_expr(), env, st) for q in parts])
        if name in ("panic", "unreachable", "unimplemented", "todo"):
            raise EvalPanic(f"{name}! reached (line {ln})")
        if name in ("assert", "debug_assert"):
            c = self.ev(Parser(parts[0], ln).whole_expr(), env, st)
            self.need(c, "bool", ln)
            if not c[1]:
                raise EvalPanic(f"{name}! fails (line {ln})")
            return UNIT
        if name in ("assert_eq", "debug_assert_eq", "assert_ne", "debug_assert_ne"):
            a = self.ev(Parser(parts[0], ln).whole_expr(), env, st)
            b = self.ev(Parser(parts[1], ln).whole_expr(), env, st)
            if self.equal(a, b, ln) != name.endswith("_eq"):
                raise EvalPanic(f"{name}! fails (line {ln})")
            return UNIT
        if name in ("write", "writeln"):
            if len(parts) < 2:
                raise SiteError(f"`{name}!` without a format string", ln)
            f = self.ev(Parser(parts[0], ln).whole_expr(), env, st)
            self.need(f, "fmt", ln)
            fs = self.ev(Parser(parts[1], ln).whole_expr(), env, st)
            self.need(fs, "str", ln)
            vals = [self.ev(Parser(p, ln).whole_expr(), env, st) for p in parts[2:]]
            s, i, k = fs[1], 0, 0
            while i < len(s):
                c = s[i]
                if c == 0x7B and s[i + 1:i + 2] == [0x7B] or c == 0x7D and s[i + 1:i + 2] == [0x7D]:
                    self.out.append(c)
                    i += 2
                elif c == 0x7B:
                    if s[i + 1:i + 2] != [0x7D] or k >= len(vals):
                        raise SiteError("only plain `{}` placeholders with an argument each are evaluated by this translator", ln)
                    self.display(vals[k], st, ln)
                    k += 1
                    i += 2
                else:
                    self.out.append(c)
                    i += 1
            if name == "writeln":
                self.out.append(10)
            return OK_UNIT
        raise SiteError(f"macro `{name}!` is not evaluated by this translator", ln)

    def display(self, v, st, ln):
        if v[0] == "str":
            self.out.extend(v[1])
        elif v[0] == "char":
            self.out.append(v[1])
        elif v[0] == "int":
            self.out.extend(ord(c) for c in str(v[1]))
        else:
            ty = self.type_name(v)
            if ty is None or (ty, "fmt") not in self.mod.impl_fns:
                raise SiteError(f"Display of {show_val(v)} is not evaluated by this translator", ln)
            self.call(self.mod.find_fn("fmt", ty, "Display"), [v, ("fmt",)], ty)

    # ---- patterns
    def pm(self, p, v, b, env, st):
        k, ln = p[0], p[1]
        if k == "pwild":
            return True
        if k == "pbind":
            b[p[2]] = v
            return p[3] is None or self.pm(p[3], v, b, env, st)
        if k == "por":
            for q in p[2]:
                c = {}
                if self.pm(q, v, c, env, st):
                    b.update(c)
                    return True
            return False
        if k == "plit":
            return self.equal(self.lit_like(p[2], v), v, ln)
        if k == "prange":
            lo, hi = p[2], p[3]
            if v[0] not in ("int", "char") or lo[0] != v[0] or (hi is not None and hi[0] != v[0]):
                raise SiteError(f"range pattern of another type than the matched value {show_val(v)}", ln)
            if hi is None:
                return lo[1] <= v[1]
            if hi[1] < lo[1] or (hi[1] == lo[1] and not p[4]):
                raise SiteError("empty range pattern (rustc rejects it)", ln)
            return lo[1] <= v[1] and (v[1] <= hi[1] if p[4] else v[1] < hi[1])
        if k == "ptuple":
            if v[0] != "tuple":
                raise SiteError(f"tuple pattern against {show_val(v)}", ln)
            return self.pm_seq(p[2], v[1], b, env, st, ln)
        if k == "ppath":
            segs, sub = p[2], p[3]
            name = segs[-1]
            ty = segs[-2] if len(segs) > 1 else None
            if ty == "Self":
                ty = st
            is_variant = (ty in self.mod.enums and any(n == name for n, _, _ in self.mod.enums[ty])) or (
                ty is None and (name in ("Some", "None", "Ok", "Err") or name in self.mod.structs or name == "Self"))
            if not is_variant and v[0] == "variant" and v[1] is not None and (ty == v[1] or (ty is None and name == v[1] == v[2])):
                is_variant = True          # a variant of a type declared in another file (array::StartFragment::Empty, Meta(..))
            if not is_variant:
                if sub is not None:
                    raise SiteError(f"`{'::'.join(segs)}` in a pattern is not a variant this translator can resolve", ln)
                return self.equal(self.path(segs, env, st, ln), v, ln)      # a constant
            if v[0] != "variant":
                raise SiteError(f"variant pattern `{'::'.join(segs)}` against {show_val(v)}", ln)
            if name == "Self":
                name = st
            if ty is not None and v[1] is not None and ty != v[1]:
                raise SiteError(f"pattern of type {ty} against a value of type {v[1]}", ln)
            if v[2] != name:
                return False
            if sub is None:
                return True
            return self.pm_seq(sub, v[3], b, env, st, ln)
        raise SiteError(f"pattern form `{k}` is not evaluated by this translator", ln)

    def pm_seq(self, ps, vs, b, env, st, ln):
        if any(q[0] == "prest" for q in ps):
            k = next(i for i, q in enumerate(ps) if q[0] == "prest")
            tail = len(ps) - k - 1
            if len(vs) < k + tail:
                return False
            pairs = list(zip(ps[:k], vs[:k])) + (list(zip(ps[k + 1:], vs[len(vs) - tail:])) if tail else [])
        else:
            if len(ps) != len(vs):
                raise SiteError("pattern with the wrong number of fields", ln)
            pairs = list(zip(ps, vs))
        return all(self.pm(q, x, b, env, st) for q, x in pairs)

    @staticmethod
    def lit_like(lit, v):
        """an untyped integer literal takes the type of the value it is compared with"""
        if lit[0] == "int" and lit[2] is None and v[0] == "int":
            return ("int", lit[1], v[2])
        return lit


# ---- std items whose meaning is fixed

def _b(v):
    return ("bool", bool(v))


def _opt(v):
    return ("variant", None, "None", []) if v is None else ("variant", None, "Some", [v])


def _to_digit(c, radix):
    ch = chr(c) if c < 128 else ""
    d = int(ch, 36) if ch.isalnum() else None
    return d if d is not None and d < radix else None


def _arg_int(args, i, ln):
    if i >= len(args) or args[i][0] != "int":
        raise SiteError("expected an integer argument", ln)
    return args[i][1]


def _m_contains(it, recv, args, ln):
    x = args[0]
    lo, hi = recv[1], recv[2]
    for e in (lo, hi):
        if e is not None and e[0] != x[0]:
            raise SiteError(f"`contains` of a range of another type than {show_val(x)}", ln)
    if lo is not None and x[1] < lo[1]:
        return _b(False)
    if hi is not None and (x[1] > hi[1] if recv[3] else x[1] >= hi[1]):
        return _b(False)
    return _b(True)


def _m_unwrap(it, recv, args, ln):
    if recv[2] in ("Some", "Ok"):
        return recv[3][0]
    raise EvalPanic("unwrap / expect on None or Err")


def _write_str(it, recv, args, ln):
    it.need(args[0], "str", ln)
    it.out.extend(args[0][1])
    return OK_UNIT


def _write_char(it, recv, args, ln):
    it.need(args[0], "char", ln)
    it.out.append(args[0][1])
    return OK_UNIT


def _ascii_case(lower):
    def f(it, recv, args, ln):
        c = recv[1]
        if lower and 0x41 <= c <= 0x5A:
            c += 32
        if not lower and 0x61 <= c <= 0x7A:
            c -= 32
        return (recv[0], c) + recv[2:]
    return f


def _wrapping(op):
    def f(it, recv, args, ln):
        if recv[2] is None:
            raise SiteError("wrapping arithmetic on an integer of unknown type", ln)
        y = _arg_int(args, 0, ln)
        return wrap_int({"add": recv[1] + y, "sub": recv[1] - y, "mul": recv[1] * y}[op], recv[2])
    return f


METHODS = {
    ("range", "contains"): _m_contains,
    ("fmt", "write_str"): _write_str,
    ("fmt", "write_char"): _write_char,
    ("option", "unwrap"): _m_unwrap,
    ("option", "expect"): _m_unwrap,
    ("option", "is_some"): lambda it, r, a, ln: _b(r[2] == "Some"),
    ("option", "is_none"): lambda it, r, a, ln: _b(r[2] == "None"),
    ("option", "is_ok"): lambda it, r, a, ln: _b(r[2] == "Ok"),
    ("option", "unwrap_or"): lambda it, r, a, ln: r[3][0] if r[2] in ("Some", "Ok") else a[0],
    ("str", "chars"): lambda it, r, a, ln: ("list", [("char", c) for c in r[1]]),
    ("str", "is_empty"): lambda it, r, a, ln: _b(not r[1]),
    ("str", "len"): lambda it, r, a, ln: ("int", sum(1 if c < 0x80 else 2 if c < 0x800 else 3 if c < 0x10000 else 4 for c in r[1]), "usize"),
    ("str", "as_str"): lambda it, r, a, ln: r,
    ("list", "iter"): lambda it, r, a, ln: r,
    ("list", "into_iter"): lambda it, r, a, ln: r,
    ("list", "len"): lambda it, r, a, ln: ("int", len(r[1]), "usize"),
    ("list", "count"): lambda it, r, a, ln: ("int", len(r[1]), "usize"),
    ("list", "rev"): lambda it, r, a, ln: ("list", r[1][::-1]),
    ("char", "is_control"): lambda it, r, a, ln: _b(r[1] <= 0x1F or 0x7F <= r[1] <= 0x9F),
    ("char", "is_ascii_control"): lambda it, r, a, ln: _b(r[1] <= 0x1F or r[1] == 0x7F),
    ("char", "is_ascii"): lambda it, r, a, ln: _b(r[1] < 0x80),
    ("char", "is_ascii_digit"): lambda it, r, a, ln: _b(0x30 <= r[1] <= 0x39),
    ("char", "is_ascii_hexdigit"): lambda it, r, a, ln: _b(_to_digit(r[1], 16) is not None),
    ("char", "is_ascii_whitespace"): lambda it, r, a, ln: _b(r[1] in (0x20, 9, 10, 12, 13)),
    ("char", "is_whitespace"): lambda it, r, a, ln: _b(r[1] in WHITE_SPACE),
    ("char", "is_digit"): lambda it, r, a, ln: _b(_to_digit(r[1], _arg_int(a, 0, ln)) is not None),
    ("char", "to_digit"): lambda it, r, a, ln: _opt((lambda d: None if d is None else ("int", d, "u32"))(_to_digit(r[1], _arg_int(a, 0, ln)))),
    ("char", "len_utf8"): lambda it, r, a, ln: ("int", 1 if r[1] < 0x80 else 2 if r[1] < 0x800 else 3 if r[1] < 0x10000 else 4, "usize"),
    ("char", "len_utf16"): lambda it, r, a, ln: ("int", 1 if r[1] < 0x10000 else 2, "usize"),
    ("char", "to_ascii_lowercase"): _ascii_case(True),
    ("char", "to_ascii_uppercase"): _ascii_case(False),
    ("char", "clone"): lambda it, r, a, ln: r,
    ("int", "count_ones"): lambda it, r, a, ln: ("int", bin(r[1] & ((1 << INT_TYPES[r[2] or "u128"][0]) - 1)).count("1"), "u32"),
    ("int", "wrapping_add"): _wrapping("add"),
    ("int", "wrapping_sub"): _wrapping("sub"),
    ("int", "wrapping_mul"): _wrapping("mul"),
    ("int", "is_ascii_control"): lambda it, r, a, ln: _b(r[1] <= 0x1F or r[1] == 0x7F),
    ("int", "is_ascii_whitespace"): lambda it, r, a, ln: _b(r[1] in (0x20, 9, 10, 12, 13)),
    ("int", "is_ascii_digit"): lambda it, r, a, ln: _b(0x30 <= r[1] <= 0x39),
    ("int", "min"): lambda it, r, a, ln: ("int", min(r[1], _arg_int(a, 0, ln)), r[2] or a[0][2]),
    ("int", "max"): lambda it, r, a, ln: ("int", max(r[1], _arg_int(a, 0, ln)), r[2] or a[0][2]),
    ("int", "clone"): lambda it, r, a, ln: r,
}


def _char_from_u32(it, args, ln):
    n = _arg_int(args, 0, ln)
    return _opt(("char", n) if (0 <= n < 0xD800 or 0xE000 <= n <= 0x10FFFF) else None)


def _char_from_digit(it, args, ln):
    d, r = _arg_int(args, 0, ln), _arg_int(args, 1, ln)
    if not 2 <= r <= 36:
        raise EvalPanic("from_digit: radix out of range")
    return _opt(("char", ord("0123456789abcdefghijklmnopqrstuvwxyz"[d])) if 0 <= d < r else None)


def _int_from(ty):
    def f(it, args, ln):
        v = args[0]
        if v[0] == "char" and ty in ("u32", "u64", "u128"):
            return ("int", v[1], ty)
        if v[0] == "bool":
            return ("int", int(v[1]), ty)
        if v[0] == "int":
            return mk_int(v[1], ty, "conversion")
        raise SiteError(f"`{ty}::from` of {show_val(v)} is not evaluated by this translator", ln)
    return f


def _char_from(it, args, ln):
    v = args[0]
    if v[0] == "int" and v[2] in ("u8", None) and 0 <= v[1] < 256:
        return ("char", v[1])
    if v[0] == "char":
        return v
    raise SiteError("`char::from` takes a u8", ln)


BUILTIN_FNS = {("char", "from_u32"): _char_from_u32, ("char", "from_digit"): _char_from_digit, ("char", "from"): _char_from}
for _t in INT_TYPES:
    BUILTIN_FNS[(_t, "from")] = _int_from(_t)


# ----------------------------------------------------------------------------- domains (mirror of Base/ConstSyntax.v)

CHAR_DOMAIN = list(range(0x300)) + [
    0x7FF, 0x800, 0xFFF, 0x1000, 0x1FFF, 0x2000, 0x2028, 0x2029, 0x205F, 0x3000, 0xD7FF, 0xE000,
    0xFEFF, 0xFFFD, 0xFFFE, 0xFFFF, 0x10000, 0x10009, 0x1000A, 0x1000D, 0x10020, 0x10022, 0x1005C,
    0x1007F, 0x100FF, 0x1FFFF, 0x20000, 0x10FFFE, 0x10FFFF]
UNIT_DOMAIN = [0, 1, 0x7F, 0xFF, 0x100] + list(range(0xD700, 0xD700 + 0xA00)) + [0xFFFE, 0xFFFF]
BYTE_DOMAIN = list(range(256))
NIBBLE_DOMAIN = list(range(16))
PAIR_DOMAIN = [(h, l) for h in (0xD800, 0xD801, 0xD83D, 0xDABC, 0xDBFE, 0xDBFF)
               for l in (0xDC00, 0xDC01, 0xDE00, 0xDEAD, 0xDFFE, 0xDFFF)]


def intervals(points):
    """maximal runs of consecutive numbers of an increasing list (intervals_of)"""
    out = []
    for x in points:
        if out and x == out[-1][1] + 1:
            out[-1][1] = x
        else:
            out.append([x, x])
    return [tuple(p) for p in out]


# ----------------------------------------------------------------------------- evaluation of the sites

def run(mod, fn, args, what, self_type=None):
    """evaluates fn on args; -> (value, output written to the formatter)"""
    it = Interp(mod)
    try:
        v = it.call(fn, args, self_type)
    except EvalPanic as e:
        raise SiteError(f"evaluating `{fn.where()}` on {what} panics: {e}", fn.line)
    except _Return:
        raise SiteError(f"`return` outside a function while evaluating `{fn.where()}`", fn.line)
    except (_Break, _Continue):
        raise SiteError(f"`break` / `continue` outside a loop while evaluating `{fn.where()}`", fn.line)
    except RecursionError:
        raise SiteError(f"expression nesting too deep while evaluating `{fn.where()}`", fn.line)
    return v, it.out


def want(v, kind, fn, what):
    if v[0] != kind:
        raise SiteError(f"`{fn.where()}` on {what} yields {show_val(v)}, expected a {kind}", fn.line)
    return v


def char_class(mod, fn, dom, mk, what, extra=()):
    pts = []
    for c in dom:
        v, _ = run(mod, fn, list(extra) + [mk(c)], f"{what} {c:#x}")
        if want(v, "bool", fn, f"{what} {c:#x}")[1]:
            pts.append(c)
    return intervals(pts)


def one_char_param(fn, kinds):
    ps = [p for p in fn.params if p[0] != "self"]
    if len(ps) != 1 or ps[0][1] not in kinds:
        raise SiteError(f"`{fn.where()}` no longer takes one parameter of type {' / '.join(kinds)} "
                        f"(found {[p[1] for p in ps]})", fn.line)
    return ps[0][1]


def mk_char(c):
    return ("char", c)


def site_is_whitespace(mods):
    mod = mods("src/parse/mod.rs")
    fn = mod.find_fn("is_whitespace")
    one_char_param(fn, ["char"])
    return char_class(mod, fn, CHAR_DOMAIN, mk_char, "the character"), fn.line, "fn is_whitespace"


def site_follows(mods):
    mod = mods("src/parse/mod.rs")
    fn = mod.find_fn("follows", "Context")
    if [p[0] for p in fn.params][:1] != ["self"]:
        raise SiteError("`Context::follows` no longer takes self", fn.line)
    one_char_param(fn, ["char"])
    if "Context" not in mod.enums:
        raise SiteError("no `enum Context` found in src/parse/mod.rs")
    out = []
    for name, kind, ln in mod.enums["Context"]:
        if kind != "unit":
            raise SiteError(f"variant `Context::{name}` is not a unit variant", ln)
        out.append((name, char_class(mod, fn, CHAR_DOMAIN, mk_char, f"Context::{name} and the character",
                                     extra=[("variant", "Context", name, [])])))
    return out, fn.line, "fn Context::follows"


def site_is_control(mods):
    mod = mods("src/parse/string.rs")
    fn = mod.find_fn("is_control")
    one_char_param(fn, ["char"])
    return char_class(mod, fn, CHAR_DOMAIN, mk_char, "the character"), fn.line, "fn is_control"


def find_tokens(ts, pred, out):
    for i, t in enumerate(ts):
        if pred(ts, i):
            out.append((ts, i))
        if t.kind == "group":
            find_tokens(t.sub, pred, out)
    return out


def parse_in_fn(mod):
    c = [f for (ty, name), fs in mod.impl_fns.items() if name == "parse_in" and ty == "SmallString" for f in fs]
    if len(c) != 1:
        raise SiteError(f"expected one `fn parse_in` in `impl Parse for SmallString` of {mod.rel}, found {len(c)}")
    return c[0]


def site_surrogate_tests(mods):
    """the tests `(lo..=hi).contains(&codepoint)` of SmallString::parse_in, in source order, each as the set of
    16-bit units it accepts"""
    mod = mods("src/parse/string.rs")
    fn = parse_in_fn(mod)

    def is_test(ts, i):
        return (is_group(ts[i], "Paren") and i + 3 < len(ts) and ts[i + 1].is_p(".") and ts[i + 2].kind == "ident"
                and ts[i + 2].text == "contains" and is_group(ts[i + 3], "Paren")
                and any(u.kind == "punct" and u.text in ("..", "..=") for u in ts[i].sub))
    found = find_tokens(fn.body_group.sub, is_test, [])
    if not found:
        raise SiteError("no range test `(lo..=hi).contains(&codepoint)` left in `SmallString::parse_in`: the surrogate "
                        "tests are written in a form this translator does not locate", fn.line)
    out = []
    for ts, i in found:
        ln = ts[i].line
        it = Interp(mod)
        try:
            rng = it.ev(Parser(ts[i].sub, ln).whole_expr(), [{}], None)
        except EvalPanic as e:
            raise SiteError(f"range of a surrogate test panics: {e}", ln)
        if rng[0] != "range" or any(x is None or x[0] != "int" for x in rng[1:3]):
            raise SiteError("the range of a `.contains` test in `SmallString::parse_in` is not a closed integer range", ln)
        pts = [u for u in UNIT_DOMAIN if rng[1][1] <= u and (u <= rng[2][1] if rng[3] else u < rng[2][1])]
        out.append(intervals(pts))
    return out, fn.line, "fn SmallString::parse_in, the `(lo..=hi).contains(&codepoint)` tests"


def site_surrogate_combine(mods):
    """`let codepoint = ((high - 0xd800) << 10 | (low - 0xdc00)) + 0x010000;` evaluated on (high, low) pairs"""
    mod = mods("src/parse/string.rs")
    fn = parse_in_fn(mod)

    def mentions(ts, name):
        return any((t.kind == "ident" and t.text == name) or (t.kind == "group" and mentions(t.sub, name)) for t in ts)

    def is_let(ts, i):
        if not is_kw(ts[i], "let"):
            return False
        j = i
        while j < len(ts) and not ts[j].is_p(";"):
            j += 1
        k = next((q for q in range(i, j) if ts[q].is_p("=")), None)
        return (k is not None and mentions(ts[k + 1:j], "high") and mentions(ts[k + 1:j], "low")
                and not any(is_group(t, "Brace") for t in ts[k + 1:j]))
    found = find_tokens(fn.body_group.sub, is_let, [])
    if len(found) != 1:
        raise SiteError(f"expected one `let .. = <expression in high and low>;` in `SmallString::parse_in`, found {len(found)}",
                        fn.line)
    ts, i = found[0]
    j = i
    while not ts[j].is_p(";"):
        j += 1
    k = next(q for q in range(i, j) if ts[q].is_p("="))
    ln = ts[i].line
    e = Parser(ts[k + 1:j], ln).whole_expr()
    out = []
    for h, l in PAIR_DOMAIN:
        it = Interp(mod)
        try:
            v = it.ev(e, [{"high": ("int", h, "u32"), "low": ("int", l, "u32")}], None)
        except EvalPanic as ex:
            raise SiteError(f"the surrogate-pair arithmetic panics on ({h:#x}, {l:#x}): {ex}", ln)
        if v[0] != "int":
            raise SiteError("the surrogate-pair arithmetic does not yield an integer", ln)
        out.append((h, l, v[1]))
    return out, ln, "fn SmallString::parse_in, the code point of a surrogate pair"



# ----------------------------------------------------------------------------- the number automaton
def _impl_parse_in(mod, ty):
    c = [f for (t, name), fs in mod.impl_fns.items() if name == "parse_in" and t == ty for f in fs]
    if len(c) != 1:
        raise SiteError(f"expected one `fn parse_in` in `impl Parse for {ty}` of {mod.rel}, found {len(c)}")
    return c[0]


def _state_of(p, what):
    """`State::X` as a pattern or as an expression -> X"""
    if p[0] in ("ppath", "path") and len(p[2]) == 2 and p[2][0] == "State" and (p[0] == "path" or p[3] is None):
        return p[2][1]
    raise SiteError(f"{what}: expected a `State::<variant>`", p[1])


def _is_err_return(e):
    return (e[0] == "return" and e[2] is not None and e[2][0] == "call" and e[2][2][0] == "path" and e[2][2][2] == ["Err"])


def _only(b):
    """the single expression a block consists of (or the expression itself)"""
    while b[0] == "block":
        stmts, tail = b[2], b[3]
        if tail is not None and not stmts:
            b = tail
        elif tail is None and len(stmts) == 1 and stmts[0][0] == "expr":
            b = stmts[0][2]
        else:
            raise SiteError("a block of more than one statement in the number automaton is not translated", b[1])
    return b


def _num_action(body):
    """what an arm of the automaton does: ("go", X) | ("error",) | ("follows",) | ("break",)"""
    e = _only(body)
    if e[0] == "assign" and e[2] == "=" and e[3][0] == "path" and e[3][2] == ["state"]:
        return ("go", _state_of(e[4], "the new state"))
    if _is_err_return(e):
        return ("error",)
    if e[0] == "break":
        return ("break",)
    if e[0] == "if" and e[4] is not None:
        c = e[2]
        if (c[0] == "mcall" and c[3] == "follows" and c[2][0] == "path" and c[2][2] == ["context"]
                and len(c[4]) == 1 and c[4][0][0] == "path" and c[4][0][2] == ["c"]):
            a, b = _num_action(e[3]), _num_action(e[4])
            if a == ("break",) and b == ("error",):
                return ("follows",)
    raise SiteError("an arm of the number automaton does something this translator does not classify (it knows: "
                    "`state = State::X`, `return Err(..)`, `break`, `if context.follows(c) { break } else { return Err(..) }`)", e[1])


def site_number_automaton(mods):
    """`match state { State::S => match c { pattern => action, .. }, .. }` of NumberBuf::parse_in, evaluated for every
    context, state and character of char_domain (the outcome `follows` is resolved with Context::follows of the source);
    with the initial state and the accepting states of the final `matches!`"""
    mod = mods("src/parse/number.rs")
    pmod = mods("src/parse/mod.rs")
    fn = _impl_parse_in(mod, "NumberBuf")
    follows = pmod.find_fn("follows", "Context")
    if "Context" not in pmod.enums:
        raise SiteError("no `enum Context` found in src/parse/mod.rs")

    def is_state_match(ts, i):
        return (is_kw(ts[i], "match") and i + 2 < len(ts) and ts[i + 1].kind == "ident" and ts[i + 1].text == "state"
                and is_group(ts[i + 2], "Brace"))
    found = find_tokens(fn.body_group.sub, is_state_match, [])
    if len(found) != 1:
        raise SiteError(f"expected one `match state {{ .. }}` in `NumberBuf::parse_in`, found {len(found)}", fn.line)
    ts, i = found[0]
    ln = ts[i].line
    arms = parse_arms(ts[i + 2])
    states = []
    rows = {}
    it = Interp(mod)
    for pat, guard, body in arms:
        if guard is not None:
            raise SiteError("a guard on a state arm of the number automaton is not translated", pat[1])
        st = _state_of(pat, "a state arm")
        if st in rows:
            raise SiteError(f"state `{st}` has two arms", pat[1])
        inner = _only(body)
        if inner[0] != "match" or inner[2][0] != "path" or inner[2][2] != ["c"]:
            raise SiteError(f"the arm of state `{st}` is not a `match c {{ .. }}`", inner[1])
        acts = [(p, g, _num_action(b)) for p, g, b in inner[3]]
        row = []
        for c in CHAR_DOMAIN:
            hit = None
            for p, g, a in acts:
                b = {}
                if it.pm(p, ("char", c), b, [{}], None):
                    if g is not None:
                        gv = it.ev(g, [dict(b, c=("char", c))], None)
                        if gv[0] != "bool":
                            raise SiteError("a guard of the number automaton is not a boolean", g[1])
                        if not gv[1]:
                            continue
                    hit = a
                    break
            if hit is None:
                raise SiteError(f"state `{st}`: no arm matches {c:#x} (rustc would reject a non-exhaustive match)", inner[1])
            row.append(hit)
        states.append(st)
        rows[st] = row

    def is_let_state(ts, i):
        return (is_kw(ts[i], "let") and i + 3 < len(ts) and is_kw(ts[i + 1], "mut") and ts[i + 2].kind == "ident"
                and ts[i + 2].text == "state" and ts[i + 3].is_p("="))
    lets = find_tokens(fn.body_group.sub, is_let_state, [])
    if len(lets) != 1:
        raise SiteError(f"expected one `let mut state = ..;` in `NumberBuf::parse_in`, found {len(lets)}", fn.line)
    lt, li = lets[0]
    j = li + 4
    while not lt[j].is_p(";"):
        j += 1
    initial = _state_of(Parser(lt[li + 4:j], lt[li].line).whole_expr(), "the initial state")

    def is_matches(ts, i):
        return (ts[i].kind == "ident" and ts[i].text == "matches" and i + 2 < len(ts) and ts[i + 1].is_p("!")
                and is_group(ts[i + 2]) and ts[i + 2].sub and ts[i + 2].sub[0].kind == "ident" and ts[i + 2].sub[0].text == "state")
    ms = find_tokens(fn.body_group.sub, is_matches, [])
    if len(ms) != 1:
        raise SiteError(f"expected one `matches!(state, ..)` in `NumberBuf::parse_in`, found {len(ms)}", fn.line)
    mt, mi = ms[0]
    parts, _ = split_top(mt[mi + 2].sub)
    if len(parts) != 2:
        raise SiteError("`matches!(state, ..)` with a guard or further arguments is not translated", mt[mi].line)
    pat = Parser(parts[1], mt[mi].line).whole_pattern()
    alts = pat[2] if pat[0] == "por" else [pat]
    accepting = [_state_of(a, "an accepting state") for a in alts]
    accepting = [s for s in states if s in accepting] + [s for s in accepting if s not in states]

    table = []
    for name, kind, vln in pmod.enums["Context"]:
        fset = set()
        for c in CHAR_DOMAIN:
            v, _ = run(pmod, follows, [("variant", "Context", name, []), mk_char(c)], f"Context::{name} and the character {c:#x}")
            if want(v, "bool", follows, "a context and a character")[1]:
                fset.add(c)
        per_state = []
        for st in states:
            outs = {}
            for c, a in zip(CHAR_DOMAIN, rows[st]):
                if a[0] == "go":
                    o = a[1]
                elif a[0] == "follows":
                    o = "break" if c in fset else "error"
                else:
                    o = a[0]
                outs.setdefault(o, []).append(c)
            order = [s for s in states if s in outs] + [o for o in ("break",) if o in outs]
            unknown = [o for o in outs if o not in order and o != "error"]
            if unknown:
                raise SiteError(f"state `{st}` goes to `{unknown[0]}`, which has no arm of its own", ln)
            per_state.append((st, [(o, intervals(outs[o])) for o in order]))
        table.append((name, per_state))
    return (initial, accepting, table), ln, "fn NumberBuf::parse_in, `match state { .. }`, the initial and the accepting states"


def site_escape_table(mods):
    """the arms of the `match parser.next_char()?` that follows a backslash in SmallString::parse_in: for every character
    of char_domain the character the two-character escape denotes (arms whose body is a character or the bound
    character); `u` and the characters that are no escape are left out"""
    mod = mods("src/parse/string.rs")
    fn = parse_in_fn(mod)

    def is_bs_arm(ts, i):
        # (_, Some('\\')) => match parser.next_char()? { .. }
        if not (is_group(ts[i], "Paren") and i + 4 < len(ts) and ts[i + 1].is_p("=>") and is_kw(ts[i + 2], "match")):
            return False
        txt = "".join(u.text for u in ts[i].sub if u.kind != "group") + "".join(
            v.text for u in ts[i].sub if u.kind == "group" for v in u.sub)
        return "'\\\\'" in txt
    found = find_tokens(fn.body_group.sub, is_bs_arm, [])
    if len(found) != 1:
        raise SiteError(f"expected one arm `(_, Some('\\\\')) => match ..` in `SmallString::parse_in`, found {len(found)}", fn.line)
    ts, i = found[0]
    j = i + 3
    while j < len(ts) and not is_group(ts[j], "Brace"):
        j += 1
    if j >= len(ts):
        raise SiteError("the `match` after a backslash has no arms", ts[i].line)
    ln = ts[i].line
    # the arms, read leniently: pattern up to `=>`; a body that is a block, or that starts with `break` / `return`, is
    # not an escape character (the `u` arm, the error arm) and is not parsed
    arms = []
    g = ts[j].sub
    k = 0
    while k < len(g):
        q = k
        while q < len(g) and not g[q].is_p("=>"):
            q += 1
        if q >= len(g):
            raise SiteError("an arm without `=>` after a backslash", g[k].line)
        pat = Parser(g[k:q], g[k].line).whole_pattern()
        q += 1
        if q < len(g) and is_group(g[q], "Brace"):
            body = None
            q += 1
        else:
            r = q
            while r < len(g) and not g[r].is_p(","):
                r += 1
            body = None if (is_kw(g[q], "break") or is_kw(g[q], "return")) else Parser(g[q:r], g[q].line).whole_expr()
            q = r
        if q < len(g) and g[q].is_p(","):
            q += 1
        arms.append((pat, body))
        k = q
    it = Interp(mod)
    out = []
    for c in CHAR_DOMAIN:
        val = ("tuple", [("int", 0, "usize"), ("variant", None, "Some", [("char", c)])])
        for p, body in arms:
            b = {}
            if not it.pm(p, val, b, [{}], None):
                continue
            e = body
            if e is None:
                pass        # `u` (needs four more characters) or an error
            elif e[0] == "lit" and e[2][0] == "char":
                out.append((c, e[2][1]))
            elif e[0] == "path" and len(e[2]) == 1 and e[2][0] in b and b[e[2][0]][0] == "char":
                out.append((c, b[e[2][0]][1]))
            else:
                raise SiteError("an escape arm yields something this translator does not classify (a character literal, "
                                "the bound character, a block, or an error)", e[1])
            break
    return out, ln, "fn SmallString::parse_in, the two-character escapes"


# ----------------------------------------------------------------------------- leaf parsers, executed
# The leaf parsers (null.rs, boolean.rs, parse_hex4, array.rs) are straight-line matches over what the `Parser`
# hands out.  They are RUN by the interpreter on short inputs against a stub of `Parser` with the semantics of
# src/parse/mod.rs (one-character look-ahead that does not move the position; `begin_fragment` reserves an entry
# (position, position, 0) and returns its index; `end_fragment(i)` closes entry i at the current position with
# volume = entries - i; `skip_whitespaces` skips space, tab, LF, CR) -- the same primitives Model/Parser.v gives its
# leaf functions.  Every character is declared one byte long; the code map starts with one open entry (index 0).
WS_CHARS = (0x20, 0x09, 0x0A, 0x0D)
STREAM_ERR = 0x110000       # an item of an input word standing for a failing source item (`Err(e)` of the iterator)


def parser_stub(word):
    return ("parser", {"rest": list(word), "pos": 0, "cm": [[0, 0, 0]]})


def _ok(v):
    return ("variant", None, "Ok", [v])


def _some_char(c):
    return ("variant", None, "None", []) if c is None else ("variant", None, "Some", [("char", c)])


def parser_stub_method(p, name, args, ln):
    if name == "begin_fragment" and not args:
        p["cm"].append([p["pos"], p["pos"], 0])
        return ("int", len(p["cm"]) - 1, "usize")
    if name == "end_fragment" and len(args) == 1 and args[0][0] == "int":
        i = args[0][1]
        if not 0 <= i < len(p["cm"]):
            raise EvalPanic("end_fragment: no such code-map entry (`unwrap` on None)")
        p["cm"][i][1] = max(p["cm"][i][0], p["pos"])
        p["cm"][i][2] = len(p["cm"]) - i
        return UNIT
    if name in ("peek_char", "next_char", "skip_whitespaces") and not args:
        # a failing source item is reported as Error::Stream(position) by whichever method pulls it
        k = 0
        if name == "skip_whitespaces":
            while k < len(p["rest"]) and p["rest"][k] in WS_CHARS:
                k += 1
        if k < len(p["rest"]) and p["rest"][k] == STREAM_ERR:
            if name == "skip_whitespaces":
                del p["rest"][:k]
                p["pos"] += k
            return ("variant", None, "Err", [("variant", "Error", "Stream", [("int", p["pos"], "usize")])])
    if name == "peek_char" and not args:
        return _ok(_some_char(p["rest"][0] if p["rest"] else None))
    if name == "next_char" and not args:
        pos = p["pos"]
        c = None
        if p["rest"]:
            c = p["rest"].pop(0)
            p["pos"] += 1
        return _ok(("tuple", [("int", pos, "usize"), _some_char(c)]))
    if name == "skip_whitespaces" and not args:
        while p["rest"] and p["rest"][0] in WS_CHARS:
            p["rest"].pop(0)
            p["pos"] += 1
        return _ok(UNIT)
    raise SiteError(f"`parser.{name}(..)` is not one of the Parser methods this translator's stub provides "
                    f"(begin_fragment, end_fragment, peek_char, next_char, skip_whitespaces, .position)", ln)


def _leaf_run(mod, fn, word, payload, extra_args=(), self_type=None):
    """runs a leaf parser on `word`; -> the outcome as a list of numbers:
    Ok: [0, payload, meta index, position] + code map flattened;  Err(Unexpected(p, c)): [1, p, c + 1 | 0];
    Err(Stream(p)): [5, p]"""
    it = Interp(mod)
    it.externs = {
        ("Error", "unexpected"): lambda args, ln: ("variant", "Error", "Unexpected", list(args)),
        (None, "Meta"): lambda args, ln: ("variant", "Meta", "Meta", list(args)),
    }
    stub = parser_stub(word)
    try:
        v = it.call(fn, [stub] + list(extra_args), self_type)
    except _Return as r:
        v = r.v if hasattr(r, "v") else r.args[0]
    except EvalPanic as e:
        raise SiteError(f"`{fn.where()}` panics on the input {[hex(c) for c in word]}: {e}", fn.line)
    if v[0] != "variant" or v[2] not in ("Ok", "Err"):
        raise SiteError(f"`{fn.where()}` yields {show_val(v)}, expected a Result", fn.line)
    x = v[3][0]
    if v[2] == "Err":
        if x[0] == "variant" and x[2] == "Stream" and len(x[3]) == 1 and x[3][0][0] == "int":
            return [5, x[3][0][1]]
        if not (x[0] == "variant" and x[2] == "Unexpected" and len(x[3]) == 2 and x[3][0][0] == "int"):
            raise SiteError(f"`{fn.where()}` fails with {show_val(x)}, expected Error::unexpected(position, character)", fn.line)
        c = x[3][1]
        if c[0] == "variant" and c[2] == "None":
            cc = 0
        elif c[0] == "variant" and c[2] == "Some" and c[3][0][0] == "char":
            cc = c[3][0][1] + 1
        else:
            raise SiteError(f"the character of an `unexpected` error is {show_val(c)}", fn.line)
        return [1, x[3][0][1], cc]
    idx = 0
    if x[0] == "variant" and x[2] == "Meta":
        if len(x[3]) != 2 or x[3][1][0] != "int":
            raise SiteError(f"`{fn.where()}` returns {show_val(x)}, expected Meta(value, index)", fn.line)
        idx = x[3][1][1]
        x = x[3][0]
    return [0, payload(x), idx, stub[1]["pos"]] + [n for e in stub[1]["cm"] for n in e]


def _words(alphabet, n):
    out = [[]]
    level = [[]]
    for _ in range(n):
        level = [w + [c] for w in level for c in alphabet]
        out += level
    return out


def _near(word, alphabet):
    """every prefix of `word`, alone and followed by one character of `alphabet`; the word followed by one more"""
    out = []
    for k in range(len(word) + 1):
        out.append(word[:k])
        for c in alphabet:
            if k == len(word) or c != word[k]:
                out.append(word[:k] + [c])
    return out


def _o(s):
    return [ord(c) for c in s]


def _failing(words, maxlen):
    """the words, and each word of at most maxlen items with a failing source item appended, appended after one more
    character, and put in place of each of its items"""
    out = list(words)
    for w in words:
        if len(w) <= maxlen:
            out.append(w + [STREAM_ERR])
            out.append(w + [0x78, STREAM_ERR])
            for k in range(len(w)):
                out.append(w[:k] + [STREAM_ERR] + w[k + 1:])
    return out


LEAF_NULL_WORDS = _failing(_near(_o("null"), _o("nulxt \n")), 4)
LEAF_BOOL_WORDS = _failing(_near(_o("true"), _o("truefalsx ")) + _near(_o("false"), _o("truefalsx ")), 5)
_HEXISH = [0x2F, 0x30, 0x39, 0x3A, 0x40, 0x41, 0x46, 0x47, 0x60, 0x61, 0x66, 0x67, 0x20, 0x2B, 0x2D, 0x5F, 0x78, 0xE9, 0x663, 0xFF10, 0x22]
LEAF_HEX4_WORDS = ([w for base in ("1aF9", "0000", "ffff", "D83d", "dC00") for k in range(4) for w in
                    [_o(base)[:k] + [c] + _o(base)[k + 1:] for c in _HEXISH]]
                   + [_o(b) for b in ("", "1", "1a", "1aF", "1aF9", "1aF9x", "FFFF0", "0020", "d800", "DFFF")])
LEAF_HEX4_WORDS = LEAF_HEX4_WORDS + [w[:k] + [STREAM_ERR] + w[k + 1:] for w in (_o("1aF9"), _o("1xF9"), _o("g000")) for k in range(4)] + [
    _o("1aF") + [STREAM_ERR], _o("1aF9") + [STREAM_ERR]]
LEAF_ARRAY_START_WORDS = _words(_o("[] \n1,x") + [STREAM_ERR], 3) + [_o("[ \t\r\n]"), _o("[ \t\r\n1"), _o("[  "), _o("[  ") + [STREAM_ERR]]
LEAF_ARRAY_CONT_WORDS = _words(_o(",] \tx[") + [STREAM_ERR], 3) + [_o(" \t\r\n,"), _o(" \t\r\n]1"), _o("   "), _o("   ") + [STREAM_ERR]]


def _payload_unit(x):
    if x != UNIT and x[0] != "unit":
        raise SiteError(f"the null parser returns {show_val(x)}")
    return 0


def _payload_bool(x):
    if x[0] != "bool":
        raise SiteError(f"the boolean parser returns {show_val(x)}")
    return 1 if x[1] else 0


def _payload_int(x):
    if x[0] != "int":
        raise SiteError(f"parse_hex4 returns {show_val(x)}")
    return x[1]


def _payload_variant(names):
    def f(x):
        if x[0] != "variant" or x[2] not in names:
            raise SiteError(f"expected one of {names}, got {show_val(x)}")
        return names[x[2]]
    return f


def site_leaf(kind):
    def f(mods):
        ctx = ("variant", "Context", "None", [])
        if kind == "null":
            mod = mods("src/parse/null.rs")
            c = [fn for (t, name), fs in mod.impl_fns.items() if name == "parse_in" for fn in fs]
            if len(c) != 1:
                raise SiteError(f"expected one `fn parse_in` in src/parse/null.rs, found {len(c)}")
            fn, words, pay, extra, st = c[0], LEAF_NULL_WORDS, _payload_unit, [ctx], None
        elif kind == "bool":
            mod = mods("src/parse/boolean.rs")
            fn, words, pay, extra, st = _impl_parse_in(mod, "bool"), LEAF_BOOL_WORDS, _payload_bool, [ctx], None
        elif kind == "hex4":
            mod = mods("src/parse/string.rs")
            fn, words, pay, extra, st = mod.find_fn("parse_hex4"), LEAF_HEX4_WORDS, _payload_int, [], None
        elif kind == "array_start":
            mod = mods("src/parse/array.rs")
            fn = _impl_parse_in(mod, "StartFragment")
            words, pay, extra, st = LEAF_ARRAY_START_WORDS, _payload_variant({"Empty": 1, "NonEmpty": 0}), [ctx], "StartFragment"
        else:
            mod = mods("src/parse/array.rs")
            fn = _impl_parse_in(mod, "ContinueFragment")
            words, pay, extra, st = LEAF_ARRAY_CONT_WORDS, _payload_variant({"Item": 1, "End": 0}), [("int", 0, "usize")], "ContinueFragment"
        out = []
        seen = set()
        for w in words:
            if tuple(w) in seen:
                continue
            seen.add(tuple(w))
            out.append((w, _leaf_run(mod, fn, w, pay, extra, st)))
        return out, fn.line, f"fn {fn.where()}, executed on {len(out)} inputs against the Parser stub"
    return f


# ----------------------------------------------------------------------------- the string scanner, executed
def _span(args, ln):
    a, b = args
    return ("variant", "Span", "Span", [a, ("int", max(a[1], b[1]), "usize")])       # locspan::Span::new


def _string_run(mod, fn, word, o):
    """SmallString::parse_in on `word` under the option record o (bit 1 = accept_truncated_surrogate_pair, bit 2 =
    accept_invalid_codepoints) -> Ok: [0, index, position, n, c1 .. cn] + code map;  errors: [1, p, c + 1 | 0]
    Unexpected, [5, p] Stream, [6, s, e, high] MissingLowSurrogate, [7, s, e, cp] InvalidUnicodeCodePoint,
    [8, s, e, high, cp] InvalidLowSurrogate"""
    it = Interp(mod)
    mk = lambda name: (lambda args, ln: ("variant", "Error", name, list(args)))
    it.externs = {
        ("Error", "unexpected"): lambda args, ln: ("variant", "Error", "Unexpected", list(args)),
        ("Error", "MissingLowSurrogate"): mk("MissingLowSurrogate"),
        ("Error", "InvalidUnicodeCodePoint"): mk("InvalidUnicodeCodePoint"),
        ("Error", "InvalidLowSurrogate"): mk("InvalidLowSurrogate"),
        (None, "Meta"): lambda args, ln: ("variant", "Meta", "Meta", list(args)),
        ("Span", "new"): _span,
        ("SmallString", "new"): lambda args, ln: ("strbuf", []),
    }
    stub = parser_stub(word)
    stub[1]["trunc"], stub[1]["inval"] = bool(o & 1), bool(o & 2)
    try:
        v = it.call(fn, [stub, ("variant", "Context", "None", [])], "SmallString")
    except EvalPanic as e:
        raise SiteError(f"`{fn.where()}` panics on the input {[hex(c) for c in word]}: {e}", fn.line)
    if v[0] != "variant" or v[2] not in ("Ok", "Err"):
        raise SiteError(f"`{fn.where()}` yields {show_val(v)}, expected a Result", fn.line)
    x = v[3][0]
    if v[2] == "Ok":
        if not (x[0] == "variant" and x[2] == "Meta" and x[3][0][0] == "strbuf" and x[3][1][0] == "int"):
            raise SiteError(f"`{fn.where()}` returns {show_val(x)}, expected Meta(string, index)", fn.line)
        cps = x[3][0][1]
        return [0, x[3][1][1], stub[1]["pos"], len(cps)] + list(cps) + [n for e in stub[1]["cm"] for n in e]
    if x[0] != "variant":
        raise SiteError(f"`{fn.where()}` fails with {show_val(x)}", fn.line)

    def span(sp):
        if not (sp[0] == "variant" and sp[2] == "Span"):
            raise SiteError(f"expected a Span, got {show_val(sp)}", fn.line)
        return [sp[3][0][1], sp[3][1][1]]
    a = x[3]
    if x[2] == "Stream":
        return [5, a[0][1]]
    if x[2] == "Unexpected":
        c = a[1]
        return [1, a[0][1], 0 if c[2] == "None" else c[3][0][1] + 1]
    if x[2] == "MissingLowSurrogate":
        return [6] + span(a[0]) + [a[1][1]]
    if x[2] == "InvalidUnicodeCodePoint":
        return [7] + span(a[0]) + [a[1][1]]
    if x[2] == "InvalidLowSurrogate":
        return [8] + span(a[0]) + [a[1][1], a[2][1]]
    raise SiteError(f"`{fn.where()}` fails with {show_val(x)}", fn.line)


def _string_words():
    q = [0x22]
    el = [_o("\\ud83d"), _o("\\ude00"), _o("\\udbff"), _o("\\udc00"), _o("\\n"), _o("x"), _o("\\u0041"), [0xE9], _o("\\/"),
          _o("\\\""), _o("\\\\"), _o("\\b"), [0x1F600], _o("\\ud800"), _o("\\udfff"), _o("\\uDBFF"), _o("\\uffff")]
    sur = el[:4]
    bodies = [[]]
    bodies += [a for a in el]
    bodies += [a + b for a in el for b in el]
    bodies += [a + b + c for a in sur for b in el[:8] for c in sur]
    bodies += [a + b + c for a in sur for b in sur for c in el[4:9]]
    bodies += [a + b + c + d for a in sur[:2] for b in sur[:2] for c in sur[:2] for d in sur[:2]]
    words = []
    for b in bodies:
        words.append(q + b + q)
    for b in bodies[:1 + len(el) + 40]:
        words.append(q + b)                        # no closing quote
        words.append(q + b + [STREAM_ERR])
    # what may not stand in a string, a broken escape, a broken \u word, the opening quote missing, input after the string
    for extra in ([0x1F], [0x00], [0x0A], [0x7F], _o("\\x"), _o("\\u12"), _o("\\u12g4"), _o("\\ud83d\\u12"), _o("\\"), _o("\\u")):
        words.append(q + extra + q)
        words.append(q + _o("a") + extra + q)
    words += [[], _o("x"), _o(" \"a\""), q + q + _o("x"), q + _o("ab") + q + q, [STREAM_ERR], q + [0x10FFFF, 0xFFFE] + q]
    seen, out = set(), []
    for w in words:
        if tuple(w) not in seen:
            seen.add(tuple(w))
            out.append(w)
    return out


STRING_WORDS = _string_words()


def site_leaf_string(mods):
    """SmallString::parse_in (the string scanner with its pending-high-surrogate state), executed under the four
    option records"""
    mod = mods("src/parse/string.rs")
    fn = parse_in_fn(mod)
    out = []
    for o in range(4):
        for w in STRING_WORDS:
            out.append(([o] + w, _string_run(mod, fn, w, o)))
    return out, fn.line, f"fn SmallString::parse_in, executed on {len(STRING_WORDS)} inputs x 4 option records against the Parser stub"


# ----------------------------------------------------------------------------- the number parser, executed
def _number_words():
    al = _o("01-+.eE,] x")
    words = _words(al, 3)
    words += [_o(t) for t in ("-0.5e+10", "12.50E-3", "1e5]", "0.0 ", "10,", "1.5}", "9:", "1.5:", "-12}", "1e+", "1.e1", "01",
                               "-01", "0e0", "0E-0,", "123456789012345678901234567890.5e-300 ", "1.2.3", "1ee1", "--1", "+1",
                               ".5", "1.", "1.5e", "1.5e+ ", "2\t", "2\n", "2\r", "7 ", "7 ", "1٠", "١")]
    words += [w + [STREAM_ERR] for w in _words(_o("0-.e"), 2)] + [_o("1") + [STREAM_ERR] + _o("2"), [STREAM_ERR]]
    seen, out = set(), []
    for w in words:
        if tuple(w) not in seen:
            seen.add(tuple(w))
            out.append(w)
    return out


NUMBER_WORDS = _number_words()


def site_leaf_number(mods):
    """NumberBuf::parse_in -- the loop around the automaton, the buffer, the final check -- executed in each context"""
    mod = mods("src/parse/number.rs")
    pmod = mods("src/parse/mod.rs")
    fn = _impl_parse_in(mod, "NumberBuf")
    follows = pmod.find_fn("follows", "Context")
    if "Context" not in pmod.enums:
        raise SiteError("no `enum Context` found in src/parse/mod.rs")

    def follows_ext(recv, args, ln):
        v, _ = run(pmod, follows, [recv] + list(args), "a context and a character")
        return v
    out = []
    for k, (name, kind, vln) in enumerate(pmod.enums["Context"]):
        for w in NUMBER_WORDS:
            it = Interp(mod)
            it.externs = {
                ("Error", "unexpected"): lambda args, ln: ("variant", "Error", "Unexpected", list(args)),
                (None, "Meta"): lambda args, ln: ("variant", "Meta", "Meta", list(args)),
                ("SmallVec", "new"): lambda args, ln: ("bytebuf", []),
                ("NumberBuf", "new_unchecked"): lambda args, ln: args[0],
            }
            it.ext_methods = {("Context", "follows"): follows_ext}
            stub = parser_stub(w)
            try:
                v = it.call(fn, [stub, ("variant", "Context", name, [])], "NumberBuf")
            except EvalPanic as e:
                raise SiteError(f"`{fn.where()}` panics on the input {[hex(c) for c in w]}: {e}", fn.line)
            if v[0] != "variant" or v[2] not in ("Ok", "Err"):
                raise SiteError(f"`{fn.where()}` yields {show_val(v)}, expected a Result", fn.line)
            x = v[3][0]
            if v[2] == "Ok":
                if not (x[0] == "variant" and x[2] == "Meta" and x[3][0][0] == "bytebuf" and x[3][1][0] == "int"):
                    raise SiteError(f"`{fn.where()}` returns {show_val(x)}, expected Meta(number, index)", fn.line)
                b = x[3][0][1]
                o = [0, x[3][1][1], stub[1]["pos"], len(b)] + list(b) + [n for e in stub[1]["cm"] for n in e]
            elif x[0] == "variant" and x[2] == "Stream":
                o = [5, x[3][0][1]]
            elif x[0] == "variant" and x[2] == "Unexpected":
                c = x[3][1]
                o = [1, x[3][0][1], 0 if c[2] == "None" else c[3][0][1] + 1]
            else:
                raise SiteError(f"`{fn.where()}` fails with {show_val(x)}", fn.line)
            out.append(([k] + w, o))
    return out, fn.line, f"fn NumberBuf::parse_in, executed on {len(NUMBER_WORDS)} inputs x {len(pmod.enums['Context'])} contexts against the Parser stub"


# ----------------------------------------------------------------------------- the object functions, executed
def _err_outcome(x, fn):
    """the list of numbers of an Err(..) value of the parsers (shared encoding)"""
    if x[0] != "variant":
        raise SiteError(f"`{fn.where()}` fails with {show_val(x)}", fn.line)
    a = x[3]

    def span(sp):
        if not (sp[0] == "variant" and sp[2] == "Span"):
            raise SiteError(f"expected a Span, got {show_val(sp)}", fn.line)
        return [sp[3][0][1], sp[3][1][1]]
    if x[2] == "Stream":
        return [5, a[0][1]]
    if x[2] == "Unexpected":
        c = a[1]
        return [1, a[0][1], 0 if c[2] == "None" else c[3][0][1] + 1]
    if x[2] == "MissingLowSurrogate":
        return [6] + span(a[0]) + [a[1][1]]
    if x[2] == "InvalidUnicodeCodePoint":
        return [7] + span(a[0]) + [a[1][1]]
    if x[2] == "InvalidLowSurrogate":
        return [8] + span(a[0]) + [a[1][1], a[2][1]]
    raise SiteError(f"`{fn.where()}` fails with {show_val(x)}", fn.line)


def _string_externs():
    mk = lambda name: (lambda args, ln: ("variant", "Error", name, list(args)))
    return {
        ("Error", "unexpected"): lambda args, ln: ("variant", "Error", "Unexpected", list(args)),
        ("Error", "MissingLowSurrogate"): mk("MissingLowSurrogate"),
        ("Error", "InvalidUnicodeCodePoint"): mk("InvalidUnicodeCodePoint"),
        ("Error", "InvalidLowSurrogate"): mk("InvalidLowSurrogate"),
        (None, "Meta"): lambda args, ln: ("variant", "Meta", "Meta", list(args)),
        ("Span", "new"): _span,
        ("SmallString", "new"): lambda args, ln: ("strbuf", []),
    }


def _object_words():
    toks = [_o("{"), _o("}"), _o(","), _o(":"), _o(" "), _o("\"a\""), _o("\"\""), _o("\"\\ud83d\""), _o("x"), _o("\n"), [STREAM_ERR]]
    words = [[]]
    level = [[]]
    for _ in range(3):
        level = [w + t for w in level for t in toks]
        words += level
    for t in ("{ \"a\" : ", "{\"a\"  :1", ", \"b\":", " , \"k\" x", "{\"a\":}", "{ \t\r\n}", " \t\r\n}", " \t\r\n, \t\r\n\"k\\n\" \t:",
              "{\"\\ud83d\\ude00\":", ",\"\\ude00\":", "{\"a\\", ",\"a", "{\"a\":\"b\"", "}x", ",,"):
        words.append(_o(t))
    seen, out = set(), []
    for w in words:
        if tuple(w) not in seen:
            seen.add(tuple(w))
            out.append(w)
    return out


OBJECT_WORDS = _object_words()


def site_leaf_object(which):
    def f(mods):
        mod = mods("src/parse/object.rs")
        smod = mods("src/parse/string.rs")
        sfn = parse_in_fn(smod)
        fn = _impl_parse_in(mod, "StartFragment" if which == "start" else "ContinueFragment")

        def key_parse_in(args, ln):
            # `Key::parse_in(parser, context)`: Key is SmallString<[u8; KEY_CAPACITY]> -- the string scanner of string.rs, run
            # on the same stub
            it2 = Interp(smod)
            it2.externs = _string_externs()
            return it2.call(sfn, list(args), "SmallString")
        out = []
        for o in (0, 3):
            for w in OBJECT_WORDS:
                it = Interp(mod)
                it.externs = dict(_string_externs())
                it.externs[("Key", "parse_in")] = key_parse_in
                it.ext_values = {("Context", "ObjectKey"): ("variant", "Context", "ObjectKey", [])}
                stub = parser_stub(w)
                stub[1]["trunc"], stub[1]["inval"] = bool(o & 1), bool(o & 2)
                extra = [("variant", "Context", "None", [])] if which == "start" else [("int", 0, "usize")]
                try:
                    v = it.call(fn, [stub] + extra, "StartFragment" if which == "start" else "ContinueFragment")
                except EvalPanic as e:
                    raise SiteError(f"`{fn.where()}` panics on the input {[hex(c) for c in w]}: {e}", fn.line)
                if v[0] != "variant" or v[2] not in ("Ok", "Err"):
                    raise SiteError(f"`{fn.where()}` yields {show_val(v)}, expected a Result", fn.line)
                x = v[3][0]
                if v[2] == "Err":
                    out.append(([o] + w, _err_outcome(x, fn)))
                    continue
                idx = 0
                if which == "start":
                    if not (x[0] == "variant" and x[2] == "Meta" and x[3][1][0] == "int"):
                        raise SiteError(f"`{fn.where()}` returns {show_val(x)}, expected Meta(fragment, index)", fn.line)
                    idx, x = x[3][1][1], x[3][0]
                if x[0] != "variant":
                    raise SiteError(f"`{fn.where()}` returns {show_val(x)}", fn.line)
                if x[2] in ("Empty", "End") and not x[3]:
                    body = [1, idx, stub[1]["pos"], 0, 0]
                elif x[2] in ("NonEmpty", "Entry") and len(x[3]) == 1 and x[3][0][0] == "variant" and x[3][0][2] == "Meta" \
                        and x[3][0][3][0][0] == "strbuf" and x[3][0][3][1][0] == "int":
                    key, e = x[3][0][3][0][1], x[3][0][3][1][1]
                    body = [0, idx, stub[1]["pos"], e, len(key)] + list(key)
                else:
                    raise SiteError(f"`{fn.where()}` returns {show_val(x)}", fn.line)
                out.append(([o] + w, [0] + body + [n for e_ in stub[1]["cm"] for n in e_]))
        return out, fn.line, f"fn {fn.where()} (object.rs), executed on {len(OBJECT_WORDS)} inputs x 2 option records against the Parser stub, keys through SmallString::parse_in"
    return f


# ----------------------------------------------------------------------------- Fragment::parse_in, executed
def _fragment_words():
    al = _o("ntf0-\"[{]},: x1")
    words = _words(al, 2)
    for t in ("null", "nul", "nulL", "true,", "tru", "false]", "fals", "-1.5e3 ", "-", "0.", "12,", "9}", "\"ab\"", "\"\\ud83d\"",
              "\"\\ud83d\\ude00\" ", "\"a", "[]", "[ ]", "[ \n]x", "[1", "[ [", "{}", "{ }", "{\"a\":", "{ \"a\" : ", "{\"a\" x", "{\"\\ud83d\":",
              "{,", "  null", "\t\r\n[", " ", "\n\n", "nullx", "01", "+1", ".5", "\u00e9", "\ufeff[]", "/", "N", "T", "'a'"):
        words.append(_o(t))
    words += [[STREAM_ERR], _o(" ") + [STREAM_ERR], _o("n") + [STREAM_ERR], _o("[") + [STREAM_ERR], _o("{ ") + [STREAM_ERR],
              _o("1") + [STREAM_ERR], _o("\"a") + [STREAM_ERR], _o("tru") + [STREAM_ERR]]
    seen, out = set(), []
    for w in words:
        if tuple(w) not in seen:
            seen.add(tuple(w))
            out.append(w)
    return out


FRAGMENT_WORDS = _fragment_words()


def _fragment_env(mods):
    """Fragment::parse_in of value.rs (white space, dispatch on the first character, how each sub-parser's result is
    wrapped), executed in each context under the strict and the flexible record; the sub-parsers are the functions of
    null.rs, boolean.rs, number.rs, string.rs, array.rs and object.rs, each run by its own interpreter on the same stub"""
    vmod = mods("src/parse/value.rs")
    pmod = mods("src/parse/mod.rs")
    fn = _impl_parse_in(vmod, "Fragment")
    nmod, bmod, numod = mods("src/parse/null.rs"), mods("src/parse/boolean.rs"), mods("src/parse/number.rs")
    smod, amod, omod = mods("src/parse/string.rs"), mods("src/parse/array.rs"), mods("src/parse/object.rs")
    nfn = [f for (t, name), fs in nmod.impl_fns.items() if name == "parse_in" for f in fs]
    if len(nfn) != 1:
        raise SiteError(f"expected one `fn parse_in` in src/parse/null.rs, found {len(nfn)}")
    follows = pmod.find_fn("follows", "Context")
    basic = {
        ("Error", "unexpected"): lambda args, ln: ("variant", "Error", "Unexpected", list(args)),
        (None, "Meta"): lambda args, ln: ("variant", "Meta", "Meta", list(args)),
    }

    def sub(mod, f, st, externs=None, ext_methods=None, ext_values=None):
        def call(args, ln):
            it = Interp(mod)
            it.externs = dict(basic)
            it.externs.update(externs or {})
            it.ext_methods = ext_methods or {}
            it.ext_values = ext_values or {}
            return it.call(f, list(args), st)
        return call

    def follows_ext(recv, args, ln):
        v, _ = run(pmod, follows, [recv] + list(args), "a context and a character")
        return v
    string_in = sub(smod, parse_in_fn(smod), "SmallString", _string_externs())
    key_ext = dict(_string_externs())
    key_ext[("Key", "parse_in")] = string_in
    subs = {
        ("unit", "parse_in"): sub(nmod, nfn[0], None),
        ("bool", "parse_in"): sub(bmod, _impl_parse_in(bmod, "bool"), None),
        ("NumberBuf", "parse_in"): sub(numod, _impl_parse_in(numod, "NumberBuf"), "NumberBuf",
                                       {("SmallVec", "new"): lambda args, ln: ("bytebuf", []),
                                        ("NumberBuf", "new_unchecked"): lambda args, ln: args[0]},
                                       {("Context", "follows"): follows_ext}),
        ("String", "parse_in"): string_in,
        ("array::StartFragment", "parse_in"): sub(amod, _impl_parse_in(amod, "StartFragment"), "StartFragment"),
        ("object::StartFragment", "parse_in"): sub(omod, _impl_parse_in(omod, "StartFragment"), "StartFragment", key_ext, None,
                                                    {("Context", "ObjectKey"): ("variant", "Context", "ObjectKey", [])}),
    }
    return vmod, pmod, fn, basic, subs, sub


def site_leaf_fragment(mods):
    """Fragment::parse_in of value.rs (white space, dispatch on the first character, how each sub-parser's result is
    wrapped), executed in each context under the strict and the flexible record; the sub-parsers are the functions of
    null.rs, boolean.rs, number.rs, string.rs, array.rs and object.rs, each run by its own interpreter on the same stub"""
    vmod, pmod, fn, basic, subs, sub = _fragment_env(mods)
    mkv = lambda name: (lambda args, ln: ("variant", "Value", name, list(args)))
    out = []
    for k, (cname, kind, vln) in enumerate(pmod.enums["Context"]):
        for o in (0, 3):
            for w in FRAGMENT_WORDS:
                it = Interp(vmod)
                it.externs = dict(basic)
                it.externs.update(subs)
                it.externs.update({("Value", n): mkv(n) for n in ("Boolean", "Number", "String", "Array", "Object")})
                it.externs[("Array", "new")] = lambda args, ln: ("list", [])
                it.externs[("Object", "new")] = lambda args, ln: ("variant", "Object", "Object", [])
                it.ext_values = {("Value", "Null"): ("variant", "Value", "Null", [])}
                stub = parser_stub(w)
                stub[1]["trunc"], stub[1]["inval"] = bool(o & 1), bool(o & 2)
                try:
                    v = it.call(fn, [stub, ("variant", "Context", cname, [])], "Fragment")
                except EvalPanic as e:
                    raise SiteError(f"`{fn.where()}` panics on the input {[hex(c) for c in w]}: {e}", fn.line)
                if v[0] != "variant" or v[2] not in ("Ok", "Err"):
                    raise SiteError(f"`{fn.where()}` yields {show_val(v)}, expected a Result", fn.line)
                x = v[3][0]
                word = [k, o] + w
                if v[2] == "Err":
                    out.append((word, _err_outcome(x, fn)))
                    continue
                if not (x[0] == "variant" and x[2] == "Meta" and x[3][1][0] == "int" and x[3][0][0] == "variant"):
                    raise SiteError(f"`{fn.where()}` returns {show_val(x)}, expected Meta(fragment, index)", fn.line)
                idx, fr = x[3][1][1], x[3][0]
                e, payload = 0, []
                if fr[2] == "BeginArray" and not fr[3]:
                    kindn = 7
                elif fr[2] == "BeginObject" and len(fr[3]) == 1 and fr[3][0][0] == "variant" and fr[3][0][2] == "Meta" \
                        and fr[3][0][3][0][0] == "strbuf":
                    kindn, e, payload = 8, fr[3][0][3][1][1], list(fr[3][0][3][0][1])
                elif fr[2] == "Value" and len(fr[3]) == 1 and fr[3][0][0] == "variant" and fr[3][0][1] == "Value":
                    val = fr[3][0]
                    if val[2] == "Null":
                        kindn = 0
                    elif val[2] == "Boolean" and val[3][0][0] == "bool":
                        kindn = 1 if val[3][0][1] else 2
                    elif val[2] == "Number" and val[3][0][0] == "bytebuf":
                        kindn, payload = 3, list(val[3][0][1])
                    elif val[2] == "String" and val[3][0][0] == "strbuf":
                        kindn, payload = 4, list(val[3][0][1])
                    elif val[2] == "Array" and val[3][0] == ("list", []):
                        kindn = 5
                    elif val[2] == "Object" and val[3][0][0] == "variant" and val[3][0][2] == "Object":
                        kindn = 6
                    else:
                        raise SiteError(f"`{fn.where()}` returns the value {show_val(val)}", fn.line)
                else:
                    raise SiteError(f"`{fn.where()}` returns the fragment {show_val(fr)}", fn.line)
                out.append((word, [0, kindn, idx, stub[1]["pos"], e, len(payload)] + payload + [n for e_ in stub[1]["cm"] for n in e_]))
    return out, fn.line, (f"fn Fragment::parse_in (value.rs), executed on {len(FRAGMENT_WORDS)} inputs x 4 contexts x 2 option records "
                          f"against the Parser stub, sub-parsers run from their own files")


# ----------------------------------------------------------------------------- the stack machine, executed
def _enc_value(v, fn):
    """null [0], true [1], false [2], number [3, n, bytes], string [4, n, characters], array [5, count, items..],
    object [6, count, (n, key, value)..]"""
    if v[0] != "variant" or v[1] != "Value":
        raise SiteError(f"`{fn.where()}` builds {show_val(v)}, expected a Value", fn.line)
    k = v[2]
    if k == "Null":
        return [0]
    if k == "Boolean" and v[3][0][0] == "bool":
        return [1 if v[3][0][1] else 2]
    if k == "Number" and v[3][0][0] == "bytebuf":
        return [3, len(v[3][0][1])] + list(v[3][0][1])
    if k == "String" and v[3][0][0] == "strbuf":
        return [4, len(v[3][0][1])] + list(v[3][0][1])
    if k == "Array" and v[3][0][0] == "list":
        out = [5, len(v[3][0][1])]
        for x in v[3][0][1]:
            out += _enc_value(x, fn)
        return out
    if k == "Object" and v[3][0][0] == "objbuf":
        out = [6, len(v[3][0][1])]
        for key, x in v[3][0][1]:
            if key[0] != "strbuf":
                raise SiteError(f"`{fn.where()}` builds an entry whose key is {show_val(key)}", fn.line)
            out += [len(key[1])] + list(key[1]) + _enc_value(x, fn)
        return out
    raise SiteError(f"`{fn.where()}` builds {show_val(v)}", fn.line)


def _machine_words():
    toks = [_o("["), _o("]"), _o("{"), _o("}"), _o(","), _o(":"), _o("\"k\""), _o("1"), _o("null"), _o(" ")]
    words = [[]]
    level = [[]]
    for _ in range(3):
        level = [w + t for w in level for t in toks]
        words += level
    small = [_o("["), _o("]"), _o(","), _o("1"), _o("{"), _o("}"), _o("\"k\":")]
    level = [[]]
    for _ in range(4):
        level = [w + t for w in level for t in small]
    words += level
    for t in ("[1,[2,[]],{\"a\":{\"b\":[null,true]},\"a\":false}] ", "{\"k\":[{},[],\"\\ud83d\\ude00\"],\"\":-0.5e+3}", "[[[[[[1]]]]]]",
              "{\"a\":{\"a\":{\"a\":{}}}}", " [ 1 , 2 ] x", "[1 2]", "{\"a\" 1}", "{\"a\":1,}", "[1,]", "[,1]", "{,}", "[}", "{]", "[1}",
              "{\"a\":1]", "\"\\ud83d\"", "[\"\\ud83d\", \"\\ude00\"]", "{\"\\ud83d\":1}", "nul", "[tru]", "[1e]", "1 1", "[][]",
              "\t\r\n{ \"k\" : [ ] , \"k\" : { } }\n", "[\"a\"", "{\"a\":", "{\"a\"", "[1,", "-", "[-]"):
        words.append(_o(t))
    words += [_o("[1,") + [STREAM_ERR], _o("{\"k\":") + [STREAM_ERR] + _o("1}"), _o("[] ") + [STREAM_ERR], [STREAM_ERR]]
    seen, out = set(), []
    for w in words:
        if tuple(w) not in seen:
            seen.add(tuple(w))
            out.append(w)
    return out


MACHINE_WORDS = _machine_words()


def site_leaf_machine(mods):
    """Value::parse_in of value.rs -- the explicit stack, its four kinds of frames, the local function stack_context, the
    end-of-input check -- executed on whole documents under the strict and the flexible record, with Fragment::parse_in
    and the array / object continuation functions run from the source as well"""
    vmod, pmod, ffn, basic, subs, sub = _fragment_env(mods)
    amod, omod, smod = mods("src/parse/array.rs"), mods("src/parse/object.rs"), mods("src/parse/string.rs")
    fn = _impl_parse_in(vmod, "Value")
    key_ext = dict(_string_externs())
    key_ext[("Key", "parse_in")] = sub(smod, parse_in_fn(smod), "SmallString", _string_externs())
    mkv = lambda name: (lambda args, ln: ("variant", "Value", name, list(args)))
    ext = dict(basic)
    ext.update(subs)
    ext.update({("Value", n): mkv(n) for n in ("Boolean", "Number", "String", "Array", "Object")})
    ext[("Array", "new")] = lambda args, ln: ("list", [])
    ext[("Object", "new")] = lambda args, ln: ("objbuf", [])
    ext[("array::ContinueFragment", "parse_in")] = sub(amod, _impl_parse_in(amod, "ContinueFragment"), "ContinueFragment")
    ext[("object::ContinueFragment", "parse_in")] = sub(omod, _impl_parse_in(omod, "ContinueFragment"), "ContinueFragment", key_ext, None,
                                                        {("Context", "ObjectKey"): ("variant", "Context", "ObjectKey", [])})
    cvals = {("Value", "Null"): ("variant", "Value", "Null", [])}
    for name, kind, ln_ in pmod.enums["Context"]:
        cvals[("Context", name)] = ("variant", "Context", name, [])
    out = []
    for o in (0, 3):
        for w in MACHINE_WORDS:
            it = Interp(vmod)
            it.externs = ext
            it.ext_values = cvals

            def cast(recv, args, ln, it=it):
                # locspan::Meta::cast: the value goes through `From` -- here impl From<Value> for Fragment of value.rs
                return ("variant", recv[1], "Meta", [it.call(vmod.find_fn("from", "Fragment"), [recv[3][0]], "Fragment"), recv[3][1]])
            it.ext_methods = {("Meta", "cast"): cast}
            stub = parser_stub(w)
            stub[1]["cm"] = []
            stub[1]["trunc"], stub[1]["inval"] = bool(o & 1), bool(o & 2)
            try:
                v = it.call(fn, [stub, ("variant", "Context", "None", [])], "Value")
            except EvalPanic as e:
                raise SiteError(f"`{fn.where()}` panics on the input {[hex(c) for c in w]}: {e}", fn.line)
            if v[0] != "variant" or v[2] not in ("Ok", "Err"):
                raise SiteError(f"`{fn.where()}` yields {show_val(v)}, expected a Result", fn.line)
            x = v[3][0]
            if v[2] == "Err":
                out.append(([o] + w, _err_outcome(x, fn)))
                continue
            if not (x[0] == "variant" and x[2] == "Meta" and x[3][1][0] == "int"):
                raise SiteError(f"`{fn.where()}` returns {show_val(x)}, expected Meta(value, index)", fn.line)
            enc = _enc_value(x[3][0], fn)
            out.append(([o] + w, [0, x[3][1][1], stub[1]["pos"], len(enc)] + enc + [n for e_ in stub[1]["cm"] for n in e_]))
    return out, fn.line, (f"fn Value::parse_in (value.rs), executed on {len(MACHINE_WORDS)} documents x 2 option records against the Parser "
                          f"stub, every function it calls run from the source")

def cval_of(v, line):
    k = v[0]
    if k == "int":
        if v[1] < 0:
            raise SiteError("negative constant", line)
        return ("CNum", v[1])
    if k == "bool":
        return ("CBool", v[1])
    if k == "str":
        return ("CStr", v[1])
    if k == "char":
        return ("CCtor", "char", [("CNum", v[1])])
    if k == "variant":
        name = f"{v[1]}::{v[2]}" if v[1] and v[1] != v[2] else v[2]
        return ("CCtor", name, [cval_of(a, line) for a in v[3]])
    if k == "struct":
        return ("CRec", v[1], sorted((f, cval_of(x, line)) for f, x in v[2].items()))
    if k == "tuple":
        return ("CCtor", "", [cval_of(a, line) for a in v[1]])
    if k == "unit":
        return ("CCtor", "", [])
    raise SiteError(f"a {k} value cannot be printed as a constant", line)


def site_preset(name):
    def f(mods):
        mod = mods("src/print/mod.rs")
        fn = mod.find_fn(name, "Options")
        if fn.params:
            raise SiteError(f"`Options::{name}` now takes parameters", fn.line)
        v, _ = run(mod, fn, [], "no argument", "Options")
        if v[0] != "struct":
            raise SiteError(f"`Options::{name}()` yields {show_val(v)}, expected a struct", fn.line)
        return cval_of(v, fn.line), fn.line, f"fn Options::{name}"
    return f


def site_string_literal(mods):
    """output of string_literal on every one-character string, where it is not the character between quotes;
    and on a few longer strings"""
    mod = mods("src/print/mod.rs")
    fn = mod.find_fn("string_literal")
    ps = [p[1] for p in fn.params]
    if ps != ["str", "Formatter"]:
        raise SiteError(f"`string_literal` no longer takes (&str, &mut fmt::Formatter) (found {ps})", fn.line)
    out = []
    for c in CHAR_DOMAIN:
        v, o = run(mod, fn, [("str", [c]), ("fmt",)], f"the one-character string {c:#x}")
        if not (v[0] == "variant" and v[2] == "Ok"):
            raise SiteError(f"`string_literal` on the character {c:#x} yields {show_val(v)}, expected Ok(())", fn.line)
        if o != [0x22, c, 0x22]:
            out.append((c, o))
    samples = []
    for s in STRING_SAMPLES:
        v, o = run(mod, fn, [("str", s), ("fmt",)], "a sample string")
        samples.append((s, o))
    return (out, samples), fn.line, "fn string_literal"


STRING_SAMPLES = [[], [0x61, 0x62], [0x61, 0x0A, 0x22, 0x5C, 0x01, 0xE9, 0x1F600, 0x7F], [0x1F, 0x20, 0x08, 0x0C, 0x0D, 0x09],
                  [0xE9, 0x0A], [0x1F600, 0x22, 0x5C, 0x0D]]


def site_printed_string_size(mods):
    mod = mods("src/print/mod.rs")
    fn = mod.find_fn("printed_string_size")
    if [p[1] for p in fn.params] != ["str"]:
        raise SiteError("`printed_string_size` no longer takes one &str", fn.line)
    out = []
    for c in CHAR_DOMAIN:
        v, _ = run(mod, fn, [("str", [c])], f"the one-character string {c:#x}")
        n = want(v, "int", fn, f"the character {c:#x}")[1]
        if n != 3:
            out.append((c, n))
    samples = []
    for s in STRING_SAMPLES:
        v, _ = run(mod, fn, [("str", s)], "a sample string")
        samples.append((s, want(v, "int", fn, "a sample string")[1]))
    return (out, samples), fn.line, "fn printed_string_size"


def site_digit(mods):
    mod = mods("src/print/mod.rs")
    fn = mod.find_fn("digit")
    ty = one_char_param(fn, ["u32", "u8", "u16", "u64", "usize"])
    out = []
    for d in NIBBLE_DOMAIN:
        v, _ = run(mod, fn, [("int", d, ty)], f"the digit value {d}")
        out.append((d, want(v, "char", fn, f"the digit value {d}")[1]))
    return out, fn.line, "fn digit"


def kind_module(mods):
    mod = mods("src/kind.rs")
    if not getattr(mod, "kind_entries", None):
        mod.kind_entries = expand_macro(mod, "kind_set")
    return mod


def site_kind_table(mods):
    mod = kind_module(mods)
    entries, line = mod.kind_entries
    out = []
    for b in entries:
        if set(b) != {"id", "const", "mask"}:
            raise SiteError(f"the entries of `kind_set!` no longer bind $id, $const and $mask (found {sorted(b)})", line)
        m = literal(b["mask"].text, b["mask"].line)
        if m[0] != "int":
            raise SiteError("a mask of `kind_set!` is not an integer literal", b["mask"].line)
        out.append((b["id"].text, b["const"].text, m[1]))
    return out, line, "the `kind_set!` invocation"


def site_kind_enum(mods):
    mod = mods("src/kind.rs")
    if "Kind" not in mod.enums:
        raise SiteError("no `enum Kind` found in src/kind.rs")
    for name, kind, ln in mod.enums["Kind"]:
        if kind != "unit":
            raise SiteError(f"variant `Kind::{name}` is not a plain unit variant", ln)
    return [n for n, _, _ in mod.enums["Kind"]], mod.enum_lines["Kind"], "enum Kind"


def site_kind_all(mods):
    mod = kind_module(mods)
    fn = mod.find_fn("all", "KindSet")
    v, _ = run(mod, fn, [], "no argument", "KindSet")
    if not (v[0] == "variant" and v[1] == "KindSet" and len(v[3]) == 1 and v[3][0][0] == "int"):
        raise SiteError(f"`KindSet::all()` yields {show_val(v)}, expected KindSet(mask)", fn.line)
    return v[3][0][1], fn.line, "fn KindSet::all"


def site_kind_display(mods):
    mod = mods("src/kind.rs")
    fn = mod.find_fn("fmt", "Kind", "Display")
    names, _, _ = site_kind_enum(mods)
    out = []
    for n in names:
        v, o = run(mod, fn, [("variant", "Kind", n, []), ("fmt",)], f"Kind::{n}", "Kind")
        if not (v[0] == "variant" and v[2] == "Ok"):
            raise SiteError(f"`Kind::fmt` on Kind::{n} yields {show_val(v)}, expected Ok(())", fn.line)
        out.append((n, o))
    return out, fn.line, "fn <Kind as Display>::fmt"


def site_kind_anything(wrapper):
    """the condition under which KindSetDisjunction / KindSetConjunction print "anything", on every u8"""
    def f(mods):
        mod = kind_module(mods)
        fn = mod.find_fn("fmt", wrapper, "Display")
        b = fn.ast()
        first = b[2][0][2] if b[2] and b[2][0][0] == "expr" else b[3]
        if first is None or first[0] != "if" or first[2][0] == "iflet":
            raise SiteError(f"`{wrapper}::fmt` no longer begins with `if <all kinds> {{ .. }}`", fn.line)
        pts = []
        for s in BYTE_DOMAIN:
            it = Interp(mod)
            me = ("variant", wrapper, wrapper, [("variant", "KindSet", "KindSet", [("int", s, "u8")])])
            try:
                v = it.ev(first[2], [{"self": me, "f": ("fmt",)}], wrapper)
            except EvalPanic as e:
                raise SiteError(f"the first condition of `{wrapper}::fmt` panics on the set {s}: {e}", first[1])
            if v[0] != "bool":
                raise SiteError(f"the first condition of `{wrapper}::fmt` is not a boolean", first[1])
            if v[1]:
                pts.append(s)
        # what is printed then
        it = Interp(mod)
        try:
            it.ev(first[3], [{"self": ("unit",), "f": ("fmt",)}], wrapper)
        except EvalPanic as e:
            raise SiteError(f"the first branch of `{wrapper}::fmt` panics: {e}", first[1])
        return (intervals(pts), it.out), fn.line, f"fn <{wrapper} as Display>::fmt, first condition"
    return f


def site_number_token(mods):
    mod = mods("src/serde/mod.rs")
    if "NUMBER_TOKEN" not in mod.consts:
        raise SiteError("no `const NUMBER_TOKEN` found in src/serde/mod.rs")
    line = mod.consts["NUMBER_TOKEN"][2]
    it = Interp(mod)
    try:
        v = it.const_value(None, "NUMBER_TOKEN", line)
    except EvalPanic as e:
        raise SiteError(f"NUMBER_TOKEN panics: {e}", line)
    if v[0] != "str":
        raise SiteError("NUMBER_TOKEN is not a string", line)
    return v[1], line, "const NUMBER_TOKEN"


# ----------------------------------------------------------------------------- printing (Coq) and readable items

def c_n(n):
    return str(n)


def c_list(xs, sep="; "):
    return "[" + sep.join(xs) + "]"


def c_cps(cps):
    return c_list([c_n(c) for c in cps])


def c_set(iv):
    return c_list([f"({a}, {b})" for a, b in iv])


def c_cval(v):
    if v[0] == "CNum":
        return f"CNum {v[1]}"
    if v[0] == "CBool":
        return "CBool " + ("true" if v[1] else "false")
    if v[0] == "CStr":
        return "CStr " + c_cps(v[1])
    if v[0] == "CCtor":
        return f"CCtor {cstr(v[1])} " + c_list([c_cval(a) for a in v[2]])
    return f"CRec {cstr(v[1])}\n    " + c_list([f"({cstr(f)}, {c_cval(x)})" for f, x in v[2]], ";\n     ")


def u(c):
    return f"U+{c:04X}"


def s_set(iv):
    return [u(a) if a == b else f"{u(a)}..{u(b)}" for a, b in iv] or ["(empty)"]


def s_text(cps):
    return '"' + "".join({0x22: '\\"', 0x5C: "\\\\"}.get(c) or (chr(c) if 32 <= c < 127 else "\\u{%x}" % c) for c in cps) + '"'


def s_cval(v):
    if v[0] == "CNum":
        return str(v[1])
    if v[0] == "CBool":
        return "true" if v[1] else "false"
    if v[0] == "CStr":
        return s_text(v[1])
    if v[0] == "CCtor":
        return v[1] + ("(" + ", ".join(s_cval(a) for a in v[2]) + ")" if v[2] or not v[1] else "")
    return v[1] + " { " + ", ".join(f"{f}: {s_cval(x)}" for f, x in v[2]) + " }"


# each site: id, source file, properties whose check re-establishes it, evaluator, Coq type, Coq term, readable items,
# what the model side is (documentation; the statement is in Proofs/ConstsTie.v)
def _sites():
    parse_props = ["C01", "C07", "C12", "C04"]
    print_props = ["C08", "C04", "C09", "C13"]
    preset_props = ["C04", "C08", "C13"]
    S = []

    def add(**k):
        S.append(k)
    add(id="is_whitespace", file="src/parse/mod.rs", props=parse_props, ev=site_is_whitespace,
        ty="list (N * N)", coq=c_set, items=s_set, thm="C01_whitespace_from_source",
        model="set_of Parser.is_ws char_domain")
    add(id="follows", file="src/parse/mod.rs", props=parse_props, ev=site_follows,
        ty="list (string * list (N * N))", coq=lambda v: c_list([f"({cstr(n)}, {c_set(iv)})" for n, iv in v], ";\n   "),
        items=lambda v: [f"Context::{n} -> " + ", ".join(s_set(iv)) for n, iv in v], thm="C01_follows_from_source",
        model="for each context, set_of (Parser.follows ctx) char_domain")
    add(id="number_automaton", file="src/parse/number.rs", props=["C01", "C02", "C07"], ev=site_number_automaton,
        ty="string * list string * list (string * list (string * list (string * list (N * N))))",
        coq=lambda v: "(" + cstr(v[0]) + ",\n   " + c_list([cstr(a) for a in v[1]]) + ",\n   " + c_list(
            ["(" + cstr(ctx) + ",\n     " + c_list(["(" + cstr(st) + ", " + c_list([f"({cstr(o)}, {c_set(iv)})" for o, iv in outs]) + ")"
                                                    for st, outs in rows], ";\n      ") + ")" for ctx, rows in v[2]], ";\n    ") + ")",
        items=lambda v: [f"initial = {v[0]}", "accepting = " + ", ".join(v[1])] + [
            f"Context::{ctx} {st} {o} -> " + ", ".join(s_set(iv)) for ctx, rows in v[2] for st, outs in rows for o, iv in outs],
        thm="C01_number_automaton_from_source",
        model="for each context and state, the characters of char_domain by outcome of Parser.num_trans; NInit; Parser.num_final")
    add(id="escape_table", file="src/parse/string.rs", props=["C02", "C01", "C12"], ev=site_escape_table,
        ty="list (N * N)", coq=lambda v: c_list([f"({a}, {b})" for a, b in v]),
        items=lambda v: [f"\\{s_text([a])} -> {u(b)}" for a, b in v], thm="C02_escapes_from_source",
        model="the character the parser model returns for \"\\X\" for X in char_domain")
    for _kind, _file in (("null", "src/parse/null.rs"), ("bool", "src/parse/boolean.rs"), ("hex4", "src/parse/string.rs"),
                         ("array_start", "src/parse/array.rs"), ("array_continue", "src/parse/array.rs")):
        add(id=f"leaf_{_kind}", file=_file, props=["C01", "C02", "C05", "C07"], ev=site_leaf(_kind),
            ty="list (list N * list N)", coq=lambda v: c_list([f"({c_cps(w)}, {c_cps(o)})" for w, o in v], ";\n   "),
            items=lambda v: [" ".join("<fails>" if c == STREAM_ERR else u(c) for c in w) + " -> " + (
                f"Ok {o[1]} @{o[2]} pos {o[3]} cm {o[4:]}" if o[0] == 0 else f"Err stream at {o[1]}" if o[0] == 5 else
                f"Err unexpected at {o[1]} " + ("end" if o[2] == 0 else u(o[2] - 1))) for w, o in v],
            thm="C01_leaf_parsers_from_source",
            model="the outcome of the model's leaf function (parse_null, parse_bool, parse_hex4, array_start, array_continue) on the same inputs")
    add(id="leaf_string", file="src/parse/string.rs", props=["C01", "C02", "C05", "C07", "C12"], ev=site_leaf_string,
        ty="list (list N * list N)", coq=lambda v: c_list([f"({c_cps(w)}, {c_cps(o)})" for w, o in v], ";\n   "),
        items=lambda v: [f"options {w[0]}: " + " ".join("<fails>" if c == STREAM_ERR else u(c) for c in w[1:]) + " -> "
                         + " ".join(str(n) for n in o) for w, o in v],
        thm="C12_string_scanner_from_source",
        model="the outcome of Parser.parse_string under the same option record on the same inputs")
    add(id="leaf_number", file="src/parse/number.rs", props=["C01", "C02", "C05", "C07"], ev=site_leaf_number,
        ty="list (list N * list N)", coq=lambda v: c_list([f"({c_cps(w)}, {c_cps(o)})" for w, o in v], ";\n   "),
        items=lambda v: [f"context {w[0]}: " + " ".join("<fails>" if c == STREAM_ERR else u(c) for c in w[1:]) + " -> "
                         + " ".join(str(n) for n in o) for w, o in v],
        thm="C01_number_parser_from_source",
        model="the outcome of Parser.parse_number in the same context on the same inputs")
    for _w in ("start", "continue"):
        add(id=f"leaf_object_{_w}", file="src/parse/object.rs", props=["C01", "C02", "C05", "C07"], ev=site_leaf_object(_w),
            ty="list (list N * list N)", coq=lambda v: c_list([f"({c_cps(w)}, {c_cps(o)})" for w, o in v], ";\n   "),
            items=lambda v: [f"options {w[0]}: " + " ".join("<fails>" if c == STREAM_ERR else u(c) for c in w[1:]) + " -> "
                             + " ".join(str(n) for n in o) for w, o in v],
            thm="C05_object_functions_from_source",
            model="the outcome of Parser.object_start / object_continue under the same option record on the same inputs")
    add(id="leaf_fragment", file="src/parse/value.rs", props=["C01", "C02", "C05", "C07"], ev=site_leaf_fragment,
        ty="list (list N * list N)", coq=lambda v: c_list([f"({c_cps(w)}, {c_cps(o)})" for w, o in v], ";\n   "),
        items=lambda v: [f"context {w[0]} options {w[1]}: " + " ".join("<fails>" if c == STREAM_ERR else u(c) for c in w[2:]) + " -> "
                         + " ".join(str(n) for n in o) for w, o in v],
        thm="C02_fragment_from_source",
        model="the outcome of Parser.parse_fragment in the same context under the same option record on the same inputs")
    add(id="leaf_machine", file="src/parse/value.rs", props=["C01", "C02", "C03", "C05", "C07"], ev=site_leaf_machine,
        ty="list (list N * list N)", coq=lambda v: c_list([f"({c_cps(w)}, {c_cps(o)})" for w, o in v], ";\n   "),
        items=lambda v: [f"options {w[0]}: " + " ".join("<fails>" if c == STREAM_ERR else u(c) for c in w[1:]) + " -> "
                         + " ".join(str(n) for n in o) for w, o in v],
        thm="C03_stack_machine_from_source",
        model="the outcome of Parser.parse_items (the explicit-stack machine of the model) under the same option record on the same documents")
    add(id="is_control", file="src/parse/string.rs", props=parse_props, ev=site_is_control,
        ty="list (N * N)", coq=c_set, items=s_set, thm="C01_control_from_source",
        model="set_of Parser.is_control char_domain")
    add(id="surrogate_tests", file="src/parse/string.rs", props=parse_props, ev=site_surrogate_tests,
        ty="list (list (N * N))", coq=lambda v: c_list([c_set(iv) for iv in v]),
        items=lambda v: [f"test {k + 1} -> " + ", ".join(s_set(iv)) for k, iv in enumerate(v)],
        thm="C01_surrogates_from_source", model="[set_of is_low; set_of is_high; set_of is_high] on unit_domain")
    add(id="surrogate_combine", file="src/parse/string.rs", props=parse_props, ev=site_surrogate_combine,
        ty="list (N * N * N)", coq=lambda v: c_list([f"({h}, {l}, {c})" for h, l, c in v]),
        items=lambda v: [f"({u(h)}, {u(l)}) -> {u(c)}" for h, l, c in v], thm="C01_surrogate_pair_from_source",
        model="the character the parser model returns for \"\\uHHHH\\uLLLL\" on pair_domain")
    for name in ("pretty", "compact", "inline"):
        add(id=f"preset_{name}", file="src/print/mod.rs", props=preset_props, ev=site_preset(name),
            ty="cval", coq=c_cval,
            items=lambda v: [f"{f} = {s_cval(x)}" for f, x in v[2]] if v[0] == "CRec" else [s_cval(v)],
            thm="C13_presets_from_source", model=f"cval_of_popts Printer.{name}")
    add(id="string_literal", file="src/print/mod.rs", props=print_props, ev=site_string_literal,
        ty="list (N * list N) * list (list N * list N)",
        coq=lambda v: "(" + c_list([f"({c}, {c_cps(o)})" for c, o in v[0]], ";\n    ") + ",\n   "
        + c_list([f"({c_cps(s)}, {c_cps(o)})" for s, o in v[1]], ";\n    ") + ")",
        items=lambda v: [f"{u(c)} -> {s_text(o)}" for c, o in v[0]] + [f"sample {s_text(s)} -> {s_text(o)}" for s, o in v[1]],
        thm="C08_escapes_from_source",
        model="the points of char_domain where Printer.string_literal [c] is not \"c\", and the samples")
    add(id="printed_string_size", file="src/print/mod.rs", props=print_props, ev=site_printed_string_size,
        ty="list (N * N) * list (list N * N)",
        coq=lambda v: "(" + c_list([f"({c}, {n})" for c, n in v[0]]) + ",\n   "
        + c_list([f"({c_cps(s)}, {n})" for s, n in v[1]], ";\n    ") + ")",
        items=lambda v: [f"{u(c)} -> {n}" for c, n in v[0]] + [f"sample {s_text(s)} -> {n}" for s, n in v[1]],
        thm="C08_string_size_from_source",
        model="the points of char_domain where Printer.printed_string_size [c] is not 3, and the samples")
    add(id="digit", file="src/print/mod.rs", props=print_props, ev=site_digit,
        ty="list (N * N)", coq=lambda v: c_list([f"({d}, {c})" for d, c in v]),
        items=lambda v: [f"{d} -> {u(c)}" for d, c in v], thm="C08_digit_from_source",
        model="table_of Printer.hex_digit_char nibble_domain")
    add(id="kind_table", file="src/kind.rs", props=["C20"], ev=site_kind_table,
        ty="list (string * string * N)", coq=lambda v: c_list([f"({cstr(a)}, {cstr(b)}, {m})" for a, b, m in v]),
        items=lambda v: [f"entry {k + 1}: {a} ({b}) -> {m:#b}" for k, (a, b, m) in enumerate(v)], thm="C20_masks_from_source",
        model="for each kind of Kind.all_kinds: its Rust names and Kind.mask")
    add(id="kind_enum", file="src/kind.rs", props=["C20"], ev=site_kind_enum,
        ty="list string", coq=lambda v: c_list([cstr(a) for a in v]),
        items=lambda v: [f"variant {k + 1}: {a}" for k, a in enumerate(v)], thm="C20_kinds_from_source",
        model="the Rust names of Kind.all_kinds")
    add(id="kind_all", file="src/kind.rs", props=["C20"], ev=site_kind_all,
        ty="N", coq=c_n, items=lambda v: [f"all = {v:#b}"], thm="C20_all_from_source", model="Kind.ks_all")
    add(id="kind_display", file="src/kind.rs", props=["C20"], ev=site_kind_display,
        ty="list (string * list N)", coq=lambda v: c_list([f"({cstr(a)}, {c_cps(o)})" for a, o in v], ";\n   "),
        items=lambda v: [f"Kind::{a} -> {s_text(o)}" for a, o in v], thm="C20_names_from_source",
        model="for each kind of Kind.all_kinds: Kind.kind_name")
    for w, short in (("KindSetDisjunction", "disjunction"), ("KindSetConjunction", "conjunction")):
        add(id=f"kind_anything_{short}", file="src/kind.rs", props=["C20"], ev=site_kind_anything(w),
            ty="list (N * N) * list N", coq=lambda v: f"({c_set(v[0])}, {c_cps(v[1])})",
            items=lambda v: ["sets -> " + ", ".join(f"{a}" if a == b else f"{a}..{b}" for a, b in v[0]) if v[0] else "sets -> (none)",
                             f"prints -> {s_text(v[1])}"],
            thm="C20_anything_from_source", model="set_of (fun s => s =? Kind.ks_all) byte_domain and \"anything\"")
    add(id="number_token", file="src/serde/mod.rs", props=["C17", "C16"], ev=site_number_token,
        ty="list N", coq=c_cps, items=lambda v: [s_text(v)], thm="C17_number_token_from_source",
        model="SerdeData.number_token, SerdeTyped.num_token")
    return S


SITES = _sites()
SITE_IDS = [s["id"] for s in SITES]
PROPS_CONCERNED = sorted({p for s in SITES for p in s["props"]})

HEADER = """(* Generated/Consts.v -- GENERATED by lib/const_translate.py from the constant tables and character
   classes of the Rust source (src/print/mod.rs, src/parse/mod.rs, src/parse/string.rs, src/kind.rs,
   src/serde/mod.rs); do not edit.  Definitions only.

   Each `src_<site>` is what the translator's evaluation of the named function / constant of the source
   yields, in the neutral data of Base/ConstSyntax.v (character classes: maximal runs of the points of
   `char_domain` on which they hold; functions of a character: the points where they differ from a default).
   Proofs/ConstsTie.v proves `tie_<site> : src_<site> = <the same data computed from the model's function>`.
   `bin/check` of the properties concerned regenerates this text from the tree under check at the start of
   every run and re-establishes those theorems against it; the committed copy is what the pinned tree
   generates (refresh: python3 lib/const_translate.py --write).
   `src_consts_shown` lists, for each site, its file, where it was found, the source line and a readable
   rendering item by item; the translator prints its site diff from it. *)
From Coq Require Import List String NArith.
From JsonSyntax Require Import Base.ConstSyntax.
Import ListNotations.
Local Open Scope string_scope.
Local Open Scope N_scope.
"""


def evaluate(repo):
    """-> {site id: ("ok", value, line, where) | ("err", message, line)}"""
    cache = {}

    def mods(rel):
        if rel not in cache:
            try:
                cache[rel] = Module(f"{repo}/{rel}", rel)
            except SiteError as e:
                cache[rel] = e
        if isinstance(cache[rel], SiteError):
            raise cache[rel]
        return cache[rel]
    res = {}
    for s in SITES:
        try:
            v, line, where = s["ev"](mods)
            res[s["id"]] = ("ok", v, line, where)
        except SiteError as e:
            res[s["id"]] = ("err", str(e), e.line)
        except (TranslateError, RecursionError, IndexError, KeyError, TypeError, ValueError, AttributeError) as e:
            res[s["id"]] = ("err", f"the reader failed on this site ({type(e).__name__}: {e})", None)
    return res


def def_block(s, value):
    return f"Definition src_{s['id']} : {s['ty']} :=\n  {s['coq'](value)}.\n"


def shown_block(entries):
    rows = []
    for sid, file, where, line, items in entries:
        rows.append(f"   ({cstr(sid)}, {cstr(file + ' ' + where)}, {line}%nat,\n    " + c_list([cstr(i) for i in items], ";\n     ") + ")")
    return ("Definition src_consts_shown : list (string * string * nat * list string) :=\n  ["
            + ";\n".join(rows).lstrip() + "].\n")


def generate(res, fallback=None):
    """the generated file; a site that could not be evaluated takes its block from `fallback` (the committed blocks)"""
    out = [HEADER]
    entries = []
    for s in SITES:
        r = res[s["id"]]
        if r[0] == "ok":
            out.append(def_block(s, r[1]))
            entries.append((s["id"], s["file"], r[3], r[2], s["items"](r[1])))
        elif fallback and s["id"] in fallback:
            out.append(fallback[s["id"]])
        else:
            raise SiteError(f"site {s['id']}: {r[1]}")
    out.append(shown_block(entries))
    return "\n".join(out)


def blocks_of(vtext):
    """{site id: text of `Definition src_<id> ..`} of a generated file"""
    out = {}
    for m in re.finditer(r"^Definition src_([A-Za-z0-9_]+) :.*?\.\n(?=\n|\Z)", vtext, re.S | re.M):
        out[m.group(1)] = m.group(0)
    return out


def read_shown(vtext):
    """{site id: (file and place, line, [items])} from `src_consts_shown` of a generated file"""
    k = vtext.find("Definition src_consts_shown")
    if k < 0:
        return {}
    s = vtext[vtext.find(":=", k) + 2:]
    toks, i, n = [], 0, len(s)
    while i < n:
        c = s[i]
        if c == '"':
            j, buf = i + 1, []
            while j < n:
                if s[j] == '"':
                    if s[j + 1:j + 2] == '"':
                        buf.append('"')
                        j += 2
                        continue
                    break
                buf.append(s[j])
                j += 1
            toks.append(("s", "".join(buf)))
            i = j + 1
        elif c.isdigit():
            m = re.match(r"\d+", s[i:])
            toks.append(("n", int(m.group(0))))
            i += len(m.group(0))
        elif c in "[]()":
            toks.append((c, None))
            i += 1
        elif c == "." and toks and toks[-1][0] == "]":
            break
        else:
            i += 1
    out, i = {}, 0
    while i < len(toks):
        if toks[i][0] == "(" and i + 3 < len(toks) and toks[i + 1][0] == "s" and toks[i + 2][0] == "s" and toks[i + 3][0] == "n":
            sid, place, line = toks[i + 1][1], toks[i + 2][1], toks[i + 3][1]
            j = i + 4
            items = []
            while j < len(toks) and toks[j][0] != ")":
                if toks[j][0] == "s":
                    items.append(toks[j][1])
                j += 1
            out[sid] = (place, line, items)
            i = j + 1
        else:
            i += 1
    return out


def site_diff(sid, old, new):
    """readable diff of one site: old/new = (place, line, items) -> lines"""
    lines = []
    if old is None:
        return [f"site {sid} ({new[0]}, line {new[1]}) is not in the committed file"] + [f"  new: {i}" for i in new[2]]
    oi, ni = old[2], new[2]
    if oi == ni:
        return lines
    lines.append(f"site {sid} ({new[0]}, line {new[1]}; committed: line {old[1]}) CHANGED")

    def key(item):
        for sep in (" -> ", " = "):
            if sep in item:
                return item.split(sep, 1)[0]
        return None
    okeys = {key(i): i for i in oi if key(i) is not None}
    nkeys = {key(i): i for i in ni if key(i) is not None}
    gone = [i for i in oi if i not in ni]
    come = [i for i in ni if i not in oi]
    for i in gone:
        k = key(i)
        if k is not None and k in nkeys and nkeys[k] in come:
            lines.append(f"  {k}: model / committed {i.split(k, 1)[1].lstrip(' ->=')}  |  source now {nkeys[k].split(k, 1)[1].lstrip(' ->=')}")
        else:
            lines.append(f"  only in the committed (model) value: {i}")
    for i in come:
        k = key(i)
        if not (k is not None and k in okeys and okeys[k] in gone):
            lines.append(f"  only in the source now            : {i}")
    if not gone and not come:
        lines.append("  same items in another order:")
        lines.append("  committed: " + "; ".join(oi))
        lines.append("  source   : " + "; ".join(ni))
    return lines


# ----------------------------------------------------------------------------- the check hook

def obligation(s):
    return f"tie_{s['id']}"


def hook(pid):
    """the pre_build callable of property `pid` (see lib/vf.py:run_property)"""
    def pre_build(vf):
        return run_hook(vf, pid)
    pre_build.__doc__ = "regenerates coq/theories/Generated/Consts.v from the tree under check (static tie of the constant tables)"
    return pre_build


def run_hook(vf, pid):
    """Regenerates Generated/Consts.v from <repo>/src.  Sites whose generated definition is the committed one
    are re-checked by the ordinary Props build.  When a definition differs, the regenerated file is put in place
    of the committed one while the lock on the Coq tree is held, Proofs/ConstsTie.vo is built against it, and the
    committed text is put back (same protocol as lib/macro_translate.py).  Only the sites that concern `pid`
    are failures of this property; the others are listed in the notes.
    Returns {"failures": [...], "notes": {...}, "details": {...}}."""
    gen_path = f"{vf.COQ}/{GEN_REL}"
    mine = [s for s in SITES if pid in s["props"]]
    notes = {"translator": TRANSLATOR, "source": f"{vf.REPO}/src", "generated": GEN_REL,
             "obligation": ", ".join(f"{obligation(s)} ({s['thm']})" for s in mine) + " (Proofs/ConstsTie.v)",
             "sites_of_this_property": [s["id"] for s in mine]}
    res = {"failures": [], "notes": notes, "details": {}}
    committed = open(gen_path).read() if os.path.exists(gen_path) else None
    ev = evaluate(vf.REPO)
    notes["sites_regenerated"] = [f"{s['id']} ({s['file']} line {ev[s['id']][2]})" for s in SITES if ev[s["id"]][0] == "ok"]
    notes["regenerated"] = all(ev[s["id"]][0] == "ok" for s in mine)
    broken = []                   # detail records of the sites of this property
    for s in mine:
        r = ev[s["id"]]
        if r[0] == "err":
            msg = (f"obligation {obligation(s)} (src_{s['id']} = model; {s['thm']}) cannot be re-established: the translator "
                   f"{TRANSLATOR} cannot evaluate site {s['id']} of {vf.REPO}/{s['file']}: {r[1]}")
            res["failures"].append(msg)
            broken.append({"site": s["id"], "obligation": obligation(s), "theorem_in_props": s["thm"],
                           "translator": TRANSLATOR, "source": f"{vf.REPO}/{s['file']}", "translator_error": r[1],
                           "source_line": r[2]})
    others_err = [s["id"] for s in SITES if s not in mine and ev[s["id"]][0] == "err"]
    if others_err:
        notes["sites_of_other_properties_not_evaluated"] = others_err
    if committed is None:
        try:
            text = generate(ev)
            os.makedirs(os.path.dirname(gen_path), exist_ok=True)
            open(gen_path, "w").write(text)
            notes["identical_to_committed"] = "no committed copy: written"
        except SiteError as e:
            res["failures"].append(f"{TRANSLATOR}: no committed {GEN_REL} and it cannot be generated: {e}")
        if broken:
            res["details"] = {"translator": TRANSLATOR, "obligation": ", ".join(b["obligation"] for b in broken), "sites": broken}
        return res
    old_blocks = blocks_of(committed)
    text = generate(ev, fallback=old_blocks)
    new_blocks = blocks_of(text)
    changed = [s for s in SITES if ev[s["id"]][0] == "ok" and new_blocks.get(s["id"]) != old_blocks.get(s["id"])]
    notes["identical_to_committed"] = committed == text
    if committed != text and not changed:
        notes["identical_to_committed"] = "definitions identical (source lines moved)"
    notes["sites_changed"] = [s["id"] for s in changed]
    if changed:
        old_shown = read_shown(committed)
        new_shown = read_shown(text)
        with vf.Lock("coq"):
            try:
                open(gen_path, "w").write(text)
                vf.ensure_coq_makefile()
                rc, out = vf.sh(["make", "-j16", TIE_TARGET], cwd=vf.COQ, timeout=3000)
            finally:
                open(gen_path, "w").write(committed)
        notes["tie_rebuilt_against_regenerated"] = rc == 0
        if rc != 0:
            k = out.find('File "./theories/Proofs/ConstsTie.v"')
            if k < 0:
                k = out.find('File "./theories/Generated/Consts.v"')
            coq = [ln[:200] for ln in (out[k:] if k >= 0 else out[-1500:]).split("\n")[:6]]
            for s in changed:
                d = site_diff(s["id"], old_shown.get(s["id"]), new_shown.get(s["id"]))
                if s not in mine:
                    continue
                first = next((" ".join(x.split()) for x in d[1:]), "the terms differ")
                head = (f"obligation {obligation(s)} (src_{s['id']} = model; {s['thm']}) no longer checks: what "
                        f"{vf.REPO}/{s['file']} ({ev[s['id']][3]}, line {ev[s['id']][2]}) evaluates to is not what the model "
                        f"computes ({s['model']}); first: {first}")
                print("\n".join([head] + d), file=sys.stderr, flush=True)
                res["failures"].append(head + "\n" + "\n".join(d) + "\n--- coq ---\n" + "\n".join(coq))
                broken.append({"site": s["id"], "obligation": obligation(s), "theorem_in_props": s["thm"],
                               "source": f"{vf.REPO}/{s['file']}", "where": ev[s["id"]][3], "source_line": ev[s["id"]][2],
                               "model_side": s["model"],
                               "site_diff": d or ["(the readable renderings agree; the terms differ -- see coq_output)"],
                               "coq_output": coq})
            notes["sites_of_other_properties_changed"] = [s["id"] for s in changed if s not in mine]
    if not changed:
        # the definitions are the committed ones: the tie file is (re)built against them here, since the Props file
        # of a property whose sites are stated under another property does not depend on it
        ok, out = vf.coq_make([TIE_TARGET])
        notes["tie_checked_against_committed"] = ok
        if not ok:
            k = out.find('File "./theories/')
            res["failures"].append(f"Proofs/ConstsTie.vo does not build against the committed {GEN_REL}:\n" + out[k if k >= 0 else -1500:][:1500])
    if broken:
        res["details"] = {"translator": TRANSLATOR, "obligation": ", ".join(b["obligation"] for b in broken), "sites": broken}
    return res


def main():
    a = sys.argv[1:]
    root = os.environ.get("VERIF_ROOT") or os.path.dirname(os.path.dirname(os.path.abspath(__file__)))
    repo = os.environ.get("VERIF_REPO", "/repo")
    if "--repo" in a:
        repo = a[a.index("--repo") + 1]
    ev = evaluate(repo)
    bad = [(sid, r) for sid, r in ev.items() if r[0] == "err"]
    for sid, r in bad:
        print(f"const_translate: site {sid}: {r[1]}", file=sys.stderr)
    gen = f"{root}/coq/{GEN_REL}"
    committed = open(gen).read() if os.path.exists(gen) else None
    if "--diff" in a:
        old = read_shown(committed or "")
        try:
            new = read_shown(generate(ev, fallback=blocks_of(committed or "")))
        except SiteError as e:
            print(f"const_translate: {e}", file=sys.stderr)
            return 2
        d = []
        for s in SITES:
            if s["id"] in new:
                d += site_diff(s["id"], old.get(s["id"]), new[s["id"]])
        print("\n".join(d) if d else f"no difference ({len(new)} sites)")
        return 1 if d or bad else 0
    if bad:
        return 2
    text = generate(ev)
    if "--write" in a:
        os.makedirs(os.path.dirname(gen), exist_ok=True)
        open(gen, "w").write(text)
        print(f"{gen}: {len(SITES)} sites")
    else:
        sys.stdout.write(text)
    return 0


if __name__ == "__main__":
    sys.exit(main())
