"""Framework shared by every check: builds, proof audit, correspondence run,
shrinking, classification, evidence.  See DESIGN.md sections 3-5."""
import fcntl
import hashlib
import json
import os
import re
import shutil
import subprocess
import sys
import time
from concurrent.futures import ThreadPoolExecutor

ROOT = os.environ.get("VERIF_ROOT") or os.path.dirname(os.path.dirname(os.path.abspath(__file__)))
COQ = f"{ROOT}/coq"
BUILD = f"{ROOT}/build"
# VERIF_REPO (default /repo): the json-syntax tree the harness is built against.  A value
# other than /repo is only used to try the checks on a scratch worktree carrying a seeded
# change without touching /repo; it gets its own copy of the harness crate and target dir.
REPO = os.path.abspath(os.environ.get("VERIF_REPO", "/repo"))
ALT = REPO != "/repo"
ALT_TAG = hashlib.sha1(REPO.encode()).hexdigest()[:8] if ALT else ""
HARNESS_DIR = f"{BUILD}/alt-{ALT_TAG}/harness" if ALT else f"{ROOT}/harness"
CARGO_TARGET = f"{BUILD}/alt-{ALT_TAG}/cargo-target" if ALT else f"{BUILD}/cargo-target"
HARNESS_BIN = f"{CARGO_TARGET}/release/harness"
# the deep-nesting child of C03 compiled WITHOUT optimisation (harness-deep/); the harness finds it here
DEEP_DIR = f"{BUILD}/alt-{ALT_TAG}/harness-deep" if ALT else f"{ROOT}/harness-deep"
DEEP_TARGET = f"{BUILD}/alt-{ALT_TAG}/deep-target" if ALT else f"{BUILD}/deep-target"
DEEP_BIN = f"{DEEP_TARGET}/debug/harness-deep"
os.environ["VERIF_DEEP_BIN"] = DEEP_BIN
# VERIF_OUT (default the framework root): where evidence/ and replays/ are written
OUT = os.environ.get("VERIF_OUT") or ROOT
DRIVER_BIN = f"{BUILD}/ocaml/driver"
GUARD = "json_syntax_verif"

FLOCQ_AXIOMS = [
    "ClassicalDedekindReals.sig_forall_dec",
    "ClassicalDedekindReals.sig_not_dec",
    "FunctionalExtensionality.functional_extensionality_dep",
    "Classical_Prop.classic",
]

FORBIDDEN = re.compile(
    r"\b(Admitted|admit|Axiom|Axioms|Parameter|Parameters|Conjecture|Conjectures|Abort All|"
    r"Unset\s+Guard\s+Checking|Unset\s+Positivity\s+Checking|Unset\s+Universe\s+Checking|"
    r"bypass_check|Admit\s+Obligations|type-in-type|impredicative-set|native_compute)\b")

BASE_TRUSTED = [
    "Coq 8.16.1 kernel (coqc); vm_compute used inside proofs over finite domains; native_compute not used",
    "extraction: Require Extraction + ExtrOcamlBasic only (bool, option, unit, list, prod, sumbool, sumor -> OCaml types); no Extract Constant; N/positive/Z/nat stay extracted Coq datatypes; OCaml 4.13.1 ocamlfind ocamlopt",
    "ocaml/glue.ml + ocaml/fam_*.ml + ocaml/driver.ml (line parsing/printing glue around the extracted model)",
    "harness/ (Rust: generators, canonical printers of the implementation's observables), lib/vf.py (diff, shrinker, classification), cargo/rustc",
    "hand-written Gallina model tied to /repo by the correspondence check (impl = model on every explored case), not by a translator",
]


def log(*a):
    print(*a, file=sys.stderr, flush=True)


def sh(cmd, timeout=None, cwd=None, env=None, check=False):
    e = dict(os.environ)
    if env:
        e.update(env)
    p = subprocess.run(cmd, shell=isinstance(cmd, str), cwd=cwd, env=e, timeout=timeout,
                       stdout=subprocess.PIPE, stderr=subprocess.STDOUT, text=True)
    if check and p.returncode != 0:
        raise RuntimeError(f"command failed ({p.returncode}): {cmd}\n{p.stdout[-4000:]}")
    return p.returncode, p.stdout


class Lock:
    def __init__(self, name):
        os.makedirs(BUILD, exist_ok=True)
        self.path = f"{BUILD}/.{name}.lock"

    def __enter__(self):
        self.f = open(self.path, "w")
        fcntl.flock(self.f, fcntl.LOCK_EX)

    def __exit__(self, *a):
        fcntl.flock(self.f, fcntl.LOCK_UN)
        self.f.close()


# --------------------------------------------------------------------------- builds

def coq_files():
    out = []
    for d, _, fs in os.walk(f"{COQ}/theories"):
        for f in fs:
            if f.endswith(".v"):
                out.append(os.path.relpath(os.path.join(d, f), COQ))
    return sorted(out)


def ensure_coq_makefile():
    files = [f for f in coq_files() if not f.startswith("theories/Extract/")]
    head = ["-Q theories JsonSyntax",
            "-arg -w -arg -notation-overridden,-deprecated-hint-without-locality,-deprecated-instance-without-locality"]
    want = "\n".join(head + files) + "\n"
    cur = open(f"{COQ}/_CoqProject").read() if os.path.exists(f"{COQ}/_CoqProject") else ""
    if cur != want or not os.path.exists(f"{COQ}/Makefile"):
        open(f"{COQ}/_CoqProject", "w").write(want)
        sh("coq_makefile -f _CoqProject -o Makefile", cwd=COQ, check=True)


def coq_make(targets, timeout=3000):
    """Full .vo build of the given targets (relative to coq/).  Returns (ok, output)."""
    with Lock("coq"):
        ensure_coq_makefile()
        rc, out = sh(["make", "-j16"] + targets, cwd=COQ, timeout=timeout)
    return rc == 0, out


def model_targets():
    return [f + "o" for f in coq_files()
            if f.startswith(("theories/Base/", "theories/Model/", "theories/Spec/"))]


def newest(paths):
    return max((os.path.getmtime(p) for p in paths if os.path.exists(p)), default=0)


def ensure_driver():
    """(Re)builds the extracted OCaml driver when a model .vo or the glue changed."""
    with Lock("ocaml"):
        srcs = [f"{COQ}/{t}" for t in model_targets()]
        srcs += [f"{ROOT}/ocaml/{f}" for f in os.listdir(f"{ROOT}/ocaml")]
        srcs.append(f"{COQ}/theories/Extract/Extract.v")
        if os.path.exists(DRIVER_BIN) and os.path.getmtime(DRIVER_BIN) >= newest(srcs):
            return True, "up to date"
        rc, out = sh([f"{ROOT}/ocaml/build.sh"], timeout=900, env={"VERIF_ROOT": ROOT})
        return rc == 0, out


def ensure_harness():
    """cargo build of the harness against /repo's working tree, hooks enabled."""
    with Lock("cargo"):
        env = {"CARGO_NET_OFFLINE": "true", "RUSTFLAGS": f"--cfg {GUARD}", "CARGO_TARGET_DIR": CARGO_TARGET}
        if ALT:
            os.makedirs(HARNESS_DIR, exist_ok=True)
            sh(["rsync", "-a", "--delete", "--exclude", ".cargo", f"{ROOT}/harness/", HARNESS_DIR + "/"], check=True)
            ct = open(f"{HARNESS_DIR}/Cargo.toml").read().replace('path = "/repo"', f'path = "{REPO}"')
            open(f"{HARNESS_DIR}/Cargo.toml", "w").write(ct)
        rc, out = sh("cargo build --release --offline 2>&1", cwd=HARNESS_DIR, env=env, timeout=1800)
        if rc == 0:
            if ALT:
                os.makedirs(DEEP_DIR, exist_ok=True)
                sh(["rsync", "-a", "--delete", f"{ROOT}/harness-deep/", DEEP_DIR + "/"], check=True)
                ct = open(f"{DEEP_DIR}/Cargo.toml").read().replace('path = "/repo"', f'path = "{REPO}"')
                open(f"{DEEP_DIR}/Cargo.toml", "w").write(ct)
                ms = open(f"{DEEP_DIR}/src/main.rs").read().replace('"../../harness/src/deep.rs"', f'"{ROOT}/harness/src/deep.rs"')
                open(f"{DEEP_DIR}/src/main.rs", "w").write(ms)
            env2 = {"CARGO_NET_OFFLINE": "true", "CARGO_TARGET_DIR": DEEP_TARGET}
            rc, out2 = sh("cargo build --offline 2>&1", cwd=DEEP_DIR, env=env2, timeout=1800)
            out += out2
        return rc == 0, out


# --------------------------------------------------------------------------- proof audit

def audit_sources():
    """No Admitted/admit/Axiom/... anywhere in the development."""
    bad = []
    for f in coq_files():
        txt = open(f"{COQ}/{f}").read()
        txt = strip_comments(txt)
        for m in FORBIDDEN.finditer(txt):
            line = txt.count("\n", 0, m.start()) + 1
            bad.append(f"{f}:{line}: {m.group(0)}")
        # top-level Variable/Hypothesis outside a section
        depth = 0
        for i, ln in enumerate(txt.split("\n"), 1):
            s = ln.strip()
            if re.match(r"^Section\b", s):
                depth += 1
            elif re.match(r"^End\b", s) and depth > 0:
                depth -= 1
            elif depth == 0 and re.match(r"^(Variable|Variables|Hypothesis|Hypotheses|Context)\b", s):
                bad.append(f"{f}:{i}: {s.split()[0]} outside a section")
    return bad


def strip_comments(txt):
    out = []
    depth = 0
    i = 0
    n = len(txt)
    while i < n:
        if txt.startswith("(*", i):
            depth += 1
            i += 2
        elif txt.startswith("*)", i) and depth > 0:
            depth -= 1
            i += 2
        else:
            if depth == 0:
                out.append(txt[i])
            elif txt[i] == "\n":
                out.append("\n")
            i += 1
    return "".join(out)


def coqchk_props(pid, allow_axioms):
    """Independent re-check of Props/<pid>.vo and everything it depends on (thorough runs).
    Returns (failures, summary)."""
    with Lock("coq"):
        rc, out = sh(["coqchk", "-o", "-silent", "-Q", "theories", "JsonSyntax", f"JsonSyntax.Props.{pid}"],
                     cwd=COQ, timeout=3000)
    fails = []
    if rc != 0:
        return [f"coqchk failed on Props/{pid}.vo:\n" + out[-2000:]], "failed"
    sect = {}
    cur = None
    for ln in out.split("\n"):
        m = re.match(r"^\* ([^:]+):\s*(.*)$", ln)
        if m:
            cur = m.group(1).strip()
            sect[cur] = [m.group(2).strip()] if m.group(2).strip() else []
        elif cur and ln.strip():
            sect[cur].append(ln.strip())
    axioms = [a for a in sect.get("Axioms", []) if a != "<none>"]
    extra = [a for a in axioms if not any(a.endswith(x) or x in a for x in allow_axioms)]
    if extra:
        fails.append(f"coqchk: Props/{pid}.vo relies on axioms outside the allowlist: {extra}")
    for k in ("Constants/Inductives relying on type-in-type", "Constants/Inductives relying on unsafe (co)fixpoints",
              "Inductives whose positivity is assumed"):
        v = [x for x in sect.get(k, []) if x != "<none>"]
        if v:
            fails.append(f"coqchk: {k}: {v}")
    return fails, f"coqchk -o ok; axioms: {axioms or 'none'}"


def check_props_file(pid, allow_axioms):
    """Compiles Props/<pid>.v (after its dependency closure) and reads Print Assumptions.
    Returns dict(obligations, discharged, theorems, failures, output)."""
    rel = f"theories/Props/{pid}.v"
    res = {"obligations": 0, "discharged": 0, "theorems": [], "failures": [], "axioms": {}}
    src = strip_comments(open(f"{COQ}/{rel}").read())
    thms = re.findall(r"^\s*(?:Theorem|Lemma|Corollary|Example|Fact|Proposition)\s+([A-Za-z0-9_']+)", src, re.M)
    printed = re.findall(r"^\s*Print Assumptions\s+([A-Za-z0-9_'.]+)\s*\.", src, re.M)
    res["theorems"] = thms
    res["obligations"] = len(thms)
    # property files contain only statements closed by `exact`
    for body in re.findall(r"\bProof\.(.*?)\b(?:Qed|Defined)\.", src, re.S):
        b = body.strip()
        if not (re.fullmatch(r"exact\b.*\.", b, re.S) or re.fullmatch(r"vm_compute\.(\s*(repeat|split|reflexivity|eexists|exact I|[\[\];|.]))*", b)):
            res["failures"].append(f"{rel}: proof body is not a single `exact`: {b[:60]!r}")
    missing = [t for t in thms if t not in printed]
    if missing:
        res["failures"].append(f"{rel}: no Print Assumptions for {missing}")
    ok, out = coq_make([rel + "o"])
    if not ok:
        res["failures"].append("coq build failed for " + rel + "o:\n" + out[-3000:])
        res["output"] = out
        return res
    os.makedirs(f"{BUILD}/tmp", exist_ok=True)
    with Lock("coq"):
        rc, out = sh(["coqc", "-Q", "theories", "JsonSyntax", "-w", "none",
                      "-o", f"{BUILD}/tmp/{pid}.vo", rel], cwd=COQ, timeout=1800)
    res["output"] = out
    if rc != 0:
        res["failures"].append("coqc failed on " + rel + ":\n" + out[-3000:])
        return res
    blocks = parse_assumptions(out)
    if len(blocks) != len(printed):
        res["failures"].append(f"{rel}: {len(printed)} Print Assumptions but {len(blocks)} answers")
        return res
    for name, axs in zip(printed, blocks):
        res["axioms"][name] = axs
        extra = [a for a in axs if a not in allow_axioms]
        if extra:
            res["failures"].append(f"{name} depends on axioms outside the allowlist: {extra}")
        elif name in thms:
            res["discharged"] += 1
    return res


def parse_assumptions(out):
    """Splits coqc output into one axiom list per Print Assumptions."""
    blocks = []
    cur = None
    for ln in out.split("\n"):
        if ln.startswith("Closed under the global context"):
            if cur is not None:
                blocks.append(cur)
                cur = None
            blocks.append([])
        elif ln.startswith("Axioms:"):
            if cur is not None:
                blocks.append(cur)
            cur = []
        elif cur is not None:
            m = re.match(r"^([A-Za-z_][A-Za-z0-9_'.]*)\s*:", ln)
            if m:
                cur.append(m.group(1))
            elif ln.strip() == "" :
                pass
    if cur is not None:
        blocks.append(cur)
    return blocks


# --------------------------------------------------------------------------- correspondence

def run_shard(fam, tier, seed, shard, nshards, outdir, extra):
    cmd = [HARNESS_BIN, fam, "gen", "--tier", tier, "--seed", str(seed), "--shard", str(shard),
           "--nshards", str(nshards), "--out", outdir] + extra
    p = subprocess.run(cmd, stdout=subprocess.PIPE, stderr=subprocess.STDOUT, text=True)
    if p.returncode != 0:
        return shard, ("CRASH", f"harness exited {p.returncode}: {p.stdout[-1500:]}")
    with open(f"{outdir}/cases.{shard}.txt", "rb") as fin, open(f"{outdir}/model.{shard}.txt", "wb") as fout:
        q = subprocess.run([DRIVER_BIN, fam], stdin=fin, stdout=fout, stderr=subprocess.PIPE,
                           preexec_fn=unlimit_stack)
    if q.returncode != 0:
        return shard, f"driver exited {q.returncode}: {q.stderr[-2000:]}"
    return shard, None


def unlimit_stack():
    import resource
    try:
        resource.setrlimit(resource.RLIMIT_STACK, (resource.RLIM_INFINITY, resource.RLIM_INFINITY))
    except Exception:
        try:
            soft, hard = resource.getrlimit(resource.RLIMIT_STACK)
            resource.setrlimit(resource.RLIMIT_STACK, (hard, hard))
        except Exception:
            pass


def impl_survives(fam, cases):
    p = subprocess.run([HARNESS_BIN, fam, "eval"], input="\n".join(cases) + "\n",
                       stdout=subprocess.PIPE, stderr=subprocess.PIPE, text=True)
    return p.returncode == 0


def locate_crash(fam, tier, seed, shard, nshards, outdir, extra):
    """Regenerates the shard's case lines without running them, then bisects for a case on
    which the implementation process dies."""
    cmd = [HARNESS_BIN, fam, "gen", "--tier", tier, "--seed", str(seed), "--shard", str(shard),
           "--nshards", str(nshards), "--out", outdir, "--cases-only"] + extra
    p = subprocess.run(cmd, stdout=subprocess.PIPE, stderr=subprocess.STDOUT, text=True)
    if p.returncode != 0:
        return None
    cases = open(f"{outdir}/cases.{shard}.txt", encoding="utf-8", errors="replace").read().split("\n")
    cases = [c for c in cases if c]
    if impl_survives(fam, cases):
        return None
    lo, hi = 0, len(cases)          # invariant: cases[lo:hi] crashes
    while hi - lo > 1:
        mid = (lo + hi) // 2
        if not impl_survives(fam, cases[lo:mid]):
            hi = mid
        elif not impl_survives(fam, cases[mid:hi]):
            lo = mid
        else:
            break                   # needs both halves (state-dependent): give the window
    return cases[lo] if hi - lo == 1 else None


def eval_impl(fam, cases):
    p = subprocess.run([HARNESS_BIN, fam, "eval"], input="\n".join(cases) + "\n",
                       stdout=subprocess.PIPE, stderr=subprocess.PIPE, text=True)
    return p.stdout.split("\n")[:len(cases)]


def eval_model(fam, cases):
    p = subprocess.run([DRIVER_BIN, fam], input="\n".join(cases) + "\n", stdout=subprocess.PIPE,
                       stderr=subprocess.PIPE, text=True, preexec_fn=unlimit_stack)
    rows = p.stdout.split("\n")[:len(cases)]
    return [tuple((r.split("\t") + [""])[:2]) for r in rows]


def shrink(fam, case, differs, budget=400, extra_cands=None):
    """Greedy delta-debugging on the tokens of a case line: deletes elements of
    comma-separated tokens and characters of script tokens while impl and model
    still differ (as judged by `differs(case, impl, model, spec)`).
    `extra_cands(case) -> [case]` (cfg key `shrink_candidates`) lets a family propose
    structural reductions of its own case syntax; they are tried first."""
    best = case
    evals = 0
    progress = True
    t0 = time.time()
    # a candidate of a very long case costs what the case costs: fewer of them per round, two minutes in all
    while progress and evals < budget and time.time() - t0 < 120:
        progress = False
        toks = best.split(" ")
        cands = []
        for i, t in enumerate(toks):
            if i == 0:
                continue
            if "," in t:
                el = t.split(",")
                for chunk in (max(1, len(el) // 2), max(1, len(el) // 4), 1):
                    for j in range(0, len(el), chunk):
                        ne = el[:j] + el[j + chunk:]
                        cands.append(" ".join(toks[:i] + [",".join(ne) if ne else "-"] + toks[i + 1:]))
            elif re.fullmatch(r"[a-z]{2,}", t) and i > 1:
                for j in range(len(t)):
                    cands.append(" ".join(toks[:i] + [t[:j] + t[j + 1:]] + toks[i + 1:]))
        if extra_cands:
            cands = list(extra_cands(best)) + cands
        cands = [c for c in dict.fromkeys(cands) if c != best][:200 if len(best) < 20000 else 16]
        if not cands:
            break
        im = eval_impl(fam, cands)
        mo = eval_model(fam, cands)
        evals += len(cands)
        for c, a, (m, s) in zip(cands, im, mo):
            if not a or not m or a.startswith("BADCASE") or m.startswith("BADCASE"):   # "" = a side produced no line
                continue
            if differs(c, a, m, s) and len(c) < len(best):
                best = c
                progress = True
                break
    return best


def default_differs(case, impl, model, spec):
    return impl != model


class Result:
    def __init__(self):
        self.evaluations = 0
        self.distinct = set()
        self.mismatches = []      # (case, impl, model, spec)
        self.spec_mismatches = []
        self.samples = []
        self.stats = {}
        self.errors = []
        self.crashes = []
        self.crash_case = None
        self.crash_msg = ""
        self.xpairs = []          # (case, model, spec) sample for the in-Coq cross-check
        self.xrich = 0
        self.nontrivial_seen = 0


def correspondence(fam, tier, seed, nshards, nontrivial, extra=None, classify=None, sample_every=997, spec_matches=None):
    """Runs harness and driver shards in parallel and compares line by line."""
    res = Result()
    outdir = f"{BUILD}/run/{fam}{ALT_TAG}"
    shutil.rmtree(outdir, ignore_errors=True)
    os.makedirs(outdir)
    with ThreadPoolExecutor(max_workers=min(16, nshards)) as ex:
        futs = [ex.submit(run_shard, fam, tier, seed, i, nshards, outdir, extra or []) for i in range(nshards)]
        for f in futs:
            shard, err = f.result()
            if isinstance(err, tuple):
                res.crashes.append((shard, err[1]))
            elif err:
                res.errors.append(f"shard {shard}: {err}")
    if res.crashes:
        # the implementation aborted (abort, stack overflow, non-unwinding panic): find the case
        shard, msg = res.crashes[0]
        # the panic hook of the harness records the case under evaluation at every panic: when
        # the process aborted (panic while unwinding) its last line is the case that did it
        cand = None
        try:
            lines = open(f"{outdir}/panic.{shard}.txt", encoding="utf-8", errors="replace").read().split("\n")
            lines = [l for l in lines if l]
            if lines and not impl_survives(fam, [lines[-1]]):
                cand = lines[-1]
        except OSError:
            pass
        res.crash_case = cand or locate_crash(fam, tier, seed, shard, nshards, outdir, extra or [])
        res.crash_msg = msg
        if not res.crash_case:
            # the generator itself died (it explores implementation states): the cases that were
            # under evaluation at each recorded panic are evaluated one by one against the model
            cands = []
            for i in range(nshards):
                try:
                    for l in open(f"{outdir}/panic.{i}.txt", encoding="utf-8", errors="replace").read().split("\n"):
                        if l and l not in cands:
                            cands.append(l)
                except OSError:
                    pass
            cands.sort(key=len)
            for c in cands[:60]:
                if not impl_survives(fam, [c]):
                    res.crash_case = c
                    break
                im = eval_impl(fam, [c])[0]
                mo, sp = eval_model(fam, [c])[0]
                if im != mo:
                    res.mismatches.append((c, im, mo, sp))
        return res
    if res.errors:
        return res
    for i in range(nshards):
        with open(f"{outdir}/cases.{i}.txt", encoding="utf-8", errors="replace") as fc, \
                open(f"{outdir}/impl.{i}.txt", encoding="utf-8", errors="replace") as fi, \
                open(f"{outdir}/model.{i}.txt", encoding="utf-8", errors="replace") as fm:
            for case, impl, model in zip(fc, fi, fm):
                case = case.rstrip("\n")
                impl = impl.rstrip("\n")
                model = model.rstrip("\n")
                spec = ""
                if "\t" in model:
                    model, spec = model.split("\t", 1)
                res.evaluations += 1
                op = case.split(" ", 1)[0]
                nt = nontrivial(case, impl)
                if nt:
                    res.nontrivial_seen += 1
                # sample for the in-Coq cross-check: every 499th case and the first 40; the first 10 of every kind of
                # case line; every 61st non-trivial case (at most 500) - a run that is mostly rejected inputs, or whose
                # kinds come in blocks, would otherwise offer hardly any rich case
                rich = (nt and res.nontrivial_seen % 61 == 5 and res.xrich < 500) or res.stats.get(op, 0) < 10
                if (res.evaluations % 499 == 7 or (i == 0 and res.evaluations <= 40) or rich) and len(res.xpairs) < 2000:
                    res.xpairs.append((case, model, spec))
                    res.xrich += 1 if rich else 0
                res.stats[op] = res.stats.get(op, 0) + 1
                if impl != model:
                    if len(res.mismatches) < 2000:
                        res.mismatches.append((case, impl, model, spec))
                elif spec and (not spec_matches(model, spec) if spec_matches else spec != model):
                    if len(res.spec_mismatches) < 200:
                        res.spec_mismatches.append((case, impl, model, spec))
                if nt:
                    res.distinct.add(hashlib.blake2b(case.encode(), digest_size=8).digest())
                if res.evaluations % sample_every == 1 and len(res.samples) < 12:
                    res.samples.append({"case": case, "impl": impl, "model": model, **({"spec": spec} if spec else {})})
        # line counts must agree
        n = [sum(1 for _ in open(f"{outdir}/{k}.{i}.txt", "rb")) for k in ("cases", "impl", "model")]
        if len(set(n)) != 1:
            res.errors.append(f"shard {i}: line counts differ {n}")
    return res


# --------------------------------------------------------------------------- known findings

def load_known():
    p = f"{ROOT}/known_findings.json"
    if not os.path.exists(p):
        return {"findings": [], "fixed": []}
    return json.load(open(p))


# --------------------------------------------------------------------------- reporting

def write_replay(pid, payload):
    os.makedirs(f"{OUT}/replays", exist_ok=True)
    h = hashlib.sha1(json.dumps(payload, sort_keys=True).encode()).hexdigest()[:10]
    path = f"{OUT}/replays/{pid}-{h}.json"
    json.dump(payload, open(path, "w"), indent=1)
    return path


def write_evidence(pid, tier, seed, coverage, assumptions, wall, violations, level="proof"):
    os.makedirs(f"{OUT}/evidence", exist_ok=True)
    ev = {
        "property_id": pid,
        "tier": tier,
        "seed": seed,
        "level": level,
        "coverage": coverage,
        "assumptions": assumptions,
        "wall_s": round(wall, 2),
        "violations": violations,
    }
    tmp = f"{OUT}/evidence/{pid}.json.tmp"
    json.dump(ev, open(tmp, "w"), indent=1)
    os.replace(tmp, f"{OUT}/evidence/{pid}.json")


def run_property(cfg, tier, seed):
    """Generic check: proof audit + correspondence + classification + evidence.
    cfg keys: id, family, allow_axioms, nshards{tier}, nontrivial(case, impl), rule,
    trusted (extra trusted-base lines), assumptions, known(case, impl, model, spec) -> finding id|None,
    differs (optional), extra_args(tier) (optional), post(res) (optional extra checks),
    shrink_candidates(case) -> [case] and shrink_budget (optional, see `shrink`),
    pre_build(vf) -> {"failures": [text], "notes": {..}, "details": {..}} (optional; one callable or a list of them,
    one per translator -- lib/macro_translate.py, lib/const_translate.py): runs before the
    Props build (e.g. regenerates a generated .v file from the tree under check); its failures are
    broken proof obligations, its notes go to the evidence (coverage.pre_build), its details to the replay."""
    t0 = time.time()
    pid = cfg["id"]
    fam = cfg["family"]
    violations = []          # (kind, text, replay payload)
    known_lines = []

    # 0. property-specific preparation of the build
    pre = {"failures": [], "notes": {}, "details": {}}
    hooks = cfg.get("pre_build") or []
    hooks = [hooks] if callable(hooks) else list(hooks)
    runs = []
    for hook in hooks:
        try:
            runs.append(hook(sys.modules[__name__]))
        except Exception as e:      # a hook never crashes the check: it is a broken obligation
            runs.append({"failures": [f"pre_build hook of {pid} failed: {e!r}"], "notes": {"error": repr(e)}, "details": {}})
    if len(runs) == 1:
        pre = runs[0]
    elif runs:                      # several translators: one entry each
        pre = {"failures": [f for r in runs for f in r["failures"]], "notes": {"hooks": [r.get("notes", {}) for r in runs]},
               "details": {"hooks": [r["details"] for r in runs if r.get("details")]} if any(r.get("details") for r in runs) else {}}

    # 1. proofs
    bad = audit_sources()
    proof = check_props_file(pid, cfg.get("allow_axioms", []))
    proof_failures = [f"forbidden construct: {b}" for b in bad] + pre["failures"] + proof["failures"]
    coqchk_summary = "not run (quick tier)"
    if tier == "thorough" and not proof["failures"]:
        cf, coqchk_summary = coqchk_props(pid, cfg.get("allow_axioms", []))
        proof_failures += cf

    # 2. builds
    ok_m, out_m = coq_make(model_targets())
    ok_d, out_d = (False, "model build failed") if not ok_m else ensure_driver()
    ok_h, out_h = ensure_harness()
    res = None
    if not ok_m or not ok_d:
        proof_failures.append("model/extraction build failed:\n" + (out_m if not ok_m else out_d)[-3000:])
    if not ok_h:
        violations.append(("build", "the harness no longer builds against /repo (API or behaviour change)",
                           {"kind": "harness-build", "output": out_h[-4000:]}))
    # 3. correspondence
    if ok_m and ok_d and ok_h:
        nsh = cfg.get("nshards", {}).get(tier, 1)
        extra = cfg["extra_args"](tier) if "extra_args" in cfg else []
        res = correspondence(fam, tier, seed, nsh, cfg["nontrivial"], extra=extra, spec_matches=cfg.get("spec_matches"))
        for e in res.errors[:1]:
            violations.append(("run", e, {"kind": "run-error", "error": e, "all_errors": res.errors[:16]}))
        if res.crashes:
            if res.crash_case:
                mo, sp = eval_model(fam, [res.crash_case])[0]
                violations.append(("corr", f"the implementation process dies on case: {res.crash_case[:200]}",
                                   {"kind": "correspondence", "property": pid, "disagreement": "impl-aborts",
                                    "case": res.crash_case, "impl": "ABORT: " + res.crash_msg[-300:], "model": mo, "spec": sp,
                                    "seed": seed, "tier": tier,
                                    "replay": f"echo '{res.crash_case}' | {HARNESS_BIN} {fam} eval"}))
            elif not res.mismatches:
                violations.append(("run", "the harness process died: " + res.crash_msg[-300:],
                                   {"kind": "run-error", "error": res.crash_msg}))
        differs = cfg.get("differs", default_differs)
        known = cfg.get("known")
        kf = load_known()
        listed = {f["id"]: f for f in kf.get("findings", []) if f.get("property") == pid}
        seen_known = {}
        fresh = []
        for (case, impl, model, spec) in res.mismatches:
            fid = known(case, impl, model, spec) if known else None
            if fid and fid in listed:
                seen_known.setdefault(fid, (case, impl, model, spec))
            else:
                fresh.append((case, impl, model, spec, "impl-vs-model"))
        for (case, impl, model, spec) in res.spec_mismatches:
            fid = known(case, impl, model, spec) if known else None
            if fid and fid in listed:
                seen_known.setdefault(fid, (case, impl, model, spec))
            else:
                fresh.append((case, impl, model, spec, "model-vs-spec"))
        for fid, (case, impl, model, spec) in seen_known.items():
            known_lines.append(f"KNOWN-FINDING: property={pid} {fid}: {listed[fid]['what']} (e.g. case `{case[:120]}`)")
        if fresh:
            case, impl, model, spec, kind = fresh[0]
            small = case
            try:
                if kind == "impl-vs-model":
                    small = shrink(fam, case, differs, budget=cfg.get("shrink_budget", 400),
                                   extra_cands=cfg.get("shrink_candidates"))
            except Exception as e:  # shrinking is best effort
                log("shrink failed:", e)
            im = eval_impl(fam, [small])[0] if small != case else impl
            mo, sp = eval_model(fam, [small])[0] if small != case else (model, spec)
            payload = {
                "kind": "correspondence", "property": pid, "disagreement": kind,
                "case": small, "impl": im, "model": mo, "spec": sp,
                "original_case": case, "seed": seed, "tier": tier,
                "other_disagreeing_cases": [c[0] for c in fresh[1:20]],
                "count_disagreements": len(fresh),
                "replay": f"echo '{small}' | {HARNESS_BIN} {fam} eval ; echo '{small}' | {DRIVER_BIN} {fam}",
                "meaning": "the implementation's observable differs from the proved model (hence from the specification) on this input",
            }
            violations.append(("corr", f"{len(fresh)} disagreeing case(s); minimal: {small[:200]}", payload))
        # in-Coq cross-check of extraction + glue on a sample (families that have a term builder)
        xinfo = {"checked": 0}
        if cfg.get("xcheck") and not res.crashes and not res.errors:
            import coqx
            n, bad, err = coqx.crosscheck(cfg["xcheck"], res.xpairs, COQ, f"{BUILD}/tmp", limit=200 if tier == "quick" else 1000)
            xinfo = {"checked": n, "disagreements": len(bad), "error": err}
            if err:
                proof_failures.append(err)
            elif bad:
                violations.append(("xcheck", f"extracted driver and in-Coq evaluation disagree on {len(bad)} of {n} sampled cases "
                                             f"(extraction or glue fault, not an implementation fault); first: {bad[0]['case'][:160]}",
                                   {"kind": "xcheck", "property": pid, "disagreements": bad[:10]}))
        if "post" in cfg:
            for v in cfg["post"](res, tier, seed):
                violations.append(v)

    # proof failures: search done above (the correspondence run); if nothing concrete was found say so
    if proof_failures:
        concrete = any(v[0] == "corr" for v in violations)
        payload = {"kind": "proof", "property": pid, "no_longer_checks": proof_failures,
                   "theorems": proof["theorems"], "concrete_input_found": concrete}
        if pre.get("details"):
            payload["pre_build"] = pre["details"]
        violations.insert(0, ("proof", "; ".join(x.split("\n")[0] for x in proof_failures)[:300], payload))

    # 4. evidence
    cov = {
        "obligations": proof["obligations"],
        "discharged": proof["discharged"] if not proof_failures else min(proof["discharged"], max(0, proof["obligations"] - 1)),
        "checker_cmd": f"make -C {COQ} theories/Props/{pid}.vo && coqc -Q theories JsonSyntax theories/Props/{pid}.v (Print Assumptions under every theorem); source audit for Admitted/Axiom/...",
        "trusted_base": BASE_TRUSTED + cfg.get("trusted", []),
        "theorems": proof["theorems"],
        "axioms_per_theorem": {k: v for k, v in proof["axioms"].items() if v},
        "evaluations": res.evaluations if res else 0,
        "distinct_nontrivial": len(res.distinct) if res else 0,
        "traces_validated_against_impl": res.evaluations if res else 0,
        "rule": cfg.get("rule", ""),
        "samples": (res.samples if res else []) + [{"theorem": t} for t in proof["theorems"][:6]],
        "case_distribution": res.stats if res else {},
        "exhaustive": bool(cfg.get("exhaustive", False)),
        "known_findings_seen": known_lines,
        "coqchk": coqchk_summary,
        "in_coq_crosscheck": xinfo if res else {"checked": 0},
    }
    if "pre_build" in cfg:
        cov["pre_build"] = pre.get("notes", {})
    write_evidence(pid, tier, seed, cov, cfg.get("assumptions", []), time.time() - t0, len(violations), cfg.get("level", "proof"))

    for ln in known_lines:
        print(ln)
    if violations:
        for kind, text, payload in violations:
            path = write_replay(pid, payload)
            suffix = ""
            if kind in ("proof", "build", "run", "xcheck") and not any(v[0] == "corr" for v in violations):
                suffix = " no-failing-input-found"
            print(f"DETAIL property={pid} [{kind}] {text}")
            print(f"VIOLATION property={pid} replay={path}{suffix}")
        return 1
    print(f"PASS property={pid} tier={tier} seed={seed} theorems={proof['discharged']}/{proof['obligations']} "
          f"cases={res.evaluations if res else 0} distinct_nontrivial={len(res.distinct) if res else 0} "
          f"wall={time.time() - t0:.1f}s")
    # the case files of a passing run are not needed again (disk space); a failing run keeps them
    shutil.rmtree(f"{BUILD}/run/{cfg['family']}{ALT_TAG}", ignore_errors=True)
    return 0
