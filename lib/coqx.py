"""In-Coq cross-check of the extraction and of the OCaml glue (DESIGN.md section 4, step 4).

A sample of the case lines of a run is turned into Gallina terms, evaluated by `coqc` with
`vm_compute` on the model's own definitions (no extraction, no OCaml), the printed normal
forms are parsed back and rendered in the canonical line format by a third, independent
printer (this file), and compared with what the extracted driver answered for the same
cases.  A difference means the extraction, the glue in ocaml/, or this printer is wrong -
never the implementation - and is reported as such."""
import os
import re
import subprocess

HEADER = """From JsonSyntax Require Import Base.Prelude Base.Value Base.Unicode Base.Source
  Model.Parser Model.EntryPoints Model.Printer Model.Unordered Model.Compare Model.CodeMapNav Model.Kind Spec.Layout Spec.Minimal.
From JsonSyntax Require Model.Macro Model.MacroFloat Spec.MacroDoc.
Import ListNotations.
Open Scope N_scope.
Set Printing Depth 1000000.
Set Printing Width 1000000.
"""


# ------------------------------------------------------------------ case line -> Gallina term
def cps_term(tok):
    if tok == "-":
        return "[]"
    return "[" + "; ".join(str(int(h, 16)) for h in tok.split(",")) + "]"


def value_term(toks):
    """tokens of common::enc_value -> (Gallina term, remaining tokens)"""
    t = toks[0]
    if t == "n":
        return "VNull", toks[1:]
    if t == "t":
        return "(VBool true)", toks[1:]
    if t == "f":
        return "(VBool false)", toks[1:]
    if t.startswith("#"):
        return f"(VNum {cps_term(t[1:])})", toks[1:]
    if t.startswith("$"):
        return f"(VStr {cps_term(t[1:])})", toks[1:]
    if t == "[":
        items = []
        r = toks[1:]
        while r[0] != "]":
            x, r = value_term(r)
            items.append(x)
        return "(VArr [" + "; ".join(items) + "])", r[1:]
    if t == "{":
        ents = []
        r = toks[1:]
        while r[0] != "}":
            k = r[0]
            x, r = value_term(r[1:])
            ents.append(f"({cps_term(k[1:])}, {x})")
        return "(VObj [" + "; ".join(ents) + "])", r[1:]
    raise ValueError("value token " + t)


def opts_term(o):
    o = int(o)
    return "{| trunc := %s; inval := %s |}" % ("true" if o & 1 else "false", "true" if o & 2 else "false")


def limit_term(s):
    k, rest = s[0], s[1:]
    if k == "N":
        return "None"
    if k == "A":
        return "(Some LAlways)"
    if k == "I":
        return f"(Some (LItem {int(rest)}))"
    if k == "W":
        return f"(Some (LWidth {int(rest)}))"
    if k == "B":
        i, w = rest.split(",")
        return f"(Some (LItemOrWidth {int(i)} {int(w)}))"
    raise ValueError("limit " + s)


def popts_term(h):
    ind = ("ISpaces " if h[0][0] == "S" else "ITabs ") + str(int(h[0][1:]))
    a = [int(x) for x in h[1:6]]
    o = [int(x) for x in h[7:14]]
    return ("{| p_indent := %s; array_begin := %d; array_end := %d; array_empty := %d; array_before_comma := %d; "
            "array_after_comma := %d; array_limit := %s; object_begin := %d; object_end := %d; object_empty := %d; "
            "object_before_comma := %d; object_after_comma := %d; object_before_colon := %d; object_after_colon := %d; "
            "object_limit := %s |}" % (ind, *a, limit_term(h[6]), *o, limit_term(h[14])))


# ------------------------------------------------------------------ C19: documents of json! literals
def _c19_doc_term(t, i, env):
    """tokens of a `m <document>` case line -> (Gallina term of type MacroDoc.doc, next index)"""
    h = t[i]
    if h == "n":
        return "MacroDoc.DNull", i + 1
    if h in ("t", "f"):
        return "(MacroDoc.DBool %s)" % ("true" if h == "t" else "false"), i + 1
    if h[0] == "i":
        num, _, ty = h[1:].partition(":")
        sfx = "(Some Macro.T%s)" % ty.upper() if ty else "None"
        return "(MacroDoc.DInt %s (%d)%%Z)" % (sfx, int(num)), i + 1
    if h[0] == "d":
        lit, _, want = h[2:].partition("=")
        sfx = "None"
        if lit.endswith(("f32", "f64")):
            sfx, lit = "(Some Macro.FT%s)" % lit[-2:], lit[:-3]
        cps = lambda t: "[" + "; ".join(str(ord(c)) for c in t) + "]"
        return "(MacroDoc.DFloat %s %s %s %s)" % ("true" if h[1] == "-" else "false", cps(lit), sfx, cps(want)), i + 1
    if h[0] == "$":
        return f"(MacroDoc.DStr {cps_term(h[1:])})", i + 1
    if h == "[":
        items, i = [], i + 1
        while not t[i].startswith("]"):
            x, i = _c19_doc_term(t, i, env)
            items.append(x)
        return "(MacroDoc.DArr [%s] %s)" % ("; ".join(items), "true" if t[i] == "]+" else "false"), i + 1
    if h == "{":
        items, i = [], i + 1
        while not t[i].startswith("}"):
            k = t[i]
            key = cps_term(k[1:])
            name = "[" + "; ".join(str(ord(c)) for c in "K" + "".join("_" + x for x in (k[1:].split(",") if k[1:] != "-" else []))) + "]"
            kf = {"k": "MacroDoc.KLit", "p": "MacroDoc.KParen", "v": f"(MacroDoc.KVar {name})", "q": f"(MacroDoc.KParenVar {name})"}[k[0]]
            if k[0] in "vq":
                env[name] = key
            x, i = _c19_doc_term(t, i + 1, env)
            items.append(f"({kf}, {key}, {x})")
        return "(MacroDoc.DObj [%s] %s)" % ("; ".join(items), "true" if t[i] == "}+" else "false"), i + 1
    raise ValueError("document token " + h)


def _c19_case_term(t):
    env = {}
    d, end = _c19_doc_term(t, 1, env)
    if end != len(t):
        raise ValueError("trailing tokens")
    e = "None"
    for name, key in env.items():
        e = f"if str_eqb x {name} then Some {key} else {e}"
    return (f"let d := {d} in (Macro.expand MacroFloat.lexical_float (fun x : list N => {e}) 3000%nat (MacroDoc.tokens d), "
            f"parse_str (MacroDoc.text d), MacroDoc.value_of d, MacroDoc.text d)")


def _c19_model_line(ast):
    m, p, v, t = ast[1]
    ms = value_line(m[2][0]) if m[1] == "Some" else "NONE"
    ps = value_line(p[2][0][1][0]) if p[1] == "Ok" else "ERR"
    eq = "1" if (ms == ps and ms != "NONE") else "0"
    vs, ts = value_line(v), cps_tok(t)
    return f"M={ms} P={ps} EQ={eq} T={ts}", f"M={vs} P={vs} EQ=1 T={ts}"


def case_term(fam, case):
    t = case.split(" ")
    if fam == "c19" and t[0] == "m":
        return _c19_case_term(t)
    if fam == "c12":
        if t[0] == "s":
            return f"parse_str_with {opts_term(t[1])} {cps_term(t[2])}"
        if t[0] == "b":
            return f"parse_slice_with {opts_term(t[1])} {cps_term(t[2])}"
    if fam == "c01":
        if t[0] == "s":
            cs = cps_term(t[2])
            return (f"(true, [parse_str {cs}; parse_str_with strict {cs}; parse_utf8 {cs}; parse_utf8_with strict {cs}; "
                    f"parse_infallible_utf8 {cs}; parse_utf8_infallible_with strict {cs}; parse (chars {cs}); "
                    f"parse_with strict (chars {cs}); parse (chars {cs}); parse_with strict (chars {cs})], from_str {cs}, "
                    f"[parse_slice (utf8_encode_all {cs}); parse_slice_with strict (utf8_encode_all {cs})])")
        if t[0] == "b":
            bs = cps_term(t[2])
            return f"(false, [parse_slice {bs}; parse_slice_with strict {bs}], from_str [], [parse_slice {bs}])"
    if fam == "c04" and t[0] == "p":
        bar = t.index("|")
        v, _ = value_term(t[bar + 1:])
        o = popts_term(t[1:bar])
        return (f"match print_with {o} {v} with Some t => match parse_str t with Ok (w, _) => "
                f"if value_eqb w {v} then 1 else 0 | _ => 2 end | None => 3 end")
    if fam == "c20":
        k = {"0": "KNull", "1": "KBoolean", "2": "KNumber", "3": "KString", "4": "KArray", "5": "KObject"}
        op = t[0]
        try:
            if op in ("or", "ora"):
                return f"(0, ks_or {int(t[1])} {int(t[2])})"
            if op in ("and", "anda"):
                return f"(0, ks_and {int(t[1])} {int(t[2])})"
            if op in ("ork", "orak"):
                return f"(0, ks_or_kind {int(t[1])} {k[t[2]]})"
            if op in ("andk", "andak"):
                return f"(0, ks_and_kind {int(t[1])} {k[t[2]]})"
            if op == "kor":
                return f"(0, kind_or_ks {k[t[1]]} {int(t[2])})"
            if op == "kand":
                return f"(0, kind_and_ks {k[t[1]]} {int(t[2])})"
            if op == "len":
                return f"(0, ks_len {int(t[1])})"
            if op in ("iter", "intoiter", "refiter"):
                return f"(1, ks_iter {int(t[1])})"
            if op == "iterrev":
                return f"(1, ks_iter_rev {int(t[1])})"
            if op == "display":
                return f"(2, ks_display {int(t[1])})"
            if op == "disj":
                return f"(2, ks_disjunction {int(t[1])})"
            if op == "conj":
                return f"(2, ks_conjunction {int(t[1])})"
        except (KeyError, ValueError, IndexError):
            return None
        return None
    if fam in ("c05", "c07"):
        # both entry points on a text, one on bytes; tagged so that model_line knows which
        if t[0] == "s":
            return (f"(true, parse_str_with {opts_term(t[1])} {cps_term(t[2])}, "
                    f"parse_slice_with {opts_term(t[1])} (utf8_encode_all {cps_term(t[2])}))")
        if t[0] == "b":
            r = f"parse_slice_with {opts_term(t[1])} {cps_term(t[2])}"
            return f"(false, {r}, {r})"
    if fam == "c14" and t[0] == "m":
        # m | a | b | c : comparison observables of (a, b) are functions of these four
        parts = " ".join(t[1:]).split(" | ")
        parts = [x.strip("| ").strip() for x in parts if x.strip("| ").strip()]
        if len(parts) >= 2:
            a, _ = value_term(parts[0].split(" "))
            b, _ = value_term(parts[1].split(" "))
            return f"(value_cmp {a} {b}, value_eq {a} {b}, hash_stream {a})"
    if fam == "c13" and t[0] == "p":
        bar = t.index("|")
        v, _ = value_term(t[bar + 1:])
        o = popts_term(t[1:bar])
        return f"(print_with {o} {v}, layout_text {o} {v})"
    if fam == "c15" and t[0] == "u":
        a, r = value_term(t[2:])
        b, _ = value_term(r[1:])
        return f"(unordered_eq {a} {b}, unordered_eq {b} {a}, unordered_eq {a} {a}, value_eqb {a} {b})"
    if fam == "c08" and t[0] == "c":
        v, _ = value_term(t[2:])
        return f"(compact_print {v}, to_string {v}, ser_min {v})"
    return None


# ------------------------------------------------------------------ Coq normal form -> python
TOK = re.compile(r"\s*([A-Za-z_][A-Za-z0-9_']*|\d+|[()\[\];,])")


def parse_term(s):
    toks = TOK.findall(s)
    pos = [0]

    def atom():
        t = toks[pos[0]]
        pos[0] += 1
        if t == "(":
            xs = [expr()]
            while toks[pos[0]] == ",":
                pos[0] += 1
                xs.append(expr())
            assert toks[pos[0]] == ")"
            pos[0] += 1
            return xs[0] if len(xs) == 1 else ("tuple", xs)
        if t == "[":
            xs = []
            if toks[pos[0]] != "]":
                xs.append(expr())
                while toks[pos[0]] == ";":
                    pos[0] += 1
                    xs.append(expr())
            assert toks[pos[0]] == "]"
            pos[0] += 1
            return ("list", xs)
        if t.isdigit():
            return int(t)
        return ("app", t, [])

    def expr():
        head = atom()
        args = []
        while pos[0] < len(toks) and toks[pos[0]] not in (")", "]", ";", ","):
            args.append(atom())
        if args:
            assert isinstance(head, tuple) and head[0] == "app"
            return ("app", head[1], args)
        return head

    e = expr()
    assert pos[0] == len(toks), "trailing tokens"
    return e


def cps_tok(l):
    assert l[0] == "list"
    return "-" if not l[1] else ",".join("%x" % c for c in l[1])


def value_line(v):
    assert v[0] == "app"
    c, a = v[1], v[2]
    if c == "VNull":
        return "n"
    if c == "VBool":
        return "t" if a[0][1] == "true" else "f"
    if c == "VNum":
        return "#" + cps_tok(a[0])
    if c == "VStr":
        return "$" + cps_tok(a[0])
    if c == "VArr":
        return "[" + "".join(" " + value_line(x) for x in a[0][1]) + " ]"
    if c == "VObj":
        return "{" + "".join(" $" + cps_tok(e[1][0]) + " " + value_line(e[1][1]) for e in a[0][1]) + " }"
    raise ValueError(c)


def codemap_line(cm):
    if not cm[1]:
        return "-"
    return " ".join("%d-%d-%d" % tuple(e[1]) for e in cm[1])


def error_line(e):
    c, a = e[1], e[2]
    if c == "EStream":
        return "ST %d" % a[0]
    if c == "EUnexpected":
        ch = a[1]
        return "U %d %s" % (a[0], "-" if ch[1] == "None" else "%x" % ch[2][0])
    if c == "EInvalidCodePoint":
        return "IC %d %d %x" % tuple(a)
    if c == "EMissingLow":
        return "ML %d %d %x" % tuple(a)
    if c == "EInvalidLow":
        return "IL %d %d %x %x" % tuple(a)
    if c == "EInvalidUtf8":
        return "IU %d" % a[0]
    raise ValueError(c)


def opt_text(o):
    return "MODEL-PANIC" if o[1] == "None" else cps_tok(o[2][0])


def model_line(fam, ast):
    """(model column, spec column or None) in the format of ocaml/fam_*.ml"""
    if fam == "c19":
        return _c19_model_line(ast)
    if fam == "c12":
        if ast[1] == "Ok":
            v, cm = ast[2][0][1]
            return "OK " + value_line(v) + " | " + codemap_line(cm) + " EP=1", None
        if ast[1] == "Err":
            return "ERR " + error_line(ast[2][0]) + " EP=1", None
        return "MODEL-" + ast[1], None
    if fam == "c01":
        text, many, fs, sl = ast[1]

        def vd(r):
            return {"Ok": "A", "Err": "R", "Panic": "PANIC", "OutOfFuel": "FUEL"}[r[1]]
        if text[1] == "true":
            return "".join(vd(r) for r in many[1]) + vd(fs) + "".join(vd(r) for r in sl[1]), None
        return "".join(vd(r) for r in many[1]), None
    if fam == "c04":
        return {0: "RT=0 PRESET=1", 1: "RT=1 PRESET=1", 2: "RT=2 PRESET=1", 3: "MODEL-PANIC"}[ast], None
    if fam == "c20":
        tag, x = ast[1]
        if tag == 0:
            return str(x), "*"
        if tag == 1:
            ks = ["KNull", "KBoolean", "KNumber", "KString", "KArray", "KObject"]
            return ("-" if not x[1] else ",".join(str(ks.index(e[1])) for e in x[1])), "*"
        return cps_tok(x), "*"
    if fam in ("c05", "c07"):
        text, a, b = ast[1]

        def count(v):
            c, args = v[1], v[2]
            if c == "VArr":
                return 1 + sum(count(x) for x in args[0][1])
            if c == "VObj":
                return 1 + sum(2 + count(e[1][1]) for e in args[0][1])
            return 1

        def kinds(v):
            c, args = v[1], v[2]
            if c == "VArr":
                return "v" + "".join(kinds(x) for x in args[0][1])
            if c == "VObj":
                return "v" + "".join("ek" + kinds(e[1][1]) for e in args[0][1])
            return "v"

        def show(r):
            if fam == "c05":
                if r[1] == "Ok":
                    v, cm = r[2][0][1]
                    return "OK %s T%d K%s" % (codemap_line(cm), count(v), kinds(v))
                return "ERR" if r[1] == "Err" else "MODEL-" + r[1]
            if r[1] == "Ok":
                return "OK"
            if r[1] == "Err":
                e = r[2][0]
                offs = e[2]
                if e[1] in ("EStream", "EUnexpected", "EInvalidUtf8"):
                    ps = "P%d S%d-%d" % (offs[0], offs[0], offs[0])
                else:
                    ps = "P%d S%d-%d" % (offs[0], offs[0], offs[1])
                return "ERR " + error_line(e) + " " + ps
            return "MODEL-" + r[1]
        if text[1] == "true":
            return show(a) + " ; " + show(b) + " EP=1", None
        return show(a) + " EP=1", None
    if fam == "c13":
        p, l = ast[1]
        return opt_text(p), cps_tok(l)
    if fam == "c15":
        ab, ba, aa, eq = [("1" if x[1] == "true" else "0") for x in ast[1]]
        return f"ab={ab} ba={ba} asu={ab} wrap={ab} refl={aa} eq={eq}", None
    if fam == "c08":
        a, b, s = ast[1]
        a, b, s = opt_text(a), opt_text(b), cps_tok(s)
        return f"{a} {b} {b} {b}", f"{s} {s} {s} {s}"
    raise ValueError(fam)


# ------------------------------------------------------------------ driver
def crosscheck(fam, pairs, coq_dir, tmp_dir, limit=200, timeout=900):
    """pairs: list of (case line, model line as printed by the extracted driver, spec or '').
    Returns (checked, mismatches[list of dict], error or None)."""
    sel = []
    for case, model, spec in pairs:
        if len(case) > 6000:
            continue
        try:
            t = case_term(fam, case)
        except Exception:
            t = None
        if t is not None:
            sel.append((case, model, spec, t))
        if len(sel) >= limit:
            break
    if not sel:
        return 0, [], None
    os.makedirs(tmp_dir, exist_ok=True)
    src = os.path.join(tmp_dir, f"xcheck_{fam}.v")
    with open(src, "w") as f:
        f.write(HEADER)
        for _, _, _, t in sel:
            f.write(f"Eval vm_compute in ({t}).\n")
    p = subprocess.run(["coqc", "-noglob", "-Q", "theories", "JsonSyntax", "-w", "none", "-o",
                        os.path.join(tmp_dir, f"xcheck_{fam}.vo"), src],
                       cwd=coq_dir, stdout=subprocess.PIPE, stderr=subprocess.STDOUT, text=True, timeout=timeout)
    if p.returncode != 0:
        return 0, [], "coqc failed on the cross-check file: " + p.stdout[-1500:]
    # answers: "     = <term>\n     : <type>"
    answers = []
    cur = None
    for ln in p.stdout.split("\n"):
        if ln.startswith("     = "):
            cur = [ln[7:]]
        elif ln.startswith("     : ") and cur is not None:
            answers.append(" ".join(cur))
            cur = None
        elif cur is not None:
            cur.append(ln)
    if len(answers) != len(sel):
        return 0, [], f"cross-check: {len(sel)} terms but {len(answers)} answers"
    bad = []
    for (case, model, spec, _), ans in zip(sel, answers):
        try:
            m, s = model_line(fam, parse_term(ans))
        except Exception as e:  # the third printer failed: report, do not guess
            bad.append({"case": case, "driver": model, "coq": "UNPARSED " + repr(e) + " " + ans[:200]})
            continue
        if m != model or (s is not None and s != "*" and s != spec):
            bad.append({"case": case, "driver": model + ("\t" + spec if spec else ""),
                        "coq": m + ("\t" + s if s is not None else "")})
    return len(sel), bad, None
