"""In-Coq cross-check of the extraction and of the OCaml glue (DESIGN.md section 4, step 4).

A sample of the case lines of a run is turned into Gallina terms, evaluated by `coqc` with
`vm_compute` on the model's own definitions (no extraction, no OCaml), the printed normal
forms are parsed back and rendered in the canonical line format by a third, independent
printer (this file), and compared with what the extracted driver answered for the same
cases.  A difference means the extraction, the glue in ocaml/, or this printer is wrong -
never the implementation - and is reported as such."""
import os
import re
import subprocess

HEADER = """From JsonSyntax Require Import Base.Prelude Base.Value Base.Unicode Base.Source
  Model.Parser Model.EntryPoints Model.Printer Model.Unordered Model.Compare Model.CodeMapNav Model.Kind Spec.Layout Spec.Minimal.
From JsonSyntax Require Model.Macro Model.MacroFloat Spec.MacroDoc.
Import ListNotations.
Open Scope N_scope.
Set Printing Depth 1000000.
Set Printing Width 1000000.
"""


# Helper definitions written into the generated file (after HEADER) for the families that walk a parsed
# document or replay an operation history.  They only call the model's (and the list specification's) own
# functions; what they add is the iteration the OCaml glue does in ocaml/fam_parse.ml (lookups),
# ocaml/fam_nav.ml (walk) and ocaml/fam_object.ml (apply / fold) - written a second time, in Gallina.
PRE_OBJ = """From JsonSyntax Require Import Model.Object Spec.Multimap.
From JsonSyntax Require Model.Canon.
(* the distinct keys in order of first occurrence, then one key that does not occur *)
Definition xc_keys (es : list entry) : list key :=
  fold_left (fun acc e => if existsb (str_eqb (fst e)) acc then acc else acc ++ [fst e]) es []
    ++ [[1; 97; 98; 115; 101; 110; 116]].
Definition xc_all {A} (l : list (option A)) : option (list A) :=
  fold_right (fun x acc => match x, acc with Some a, Some r => Some (a :: r) | _, _ => None end) (Some []) l.
"""

PRE_C02 = PRE_OBJ + """(* every object of a value, depth first, in document order *)
Fixpoint xc_objs (v : value) : list (list entry) :=
  match v with
  | VArr a => flat_map xc_objs a
  | VObj es => es :: flat_map (fun e => xc_objs (snd e)) es
  | _ => []
  end.
Definition xc_pushed (es : list entry) : option obj :=
  fold_left (fun o e => match o with
                        | Some o' => option_map fst (Object.push o' (fst e) (snd e))
                        | None => None
                        end) es (Some empty_obj).
Definition xc_lookups (es : list entry) :=
  match xc_pushed es with
  | None => None
  | Some o => Some (map (fun k => (k, Object.contains_key o k, Object.index_of o k, Object.redundant_index_of o k,
                                   Object.indexes_of o k, Object.get o k, Object.get_entries o k, Object.get_unique o k))
                        (xc_keys es))
  end.
Definition xc_c02 (r : outcome perr (value * list cme)) :=
  (r, match r with Ok (v, _) => map xc_lookups (xc_objs v) | _ => [] end).
"""

PRE_C11 = PRE_OBJ + """Inductive xc_ftag := XV (k : kind) | XE | XK.
Definition xc_tag (f : fragment) : xc_ftag :=
  match f with FValue v => XV (kind_of v) | FEntry _ _ => XE | FKey _ => XK end.
Definition xc_is_container (f : fragment) : bool :=
  match f with FValue (VArr _) | FValue (VObj _) => true | _ => false end.
Inductive xc_nav :=
| XA (off : nat) (items : list nat)
| XO (off : nat) (ents : list (nat * nat * nat)) (keys : list (key * list (nat * nat * nat * nat))).
Definition xc_me (m : mapped_entry) := (me_offset m, me_key_offset m, me_value_offset m).
(* the walk of ocaml/fam_nav.ml: containers in document order, each with the offsets its own mapped
   iterator yields; children are visited at those offsets.  None = a model panic (or fuel, never reached:
   the fuel is the fragment count + 1, more than the depth) *)
Fixpoint xc_walk (fuel : nat) (cm : list cme) (v : value) (off : nat) : option (list xc_nav) :=
  match fuel with
  | O => None
  | S f =>
      match v with
      | VArr a =>
          match array_iter_mapped cm off a with
          | None => None
          | Some items =>
              match xc_all (map (fun p => xc_walk f cm (snd p) (fst p)) items) with
              | None => None
              | Some l => Some (XA off (map fst items) :: concat l)
              end
          end
      | VObj es =>
          match object_iter_mapped cm off es, Object.from_iter es with
          | Some ents, Some o =>
              match xc_all (map (fun k => option_map (fun l => (k, map (fun p => (fst p, me_offset (snd p), me_key_offset (snd p),
                                                                                  me_value_offset (snd p))) l))
                                                     (get_mapped_entries_with_index cm off o k)) (xc_keys es)),
                    xc_all (map (fun m => xc_walk f cm (snd (me_entry m)) (me_value_offset m)) ents) with
              | Some ks, Some l => Some (XO off (map xc_me ents) ks :: concat l)
              | _, _ => None
              end
          | _, _ => None
          end
      | _ => Some []
      end
  end.
Definition xc_doc (o : opts) (cs : list N) :=
  match parse_str_with o cs with
  | Ok (v, cm) =>
      (0, Some (value_volume v, count_where xc_is_container v, map xc_tag (traverse v),
                map (fun i => match get_fragment v i with inl f => inl (xc_tag f) | inr r => inr r end)
                    (seq 0 (length (traverse v) + 3)),
                xc_walk (S (fragment_count v)) cm v 0%nat))
  | Err _ => (1, None)
  | _ => (2, None)
  end.
Definition xc_conv (t : jty) (cs : list N) :=
  match parse_str cs with
  | Ok (v, cm) => (0, try_from_json_at t cm v 0%nat)
  | Err _ => (1, None)
  | _ => (2, None)
  end.
"""

PRE_HIST = PRE_OBJ + """(* results of the operations of a history, one type so that a history is a list of steps *)
Inductive xc_res :=
| RBool (b : bool) | ROptEntry (e : option entry) | ROptList (l : option (list entry)) | RList (l : list entry)
| RUniq (u : unique entry) | RMUniq (u : m_unique entry)
| ROk | RNone | RVal (v : value) | RDup (a b : entry) | RBad.
Definition xc_lift {S A} (f : A -> xc_res) (r : option (S * A)) : option (S * xc_res) :=
  match r with Some (o, a) => Some (o, f a) | None => None end.
Definition xc_ok {S} (r : option S) : option (S * xc_res) := option_map (fun o => (o, ROk)) r.
Definition xc_pure {S A} (f : A -> xc_res) (r : S * A) : option (S * xc_res) := Some (fst r, f (snd r)).
(* None = a model panic somewhere in the history *)
Fixpoint xc_run {S} (steps : list (S -> option (S * xc_res))) (o : S) : option (S * list xc_res) :=
  match steps with
  | [] => Some (o, [])
  | s :: r =>
      match s o with
      | None => None
      | Some (o', x) => match xc_run r o' with None => None | Some (o'', l) => Some (o'', x :: l) end
      end
  end.
Definition xc_queries (o : obj) (keys : list key) :=
  map (fun k => (Object.contains_key o k, Object.index_of o k, Object.redundant_index_of o k, Object.indexes_of o k,
                 Object.get o k, Object.get_entries o k, Object.get_with_index o k, Object.get_entries_with_index o k,
                 Object.get_unique o k, Object.get_unique_entry o k)) keys.
Definition xc_mqueries (es : list entry) (keys : list key) :=
  map (fun k => (m_contains es k, m_index_of es k, m_redundant_index_of es k, m_indexes_of es k, m_get es k,
                 m_get_entries es k, m_get_entries_with_index es k, m_get_unique es k, m_get_unique_entry es k)) keys.
Definition xc_c06 (steps : list (obj -> option (obj * xc_res))) (msteps : list (list entry -> option (list entry * xc_res)))
           (keys : list key) :=
  (match xc_run steps empty_obj with
   | None => None
   | Some (o, rs) => Some (rs, entries o, xc_queries o keys, Object.dump o)
   end,
   match xc_run msteps [] with
   | None => None
   | Some (es, rs) => Some (rs, es, xc_mqueries es keys)
   end).
Definition xc_c14h (s1 s2 : list (obj -> option (obj * xc_res))) :=
  match xc_run s1 empty_obj, xc_run s2 empty_obj with
  | Some (o1, _), Some (o2, _) =>
      let e1 := entries o1 in let e2 := entries o2 in
      Some (e1, e2, entries_cmp e1 e2, value_eqb (VObj e1) (VObj e2), value_cmp (VObj e1) (VObj e2),
            value_eq (VObj e1) (VObj e2), Object.dump o1, Object.dump o2)
  | _, _ => None
  end.
"""

PRELUDE = {"c02": PRE_C02, "c11": PRE_C11, "c06": PRE_HIST, "c14": PRE_HIST}
# number of coqc processes the sample of a family is spread over
XSHARDS = {"c02": 4, "c11": 4, "c06": 8, "c14": 4}


# families whose sample is balanced over classes of cases instead of taken in run order: most of a parse run is
# rejected inputs, so that the first 200 offered cases would hardly ever reach the lookups / the walk
def _first_token(case, model):
    return case.split(" ", 1)[0]


def _parse_class(case, model):
    if model.startswith("OK") or model.startswith("V="):
        return "accepted-with-objects" if ("<" in model or " O" in model) else "accepted"
    return case.split(" ", 1)[0] + "-other"


STRATIFIED = {"c02": _parse_class, "c11": _parse_class, "c14": _first_token}


# ------------------------------------------------------------------ case line -> Gallina term
def cps_term(tok):
    if tok == "-":
        return "[]"
    return "[" + "; ".join(str(int(h, 16)) for h in tok.split(",")) + "]"


def value_term(toks):
    """tokens of common::enc_value -> (Gallina term, remaining tokens)"""
    t = toks[0]
    if t == "n":
        return "VNull", toks[1:]
    if t == "t":
        return "(VBool true)", toks[1:]
    if t == "f":
        return "(VBool false)", toks[1:]
    if t.startswith("#"):
        return f"(VNum {cps_term(t[1:])})", toks[1:]
    if t.startswith("$"):
        return f"(VStr {cps_term(t[1:])})", toks[1:]
    if t == "[":
        items = []
        r = toks[1:]
        while r[0] != "]":
            x, r = value_term(r)
            items.append(x)
        return "(VArr [" + "; ".join(items) + "])", r[1:]
    if t == "{":
        ents = []
        r = toks[1:]
        while r[0] != "}":
            k = r[0]
            x, r = value_term(r[1:])
            ents.append(f"({cps_term(k[1:])}, {x})")
        return "(VObj [" + "; ".join(ents) + "])", r[1:]
    raise ValueError("value token " + t)


def opts_term(o):
    o = int(o)
    return "{| trunc := %s; inval := %s |}" % ("true" if o & 1 else "false", "true" if o & 2 else "false")


def limit_term(s):
    k, rest = s[0], s[1:]
    if k == "N":
        return "None"
    if k == "A":
        return "(Some LAlways)"
    if k == "I":
        return f"(Some (LItem {int(rest)}))"
    if k == "W":
        return f"(Some (LWidth {int(rest)}))"
    if k == "B":
        i, w = rest.split(",")
        return f"(Some (LItemOrWidth {int(i)} {int(w)}))"
    raise ValueError("limit " + s)


def popts_term(h):
    ind = ("ISpaces " if h[0][0] == "S" else "ITabs ") + str(int(h[0][1:]))
    a = [int(x) for x in h[1:6]]
    o = [int(x) for x in h[7:14]]
    if max(a + o) > 2000:
        # a run of 65,536 spaces is built through a unary number inside Coq (stack overflow in coqc beyond a few thousand)
        raise ValueError("a spacing field beyond what vm_compute can lay out as a list")
    return ("{| p_indent := %s; array_begin := %d; array_end := %d; array_empty := %d; array_before_comma := %d; "
            "array_after_comma := %d; array_limit := %s; object_begin := %d; object_end := %d; object_empty := %d; "
            "object_before_comma := %d; object_after_comma := %d; object_before_colon := %d; object_after_colon := %d; "
            "object_limit := %s |}" % (ind, *a, limit_term(h[6]), *o, limit_term(h[14])))


# ------------------------------------------------------------------ C19: documents of json! literals
def _c19_doc_term(t, i, env):
    """tokens of a `m <document>` case line -> (Gallina term of type MacroDoc.doc, next index)"""
    h = t[i]
    if h == "n":
        return "MacroDoc.DNull", i + 1
    if h in ("t", "f"):
        return "(MacroDoc.DBool %s)" % ("true" if h == "t" else "false"), i + 1
    if h[0] == "i":
        num, _, ty = h[1:].partition(":")
        sfx = "(Some Macro.T%s)" % ty.upper() if ty else "None"
        return "(MacroDoc.DInt %s (%d)%%Z)" % (sfx, int(num)), i + 1
    if h[0] == "d":
        lit, _, want = h[2:].partition("=")
        sfx = "None"
        if lit.endswith(("f32", "f64")):
            sfx, lit = "(Some Macro.FT%s)" % lit[-2:], lit[:-3]
        cps = lambda t: "[" + "; ".join(str(ord(c)) for c in t) + "]"
        return "(MacroDoc.DFloat %s %s %s %s)" % ("true" if h[1] == "-" else "false", cps(lit), sfx, cps(want)), i + 1
    if h[0] == "$":
        return f"(MacroDoc.DStr {cps_term(h[1:])})", i + 1
    if h == "[":
        items, i = [], i + 1
        while not t[i].startswith("]"):
            x, i = _c19_doc_term(t, i, env)
            items.append(x)
        return "(MacroDoc.DArr [%s] %s)" % ("; ".join(items), "true" if t[i] == "]+" else "false"), i + 1
    if h == "{":
        items, i = [], i + 1
        while not t[i].startswith("}"):
            k = t[i]
            key = cps_term(k[1:])
            name = "[" + "; ".join(str(ord(c)) for c in "K" + "".join("_" + x for x in (k[1:].split(",") if k[1:] != "-" else []))) + "]"
            kf = {"k": "MacroDoc.KLit", "p": "MacroDoc.KParen", "v": f"(MacroDoc.KVar {name})", "q": f"(MacroDoc.KParenVar {name})"}[k[0]]
            if k[0] in "vq":
                env[name] = key
            x, i = _c19_doc_term(t, i + 1, env)
            items.append(f"({kf}, {key}, {x})")
        return "(MacroDoc.DObj [%s] %s)" % ("; ".join(items), "true" if t[i] == "}+" else "false"), i + 1
    raise ValueError("document token " + h)


def _c19_case_term(t):
    env = {}
    d, end = _c19_doc_term(t, 1, env)
    if end != len(t):
        raise ValueError("trailing tokens")
    e = "None"
    for name, key in env.items():
        e = f"if str_eqb x {name} then Some {key} else {e}"
    return (f"let d := {d} in (Macro.expand MacroFloat.lexical_float (fun x : list N => {e}) 3000%nat (MacroDoc.tokens d), "
            f"parse_str (MacroDoc.text d), MacroDoc.value_of d, MacroDoc.text d)")


def _c19_model_line(ast):
    m, p, v, t = ast[1]
    ms = value_line(m[2][0]) if m[1] == "Some" else "NONE"
    ps = value_line(p[2][0][1][0]) if p[1] == "Ok" else "ERR"
    eq = "1" if (ms == ps and ms != "NONE") else "0"
    vs, ts = value_line(v), cps_tok(t)
    return f"M={ms} P={ps} EQ={eq} T={ts}", f"M={vs} P={vs} EQ=1 T={ts}"


# ------------------------------------------------------------------ C06 / C14: operation histories on objects
def _ascii_cps(text):
    return "[" + "; ".join(str(ord(c)) for c in text) + "]"


# the second key universe of the object histories (a case line whose key count is 11):
# harness/src/object.rs EXOTIC, ocaml/fam_object.ml exotic
_EXOTIC = ["\uffff", "\U00010000", "\ue000a", "\U0010ffff", "", "\xe9", "k", "k0", "\ud7ff\U00010000", "\ud7ff\ue000",
           "\U00010000\ue000"]
_EXOTIC_ON = [False]


def _hkey(i):
    if _EXOTIC_ON[0] and int(i) < len(_EXOTIC):
        return _ascii_cps(_EXOTIC[int(i)])
    return _ascii_cps("k%02d" % int(i))


def _hval(v):
    return "(VNum %s)" % _ascii_cps(str(int(v)))


def _hpairs(tok):
    if tok == "-":
        return "[]"
    out = []
    for p in tok.split(","):
        k, v = p.split("=")
        out.append(f"({_hkey(k)}, {_hval(v)})")
    return "[" + "; ".join(out) + "]"


def _nat(x):
    return "%d%%nat" % int(x)


def _pull_count(x):
    """how many items the caller pulls from a removal iterator: `*` or a number (used by the renderer only)"""
    if x != "*":
        int(x)


def _hist_step(op):
    """one operation of a history -> (step on the indexed model, step on the list specification), as in
    `apply` / `m_apply` of ocaml/fam_object.ml"""
    p = op.split(":")
    h = p[0]
    if h in ("push", "pushe", "pushf", "pushef"):
        f = "push" if h in ("push", "pushe") else "push_front"
        k, v = _hkey(p[1]), _hval(p[2])
        return (f"(fun o => xc_lift RBool (Object.{f} o {k} {v}))",
                f"(fun es => xc_pure RBool (m_{f} es ({k}, {v})))")
    if h == "rmat":
        return (f"(fun o => xc_lift ROptEntry (Object.remove_at o {_nat(p[1])}))",
                f"(fun es => xc_pure ROptEntry (m_remove_at es {_nat(p[1])}))")
    if h == "ins":
        k, v = _hkey(p[1]), _hval(p[2])
        _pull_count(p[3])
        return (f"(fun o => xc_lift ROptList (Object.insert o {k} {v}))",
                f"(fun es => xc_pure ROptList (m_insert es {k} {v}))")
    if h == "insf":
        k, v = _hkey(p[1]), _hval(p[2])
        _pull_count(p[3])
        return (f"(fun o => xc_lift RList (Object.insert_front o {k} {v}))",
                f"(fun es => xc_pure RList (m_insert_front es {k} {v}))")
    if h == "rm":
        _pull_count(p[2])
        return (f"(fun o => xc_lift RList (Object.remove o {_hkey(p[1])}))",
                f"(fun es => xc_pure RList (m_remove es {_hkey(p[1])}))")
    if h == "rmu":
        return (f"(fun o => xc_lift RUniq (Object.remove_unique o {_hkey(p[1])}))",
                f"(fun es => xc_pure RMUniq (m_remove_unique es {_hkey(p[1])}))")
    if h == "sort":
        return ("(fun o => xc_ok (Object.sort o))", "(fun es => Some (Object.stable_sort entry_cmp es, ROk))")
    if h == "canon":
        return ("(fun o => xc_ok (Object.sort_with Canon.canon_entry_cmp o))",
                "(fun es => Some (Object.stable_sort Canon.canon_entry_cmp es, ROk))")
    if h == "extpanic":
        return "(fun o => Some (o, ROk))", "(fun es => Some (es, ROk))"
    if h in ("goi", "gmoi"):
        k, v = _hkey(p[1]), _hval(p[2])
        return (f"(fun o => xc_lift RVal (Object.get_or_insert_with o {k} {v}))",
                f"(fun es => xc_pure RVal (m_get_or_insert_with es {k} {v}))")
    if h == "set":
        k, n, v = _hkey(p[1]), _nat(p[2]), _hval(p[3])
        return (f"(fun o => match Object.indexes_of o {k} with None => None | Some l => Some (match nth_error l {n} with "
                f"Some i => (Object.set_value_at o i {v}, ROk) | None => (o, RNone) end) end)",
                f"(fun es => Some (match nth_error (m_indexes_of es {k}) {n} with Some i => (m_set_value_at es i {v}, ROk) "
                f"| None => (es, RNone) end))")
    if h == "setu":
        k, v = _hkey(p[1]), _hval(p[2])
        return (f"(fun o => match Object.get_entries_with_index o {k} with None => None | Some [] => Some (o, RNone) "
                f"| Some [(i, _)] => Some (Object.set_value_at o i {v}, ROk) | Some ((_, a) :: (_, b) :: _) => Some (o, RDup a b) end)",
                f"(fun es => Some (match m_get_entries_with_index es {k} with [] => (es, RNone) "
                f"| [(i, _)] => (m_set_value_at es i {v}, ROk) | (_, a) :: (_, b) :: _ => (es, RDup a b) end))")
    if h in ("setat", "setatm"):
        n, v = _nat(p[1]), _hval(p[2])
        return (f"(fun o => Some (if Nat.ltb {n} (length (entries o)) then (Object.set_value_at o {n} {v}, ROk) else (o, RNone)))",
                f"(fun es => Some (if Nat.ltb {n} (length es) then (m_set_value_at es {n} {v}, ROk) else (es, RNone)))")
    if h in ("ext", "extp"):
        return (f"(fun o => xc_ok (Object.extend o {_hpairs(p[1])}))", f"(fun es => Some (m_extend es {_hpairs(p[1])}, ROk))")
    if h in ("fromvec", "fromvecf"):
        return (f"(fun _ => xc_ok (Object.from_vec {_hpairs(p[1])}))", f"(fun _ => Some (m_from_vec {_hpairs(p[1])}, ROk))")
    if h in ("fromiter", "fromiterkv"):
        return (f"(fun _ => xc_ok (Object.from_iter {_hpairs(p[1])}))", f"(fun _ => Some (m_from_vec {_hpairs(p[1])}, ROk))")
    if h in ("clone", "take", "clonefrom"):
        return "(fun o => Some (o, ROk))", "(fun es => Some (es, ROk))"
    if h == "reset":
        return "(fun _ => Some (empty_obj, ROk))", "(fun _ => Some ([], ROk))"
    return "(fun o => Some (o, RBad))", "(fun es => Some (es, RBad))"


def _steps(ops, which):
    return "[" + "; ".join(_hist_step(op)[which] for op in ops) + "]"


def _c06_case_term(t):
    nkeys = int(t[1])
    _EXOTIC_ON[0] = nkeys == 11
    keys = "[" + "; ".join([_hkey(i) for i in range(nkeys)] + [_ascii_cps("absent")]) + "]"
    return f"xc_c06 {_steps(t[2:], 0)} {_steps(t[2:], 1)} {keys}"


def case_term(fam, case):
    t = case.split(" ")
    if fam == "c19" and t[0] == "m":
        return _c19_case_term(t)
    if fam == "c12":
        if t[0] == "s":
            return f"parse_str_with {opts_term(t[1])} {cps_term(t[2])}"
        if t[0] == "b":
            return f"parse_slice_with {opts_term(t[1])} {cps_term(t[2])}"
    if fam == "c01":
        if t[0] == "s":
            cs = cps_term(t[2])
            return (f"(true, [parse_str {cs}; parse_str_with strict {cs}; parse_utf8 {cs}; parse_utf8_with strict {cs}; "
                    f"parse_infallible_utf8 {cs}; parse_utf8_infallible_with strict {cs}; parse (chars {cs}); "
                    f"parse_with strict (chars {cs}); parse (chars {cs}); parse_with strict (chars {cs})], from_str {cs}, "
                    f"[parse_slice (utf8_encode_all {cs}); parse_slice_with strict (utf8_encode_all {cs})])")
        if t[0] == "b":
            bs = cps_term(t[2])
            return f"(false, [parse_slice {bs}; parse_slice_with strict {bs}], from_str [], [parse_slice {bs}])"
    if fam == "c04" and t[0] == "p":
        bar = t.index("|")
        v, _ = value_term(t[bar + 1:])
        o = popts_term(t[1:bar])
        return (f"match print_with {o} {v} with Some t => match parse_str t with Ok (w, _) => "
                f"if value_eqb w {v} then 1 else 0 | _ => 2 end | None => 3 end")
    if fam == "c20":
        k = {"0": "KNull", "1": "KBoolean", "2": "KNumber", "3": "KString", "4": "KArray", "5": "KObject"}
        op = t[0]
        try:
            if op in ("or", "ora"):
                return f"(0, ks_or {int(t[1])} {int(t[2])})"
            if op in ("and", "anda"):
                return f"(0, ks_and {int(t[1])} {int(t[2])})"
            if op in ("ork", "orak"):
                return f"(0, ks_or_kind {int(t[1])} {k[t[2]]})"
            if op in ("andk", "andak"):
                return f"(0, ks_and_kind {int(t[1])} {k[t[2]]})"
            if op == "kor":
                return f"(0, kind_or_ks {k[t[1]]} {int(t[2])})"
            if op == "kand":
                return f"(0, kind_and_ks {k[t[1]]} {int(t[2])})"
            if op == "len":
                return f"(0, ks_len {int(t[1])})"
            if op in ("iter", "intoiter", "refiter"):
                return f"(1, ks_iter {int(t[1])})"
            if op == "iterrev":
                return f"(1, ks_iter_rev {int(t[1])})"
            if op == "display":
                return f"(2, ks_display {int(t[1])})"
            if op == "disj":
                return f"(2, ks_disjunction {int(t[1])})"
            if op == "conj":
                return f"(2, ks_conjunction {int(t[1])})"
        except (KeyError, ValueError, IndexError):
            return None
        return None
    if fam in ("c05", "c07"):
        # both entry points on a text, one on bytes; tagged so that model_line knows which
        if t[0] == "s":
            return (f"(true, parse_str_with {opts_term(t[1])} {cps_term(t[2])}, "
                    f"parse_slice_with {opts_term(t[1])} (utf8_encode_all {cps_term(t[2])}))")
        if t[0] == "b":
            r = f"parse_slice_with {opts_term(t[1])} {cps_term(t[2])}"
            return f"(false, {r}, {r})"
    if fam == "c02":
        if t[0] == "s":
            return f"xc_c02 (parse_str_with {opts_term(t[1])} {cps_term(t[2])})"
        if t[0] == "b":
            return f"xc_c02 (parse_slice_with {opts_term(t[1])} {cps_term(t[2])})"
    if fam == "c11" and len(t) == 3:
        if t[0] == "s":
            return f"xc_doc {opts_term(t[1])} {cps_term(t[2])}"
        if t[0] == "t":
            ty = ""
            for ch in t[1][:-1]:
                ty += {"V": "(TVec ", "M": "(TMap ", "O": "(TOption "}[ch]
            ty += {"B": "TBool", "U": "TUnit", "S": "TString", "N": "TNumber"}[t[1][-1]] + ")" * (len(t[1]) - 1)
            return f"xc_conv {ty} {cps_term(t[2])}"
    if fam == "c06" and t[0] == "h":
        return _c06_case_term(t)
    if fam == "c14" and t[0] == "m" and t[1] == "|":
        # m | a | b | c : the five ordered pairs the driver prints, and the write stream of a
        a, r = value_term(t[2:])
        if r[0] != "|":
            raise ValueError("separator")
        b, r = value_term(r[1:])
        if r[0] != "|":
            raise ValueError("separator")
        c, r = value_term(r[1:])
        if r:
            raise ValueError("trailing tokens")
        pair = lambda x, y: f"(value_cmp {x} {y}, value_eq {x} {y})"
        return (f"let a := {a} in let b := {b} in let c := {c} in "
                f"([{pair('a', 'b')}; {pair('b', 'a')}; {pair('b', 'c')}; {pair('a', 'c')}; {pair('a', 'a')}], hash_stream a)")
    if fam == "c14" and t[0] == "hh":
        bar = t.index("/")
        return f"xc_c14h {_steps(t[2:bar], 0)} {_steps(t[bar + 1:], 0)}"
    if fam == "c13" and t[0] == "p":
        bar = t.index("|")
        v, _ = value_term(t[bar + 1:])
        o = popts_term(t[1:bar])
        return f"(print_with {o} {v}, layout_text {o} {v})"
    if fam == "c15" and t[0] == "u":
        a, r = value_term(t[2:])
        b, _ = value_term(r[1:])
        return f"(unordered_eq {a} {b}, unordered_eq {b} {a}, unordered_eq {a} {a}, value_eqb {a} {b})"
    if fam == "c08" and t[0] == "c":
        v, _ = value_term(t[2:])
        return f"(compact_print {v}, to_string {v}, ser_min {v})"
    if fam in _B_FAMS:      # block xcheckB (end of file)
        return _b_case_term(fam, t)
    return None


# ------------------------------------------------------------------ Coq normal form -> python
TOK = re.compile(r"\s*([A-Za-z_][A-Za-z0-9_']*|\d+|[()\[\];,])")


def parse_term(s):
    # numerals of another scope are printed as 3%nat, constructors of a module that is not imported as M.c
    s = re.sub(r"%[A-Za-z_]+", "", s)
    s = re.sub(r"\b[A-Za-z_][A-Za-z0-9_']*\.(?=[A-Za-z_])", "", s)
    toks = TOK.findall(s)
    pos = [0]

    def atom():
        t = toks[pos[0]]
        pos[0] += 1
        if t == "(":
            xs = [expr()]
            while toks[pos[0]] == ",":
                pos[0] += 1
                xs.append(expr())
            assert toks[pos[0]] == ")"
            pos[0] += 1
            return xs[0] if len(xs) == 1 else ("tuple", xs)
        if t == "[":
            xs = []
            if toks[pos[0]] != "]":
                xs.append(expr())
                while toks[pos[0]] == ";":
                    pos[0] += 1
                    xs.append(expr())
            assert toks[pos[0]] == "]"
            pos[0] += 1
            return ("list", xs)
        if t.isdigit():
            return int(t)
        return ("app", t, [])

    def expr():
        head = atom()
        args = []
        while pos[0] < len(toks) and toks[pos[0]] not in (")", "]", ";", ","):
            args.append(atom())
        if args:
            assert isinstance(head, tuple) and head[0] == "app"
            return ("app", head[1], args)
        return head

    e = expr()
    assert pos[0] == len(toks), "trailing tokens"
    return e


def cps_tok(l):
    assert l[0] == "list"
    return "-" if not l[1] else ",".join("%x" % c for c in l[1])


def value_line(v):
    assert v[0] == "app"
    c, a = v[1], v[2]
    if c == "VNull":
        return "n"
    if c == "VBool":
        return "t" if a[0][1] == "true" else "f"
    if c == "VNum":
        return "#" + cps_tok(a[0])
    if c == "VStr":
        return "$" + cps_tok(a[0])
    if c == "VArr":
        return "[" + "".join(" " + value_line(x) for x in a[0][1]) + " ]"
    if c == "VObj":
        return "{" + "".join(" $" + cps_tok(e[1][0]) + " " + value_line(e[1][1]) for e in a[0][1]) + " }"
    raise ValueError(c)


def codemap_line(cm):
    if not cm[1]:
        return "-"
    return " ".join("%d-%d-%d" % tuple(e[1]) for e in cm[1])


def error_line(e):
    c, a = e[1], e[2]
    if c == "EStream":
        return "ST %d" % a[0]
    if c == "EUnexpected":
        ch = a[1]
        return "U %d %s" % (a[0], "-" if ch[1] == "None" else "%x" % ch[2][0])
    if c == "EInvalidCodePoint":
        return "IC %d %d %x" % tuple(a)
    if c == "EMissingLow":
        return "ML %d %d %x" % tuple(a)
    if c == "EInvalidLow":
        return "IL %d %d %x %x" % tuple(a)
    if c == "EInvalidUtf8":
        return "IU %d" % a[0]
    raise ValueError(c)


def opt_text(o):
    return "MODEL-PANIC" if o[1] == "None" else cps_tok(o[2][0])


# ------------------------------------------------------------------ renderers of the new families
def _is(x, name):
    return isinstance(x, tuple) and x[0] == "app" and x[1] == name


def _some(x):
    """Some a -> a; a None here is a model panic, which the drivers print as one word: raise, the caller decides"""
    if _is(x, "Some"):
        return x[2][0]
    raise ModelPanic()


class ModelPanic(Exception):
    pass


def _bool(x):
    assert x[1] in ("true", "false")
    return "1" if x[1] == "true" else "0"


def _items(l):
    assert l[0] == "list"
    return l[1]


def _opt_nat(x):
    return "None" if _is(x, "None") else "Some(%d)" % x[2][0]


def _c02_lookups(objs):
    out = []
    for o in _items(objs):
        for k, c, i, r, ix, g, e, u in [x[1] for x in _items(_some(o))]:
            u = _some(u)
            us = {"UNone": lambda: "none", "UOne": lambda: "one " + value_line(u[2][0]),
                  "UDup": lambda: "dup " + value_line(u[2][0]) + " " + value_line(u[2][1])}[u[1]]()
            out.append("<%s c=%s i=%s r=%s ix=[%s] g=[%s] e=[%s] u=%s>" % (
                cps_tok(k), _bool(_some(c)), _opt_nat(_some(i)), _opt_nat(_some(r)),
                ",".join(str(j) for j in _items(_some(ix))),
                ";".join(value_line(v) for v in _items(_some(g))),
                ";".join(cps_tok(x[1][0]) + "=" + value_line(x[1][1]) for x in _items(_some(e))), us))
    return "".join(out) or "-"


def _c02_model_line(ast):
    r, objs = ast[1]
    if r[1] == "Ok":
        return "OK " + value_line(r[2][0][1][0]) + " | " + _c02_lookups(objs) + " EP=1"
    if r[1] == "Err":
        return "ERR EP=1"
    return "MODEL-PANIC %d" % r[2][0] if r[1] == "Panic" else "MODEL-OUT-OF-FUEL"


KINDS = ["KNull", "KBoolean", "KNumber", "KString", "KArray", "KObject"]


def _c11_model_line(ast):
    code, body = ast[1]
    if code != 0:
        return "ERR" if code == 1 else "MODEL-PANIC"
    if _is(body, "None"):
        return "MODEL-PANIC"
    body = body[2][0]
    if not (isinstance(body, tuple) and body[0] == "tuple"):
        # a typed conversion: Some None = Ok, Some (Some (offset, expected, found))
        if _is(body, "None"):
            return "ok"
        o, e, f = body[2][0][1]
        return "err@%d:%d:%d" % (o, KINDS.index(e[1]), KINDS.index(f[1]))
    vol, containers, trav, frags, walk = body[1]

    def tag(f):
        return {"XV": lambda: "v%d" % KINDS.index(f[2][0][1]), "XE": lambda: "e", "XK": lambda: "k"}[f[1]]()
    tr = [tag(f) for f in _items(trav)]
    fr = [tag(f[2][0]) if f[1] == "inl" else "E%d" % f[2][0] for f in _items(frags)]
    fr += ["E%d" % (i - len(tr)) for i in (1 << 32, (1 << 64) - 2, (1 << 64) - 1)]    # closed form, as in ocaml/fam_nav.ml
    if _is(walk, "None"):
        return "MODEL-PANIC"
    nav = []
    for w in _items(walk[2][0]):
        if w[1] == "XA":
            off, items = w[2]
            nav.append(" A%d[%s]" % (off, ",".join(str(i) for i in _items(items))))
        else:
            off, ents, keys = w[2]
            nav.append(" O%d[%s]" % (off, ",".join("%d/%d/%d" % tuple(m[1]) for m in _items(ents))))
            for kl in _items(keys):
                k, l = kl[1]
                l = [x[1] for x in _items(l)]
                a = ",".join("%d@%d/%d/%d" % tuple(x) for x in l) or "-"
                uniq = "none" if not l else "one%d" % l[0][1] if len(l) == 1 else "dup%d+%d" % (l[0][1], l[1][1])
                nav.append(" K%d<%s>%s:%s:1" % (off, cps_tok(k), a, uniq))
    n = len(tr)
    return "V=%d C=%d CA=%d/%d/%d/%d/%d/%d T=%s F=%s S=1 DL=1 N=%s" % (
        vol, n, containers, n, tr.count("k"), tr.count("e"), len([i for i in range(n) if i % 2 == 0]),
        len([i for i in range(n) if i % 3 == 1 and tr[i][0] == "v"]),
        ",".join("%d%s" % (i, f) for i, f in enumerate(tr)), ",".join(fr), "".join(nav) or " -")


def _ascii(l):
    return "".join(chr(c) for c in _items(l))


def _h_vstr(v):
    return _ascii(v[2][0]) if v[1] == "VNum" else "?" + value_line(v)


def _h_kidx(k):
    s = _ascii(k)
    if _EXOTIC_ON[0] and s in _EXOTIC:
        return str(_EXOTIC.index(s))
    if s[:1] == "k" and re.fullmatch(r"[0-9]+", s[1:]):
        return str(int(s[1:]))
    return "?" + s


def _h_estr(e):
    k, v = e[1]
    return _h_kidx(k) + ":" + _h_vstr(v)


def _lst(f, l):
    return ",".join(f(x) for x in _items(l)) or "-"


def _pulled(l, n):
    """what a caller that pulls n items (or all, `*`) sees of a removal iterator's full list"""
    if n == "*":
        return _lst(_h_estr, l)
    out, rest = [], list(_items(l))
    for _ in range(int(n)):
        if not rest:
            out.append("end")
            break
        out.append(_h_estr(rest.pop(0)))
    return ",".join(out) or "-"


def _h_result(r, op):
    p = op.split(":")
    c, a = r[1], r[2]
    if c == "RBool":
        return _bool(a[0])
    if c == "ROptEntry":
        return "none" if _is(a[0], "None") else _h_estr(a[0][2][0])
    if c == "ROptList":
        return "none" if _is(a[0], "None") else "some[" + _pulled(a[0][2][0], p[3]) + "]"
    if c == "RList":
        return "[" + _pulled(a[0], p[3] if p[0] == "insf" else p[2]) + "]"
    if c in ("RUniq", "RMUniq"):
        u = a[0]
        if u[1] in ("UNone", "MNone"):
            return "none"
        if u[1] in ("UOne", "MOne"):
            return "one " + _h_estr(u[2][0])
        return "dup " + _h_estr(u[2][0]) + " " + _h_estr(u[2][1])
    if c == "ROk":
        return "ok"
    if c == "RNone":
        return "none"
    if c == "RVal":
        return _h_vstr(a[0])
    if c == "RDup":
        return "dup " + _h_estr(a[0]) + " " + _h_estr(a[1])
    if c == "RBad":
        return "BADOP(" + p[0] + ")"
    raise ValueError(c)


def _h_uniq(f, u):
    if u[1] in ("UNone", "MNone"):
        return "none"
    if u[1] in ("UOne", "MOne"):
        return "one:" + f(u[2][0])
    return "dup:" + f(u[2][0]) + ":" + f(u[2][1])


def _h_line(rs, ops, es, qs, spec):
    out = []
    for i, q in enumerate(_items(qs)):
        q = list(q[1])
        if spec:      # total functions; get_with_index is a projection of get_entries_with_index
            c, io, r, ix, g, e, ei, u, ue = q
            gi = ("list", [("tuple", [x[1][0], x[1][1][1][1]]) for x in _items(ei)])
        else:
            c, io, r, ix, g, e, gi, ei, u, ue = [_some(x) for x in q]
        out.append("<%d c=%s i=%s r=%s ix=%s g=%s e=%s gi=%s ei=%s u=%s ue=%s>" % (
            i, _bool(c), _opt_nat(io), _opt_nat(r),
            _lst(str, ix), _lst(_h_vstr, g), _lst(_h_estr, e),
            _lst(lambda x: _h_vstr(x[1][1]) + "@%d" % x[1][0], gi),
            _lst(lambda x: _h_estr(x[1][1]) + "@%d" % x[1][0], ei),
            _h_uniq(_h_vstr, u), _h_uniq(_h_estr, ue)))
    rl = _items(rs)
    assert len(rl) == len(ops)
    return "R=%s L=%d,%s E=%s Q=%s" % ("|".join(_h_result(r, op) for r, op in zip(rl, ops)) or "-",
                                        len(_items(es)), "1" if not _items(es) else "0", _lst(_h_estr, es), "".join(out))


def _buckets(d):
    return _lst(lambda l: "+".join(str(i) for i in _items(l)), d)


def _c06_model_line(ast, t):
    _EXOTIC_ON[0] = t[1] == "11"       # the key universe of THIS case (the flag is also set when its term is built)
    m, sp = ast[1]
    ops = t[2:]
    rs, es, qs = _some(sp)[1]
    spec = _h_line(rs, ops, es, qs, True)
    if _is(m, "None"):
        return "MODEL-PANIC", spec
    try:
        rs, es, qs, dump = m[2][0][1]
        return _h_line(rs, ops, es, qs, False) + " B=" + _buckets(dump), spec
    except ModelPanic:
        return "MODEL-PANIC", spec


def _pair_obs(cmp, eq):
    c = {"Lt": "L", "Eq": "E", "Gt": "G"}[cmp[1]]
    e = eq[1] == "true"
    b = lambda x: "1" if x else "0"
    return b(e) + c + c + b(c == "L") + b(c != "G") + b(c == "G") + b(c != "L") + b(not e) + b(e) + b(e)


def _c14_model_line(ast):
    if _is(ast, "None"):
        return "MODEL-PANIC"
    if _is(ast, "Some"):       # a pair of histories
        e1, e2, ecmp, eeq, vcmp, veq, d1, d2 = ast[2][0][1]
        return "E1=%s E2=%s obj=%s val=%s clone=%s buckets_differ=%s" % (
            _lst(_h_estr, e1), _lst(_h_estr, e2), _pair_obs(ecmp, eeq), _pair_obs(vcmp, veq),
            _pair_obs(("app", "Eq", []), ("app", "true", [])), "1" if _buckets(d1) != _buckets(d2) else "0")
    pairs, stream = ast[1]
    ab, ba, bc, ac, aa = [_pair_obs(*x[1]) for x in _items(pairs)]
    ws = []
    for w in _items(stream):
        x = w[2][0]
        ws.append({"HDiscr": lambda: "D%d" % x, "HLen": lambda: "L%d" % x, "HBytes": lambda: "B" + cps_tok(x),
                   "HU8": lambda: "U%x" % x}[w[1]]())
    return f"ab={ab} ba={ba} bc={bc} ac={ac} aa={aa} clone={aa} S=" + ".".join(ws)


def model_line(fam, ast, case=None):
    """(model column, spec column or None) in the format of ocaml/fam_*.ml; `case` is the case line, for the
    families whose printed line repeats parameters of the case (C06: how far a removal iterator is pulled)"""
    if fam == "c19":
        return _c19_model_line(ast)
    if fam == "c02":
        return _c02_model_line(ast), None
    if fam == "c11":
        return _c11_model_line(ast), None
    if fam == "c06":
        return _c06_model_line(ast, case.split(" "))
    if fam == "c14":
        return _c14_model_line(ast), None
    if fam == "c12":
        if ast[1] == "Ok":
            v, cm = ast[2][0][1]
            return "OK " + value_line(v) + " | " + codemap_line(cm) + " EP=1", None
        if ast[1] == "Err":
            return "ERR " + error_line(ast[2][0]) + " EP=1", None
        return "MODEL-" + ast[1], None
    if fam == "c01":
        text, many, fs, sl = ast[1]

        def vd(r):
            return {"Ok": "A", "Err": "R", "Panic": "PANIC", "OutOfFuel": "FUEL"}[r[1]]
        if text[1] == "true":
            return "".join(vd(r) for r in many[1]) + vd(fs) + "".join(vd(r) for r in sl[1]), None
        return "".join(vd(r) for r in many[1]), None
    if fam == "c04":
        return {0: "RT=0 PRESET=1", 1: "RT=1 PRESET=1", 2: "RT=2 PRESET=1", 3: "MODEL-PANIC"}[ast], None
    if fam == "c20":
        tag, x = ast[1]
        if tag == 0:
            return str(x), "*"
        if tag == 1:
            ks = ["KNull", "KBoolean", "KNumber", "KString", "KArray", "KObject"]
            return ("-" if not x[1] else ",".join(str(ks.index(e[1])) for e in x[1])), "*"
        return cps_tok(x), "*"
    if fam in ("c05", "c07"):
        text, a, b = ast[1]

        def count(v):
            c, args = v[1], v[2]
            if c == "VArr":
                return 1 + sum(count(x) for x in args[0][1])
            if c == "VObj":
                return 1 + sum(2 + count(e[1][1]) for e in args[0][1])
            return 1

        def kinds(v):
            c, args = v[1], v[2]
            if c == "VArr":
                return "v" + "".join(kinds(x) for x in args[0][1])
            if c == "VObj":
                return "v" + "".join("ek" + kinds(e[1][1]) for e in args[0][1])
            return "v"

        def show(r):
            if fam == "c05":
                if r[1] == "Ok":
                    v, cm = r[2][0][1]
                    return "OK %s T%d K%s" % (codemap_line(cm), count(v), kinds(v))
                return "ERR" if r[1] == "Err" else "MODEL-" + r[1]
            if r[1] == "Ok":
                return "OK"
            if r[1] == "Err":
                e = r[2][0]
                offs = e[2]
                if e[1] in ("EStream", "EUnexpected", "EInvalidUtf8"):
                    ps = "P%d S%d-%d" % (offs[0], offs[0], offs[0])
                else:
                    ps = "P%d S%d-%d" % (offs[0], offs[0], offs[1])
                return "ERR " + error_line(e) + " " + ps
            return "MODEL-" + r[1]
        if text[1] == "true":
            return show(a) + " ; " + show(b) + " EP=1", None
        return show(a) + " EP=1", None
    if fam == "c13":
        p, l = ast[1]
        return opt_text(p), cps_tok(l)
    if fam == "c15":
        ab, ba, aa, eq = [("1" if x[1] == "true" else "0") for x in ast[1]]
        return f"ab={ab} ba={ba} asu={ab} wrap={ab} refl={aa} eq={eq}", None
    if fam == "c08":
        a, b, s = ast[1]
        a, b, s = opt_text(a), opt_text(b), cps_tok(s)
        return f"{a} {b} {b} {b}", f"{s} {s} {s} {s}"
    if fam in _B_FAMS:      # block xcheckB (end of file)
        return _b_model_line(fam, ast)
    raise ValueError(fam)


# ------------------------------------------------------------------ driver
# caps on what is sampled (a case over a cap is counted as skipped, never as agreement)
MAX_CASE_CHARS = 6000
MAX_OPS = {"c06": 400, "c14": 400}      # operations of a history (both histories together for C14); ~2 s of coqc at 330


def _run_coqc(fam, idx, terms, coq_dir, tmp_dir, timeout):
    """one coqc process over a list of terms -> (list of printed normal forms, error or None)"""
    name = f"xcheck_{fam}" + (f"_{idx}" if idx else "")
    src = os.path.join(tmp_dir, name + ".v")
    with open(src, "w") as f:
        f.write(HEADER + PRELUDE.get(fam, ""))
        for t in terms:
            f.write(f"Eval vm_compute in ({t}).\n")
    p = subprocess.run(["coqc", "-noglob", "-Q", "theories", "JsonSyntax", "-w", "none", "-o",
                        os.path.join(tmp_dir, name + ".vo"), src],
                       cwd=coq_dir, stdout=subprocess.PIPE, stderr=subprocess.STDOUT, text=True, timeout=timeout)
    if p.returncode != 0:
        return [], "coqc failed on the cross-check file: " + p.stdout[-1500:]
    # answers: "     = <term>\n     : <type>"
    answers = []
    cur = None
    for ln in p.stdout.split("\n"):
        if ln.startswith("     = "):
            cur = [ln[7:]]
        elif ln.startswith("     : ") and cur is not None:
            answers.append(" ".join(cur))
            cur = None
        elif cur is not None:
            cur.append(ln)
    if len(answers) != len(terms):
        return [], f"cross-check: {len(terms)} terms but {len(answers)} answers"
    return answers, None


def crosscheck(fam, pairs, coq_dir, tmp_dir, limit=200, timeout=900):
    """pairs: list of (case line, model line as printed by the extracted driver, spec or '').
    Returns (checked, mismatches[list of dict], error or None).  What was sampled and what was skipped (and why)
    is written to <tmp_dir>/xcheck_<fam>.stats.json."""
    if fam in _B_FAMS:      # block xcheckB (end of file): own headers, sharded coqc, sampling report
        return _b_crosscheck(fam, pairs, coq_dir, tmp_dir, limit, timeout)
    cand = []
    skipped = {}
    for case, model, spec in pairs:
        kind = case.split(" ", 1)[0]
        if len(case) > MAX_CASE_CHARS:
            skipped[kind + ":too-long"] = skipped.get(kind + ":too-long", 0) + 1
            continue
        if fam in MAX_OPS and case.count(" ") - 1 > MAX_OPS[fam]:
            skipped[kind + ":history-too-long"] = skipped.get(kind + ":history-too-long", 0) + 1
            continue
        try:
            t = case_term(fam, case)
        except Exception:
            t = None
        if t is None:
            skipped[kind + ":no-term"] = skipped.get(kind + ":no-term", 0) + 1
            continue
        cand.append((case, model, spec, t))
    cls = STRATIFIED.get(fam)
    if cls:
        # an equal share of the limit for every class, the remainder in run order
        kinds = list(dict.fromkeys(cls(c[0], c[1]) for c in cand))
        quota = {k: limit // max(1, len(kinds)) for k in kinds}
        sel, rest = [], []
        for c in cand:
            k = cls(c[0], c[1])
            if quota[k] > 0:
                quota[k] -= 1
                sel.append(c)
            else:
                rest.append(c)
        sel += rest[:limit - len(sel)]
    else:
        cls = _first_token
        sel = cand[:limit]
    if len(cand) > len(sel):
        skipped["over-the-limit"] = len(cand) - len(sel)
    os.makedirs(tmp_dir, exist_ok=True)
    by_kind = {}
    for c in sel:
        k = cls(c[0], c[1])
        by_kind[k] = by_kind.get(k, 0) + 1
    import json
    with open(os.path.join(tmp_dir, f"xcheck_{fam}.stats.json"), "w") as f:
        json.dump({"family": fam, "offered": len(pairs), "evaluated": len(sel), "evaluated_by_kind": by_kind,
                   "skipped": skipped}, f, indent=1)
    if not sel:
        return 0, [], None
    nproc = max(1, min(XSHARDS.get(fam, 1), len(sel) // 8 or 1))
    if nproc == 1:
        answers, err = _run_coqc(fam, 0, [c[3] for c in sel], coq_dir, tmp_dir, timeout)
        if err:
            return 0, [], err
    else:
        # round-robin so that every process gets its share of the long cases; answers are put back in order
        from concurrent.futures import ThreadPoolExecutor
        parts = [list(range(i, len(sel), nproc)) for i in range(nproc)]
        with ThreadPoolExecutor(max_workers=nproc) as ex:
            futs = [ex.submit(_run_coqc, fam, i + 1, [sel[j][3] for j in part], coq_dir, tmp_dir, timeout)
                    for i, part in enumerate(parts)]
            res = [f.result() for f in futs]
        answers = [None] * len(sel)
        for part, (ans, err) in zip(parts, res):
            if err:
                return 0, [], err
            for j, a in zip(part, ans):
                answers[j] = a
    bad = []
    for (case, model, spec, _), ans in zip(sel, answers):
        try:
            m, s = model_line(fam, parse_term(ans), case)
        except Exception as e:  # the third printer failed: report, do not guess
            bad.append({"case": case, "driver": model, "coq": "UNPARSED " + repr(e) + " " + ans[:200]})
            continue
        if m != model or (s is not None and s != "*" and s != spec):
            bad.append({"case": case, "driver": model + ("\t" + spec if spec else ""),
                        "coq": m + ("\t" + s if s is not None else "")})
    return len(sel), bad, None


# ====================================================================================================
# BEGIN block xcheckB: in-Coq cross-check of C09, C10 (ocaml/fam_canon.ml), C17, C18 (ocaml/fam_serde.ml),
# C16 (ocaml/fam_serde_typed.ml) and C03 (ocaml/fam_parse.ml, c03).
# Entry points used by the code above: _B_FAMS, _b_case_term, _b_model_line, _b_crosscheck.
# The families that need Flocq (through Base/Float64.v) have their own headers so that the cross-checks
# of the other families never load it.  Every header defines the few helper functions the terms use
# (x_...): they belong to this third evaluator, not to the development.
# ====================================================================================================
import json
import time
from concurrent.futures import ThreadPoolExecutor

_B_FAMS = ("c09", "c10", "c17", "c18", "c16", "c03")

_B_PRINTING = """Import ListNotations.
Open Scope N_scope.
Set Printing Depth 1000000.
Set Printing Width 1000000.
"""

HEADER_CANON = """From Coq Require Import ZArith NArith List Bool SpecFloat.
From JsonSyntax Require Import Base.Prelude Base.Value Base.Unicode Base.Float64 Model.Parser Model.EntryPoints
  Model.Printer Model.Compare Model.Object Model.Canon Spec.Multimap Spec.EcmaNumber Spec.Jcs Spec.CanonSpec.
""" + _B_PRINTING + """
(* ocaml/fam_canon.ml plugs in `num_canon n = match canon_number n with Some t -> t | None -> raise Not_ijson`:
   here the total function ref_num_canon together with the flag "no number met by canonicalize raises" *)
Fixpoint x_all (p : list N -> bool) (v : value) : bool :=
  match v with
  | VNum n => p n
  | VArr l => forallb (x_all p) l
  | VObj es => forallb (fun e : list N * value => x_all p (snd e)) es
  | _ => true
  end.
Definition x_ok (v : value) : bool := x_all (fun n => match canon_number n with Some _ => true | None => false end) v.
Definition x_canon (v : value) : value := canonicalize ref_num_canon v.
Definition x_text (v : value) : option (list N) := compact_print (x_canon v).
Definition x_doc (h : list N) : option (bool * option (list N)) :=
  match parse_str h with Ok (v, _) => Some (x_ok v, x_text v) | _ => None end.
"""

HEADER_SERDE = """From Coq Require Import ZArith NArith List Bool SpecFloat.
From JsonSyntax Require Import Base.Prelude Base.Value Base.Float64 Model.Compare Spec.Multimap Spec.NumSpelling
  Spec.SerdeData Spec.SerdeJsonValue Spec.SerdeRoundTrip Model.SerdeValue.
""" + _B_PRINTING + """
(* serde_json values printed without Z numerals: a number is VNum [tag; negative; magnitude | bit pattern] *)
Definition x_z (tag : N) (z : Z) : value := VNum [tag; (if (z <? 0)%Z then 1 else 0); Z.abs_N z].
Fixpoint x_sj (j : sj) : value :=
  match j with
  | JNull => VNull
  | JBool b => VBool b
  | JNum (PosInt z) => x_z 0 z
  | JNum (NegInt z) => x_z 1 z
  | JNum (SFloat x) => x_z 2 (sf_bits x)
  | JStr s => VStr s
  | JArr l => VArr (map x_sj l)
  | JObj es => VObj (map (fun e : list N * sj => (fst e, x_sj (snd e))) es)
  end.
Definition x_isobj (v : value) : bool := match v with VObj _ => true | _ => false end.
"""

HEADER_C03 = HEADER + """
(* outcome class, traverse().count(), code map length *)
Definition x_c03 {E A} (r : outcome E (value * list A)) : N * N * N :=
  match r with
  | Ok (v, cm) => (0, N.of_nat (length (traverse v)), N.of_nat (length cm))
  | Err _ => (1, 0, 0)
  | Panic _ => (2, 0, 0)
  | OutOfFuel => (3, 0, 0)
  end.
"""

_B_HEADERS = {"c09": HEADER_CANON, "c10": HEADER_CANON, "c17": HEADER_SERDE, "c18": HEADER_SERDE, "c03": HEADER_C03}

# a code point no spelling contains: what a float printer that the case line does not record answers
# (the driver raises Bad_case there; such lines are skipped, see _b_crosscheck)
_B_SENTINEL = "[1114112]"


class _BSkip(Exception):
    """a case kind this file cannot render: counted as skipped, never as agreement"""


_b_skip_reason = [""]


def _b_bool(x):
    return x[1] == "true"


def _b_b01(x):
    return "1" if _b_bool(x) else "0"


# ------------------------------------------------------------------ C09 / C10
def _b_edit_term(es, op):
    """one token of the `ke` edit list -> (Gallina term of the new entry list, value canonicalize is run on or None)"""
    p = op.split(":")
    def num(h):
        # `o<spelling>`: the unsorted object {"z": n, "a": [n]} (ocaml/fam_canon.ml edit_val)
        if h.startswith("o"):
            x = f"(VNum {cps_term(h[1:])})"
            return f"(VObj [([122], {x}); ([97], VArr [{x}])])"
        return f"(VNum {cps_term(h)})"
    if p[0] == "pf" and len(p) == 3:
        return f"(fst (m_push_front {es} ({cps_term(p[1])}, {num(p[2])})))", None
    if p[0] == "pb" and len(p) == 3:
        return f"(fst (m_push {es} ({cps_term(p[1])}, {num(p[2])})))", None
    if p[0] == "in" and len(p) == 3:
        return f"(fst (m_insert {es} {cps_term(p[1])} {num(p[2])}))", None
    if p[0] == "if" and len(p) == 3:
        return f"(fst (m_insert_front {es} {cps_term(p[1])} {num(p[2])}))", None
    if p[0] == "rm" and len(p) == 2:
        return f"(fst (m_remove {es} {cps_term(p[1])}))", None
    if p[0] == "ra" and len(p) == 2:
        return f"(fst (m_remove_at {es} {int(p[1])}%nat))", None
    if p == ["st"]:
        # None (a model panic inside sort) is a Bad_case in the driver: rendered as a list no object has
        return (f"(match Object.sort {{| entries := {es}; buckets := [] |}} with Some o => entries o "
                f"| None => [([1114112], VNull)] end)"), None
    if p == ["cl"]:
        return es, None
    if p == ["cn"]:
        return f"(match x_canon (VObj {es}) with VObj l => l | _ => {es} end)", f"(VObj {es})"
    raise _BSkip("edit " + p[0])


# A chain of `let`s inside one `Eval` is type-checked by re-normalising the chain at every level (40 s for a
# chain of eight around x_canon, against 0.1 s for the same computation): such terms are handed over as
# (name, expression) pairs and emitted as one top-level Definition each, names prefixed per case.
_LETS = "\x01LETS"


def _lets(pairs, body):
    return _LETS + "\x02".join(f"{n}\x03{e}" for n, e in pairs) + "\x04" + body


def _emit_eval(t, j):
    """the vernacular for case number j of a shard"""
    if not t.startswith(_LETS):
        return f"Eval vm_compute in ({t}).\n"
    defs, body = t[len(_LETS):].split("\x04")
    pairs = [d.split("\x03") for d in defs.split("\x02")]
    names = [n for n, _ in pairs]

    def ren(x):
        for n in names:
            x = re.sub(r"\b%s\b" % re.escape(n), f"c{j}_{n}", x)
        return x
    out = []
    for n, e in pairs:
        out.append(f"Definition c{j}_{n} := {ren(e)}.\n")
    out.append(f"Eval vm_compute in ({ren(body)}).\n")
    return "".join(out)


def _b_ke_term(t):
    if t[1] != "|":
        raise _BSkip("ke")
    v, r = value_term(t[2:])
    if not r or r[0] != "|":
        raise _BSkip("ke")
    lets = [("v0", v), ("v1", "x_canon v0")]
    oks = ["x_ok v0"]
    lets.append(("es0", "match v1 with VObj es => es | _ => [] end"))
    i = 0
    for op in r[1:]:
        e, seen = _b_edit_term(f"es{i}", op)
        if seen is not None:
            oks.append(f"x_ok {seen}")
        lets.append((f"es{i + 1}", e))
        i += 1
    lets.append(("v2", f"match v1 with VObj _ => VObj es{i} | x => x end"))
    oks.append("x_ok v2")
    return _lets(lets, f"(2, ({' && '.join(oks)}, x_text v2, jcs v2, v2))")


def _b_canon_term(fam, t):
    k = t[0]
    if k == "ke":
        return _b_ke_term(t)
    if fam == "c09" and k == "kn" and len(t) == 2:
        return f"(1, canon_number {cps_term(t[1])})"
    if fam == "c09" and k == "k" and t[1] == "|":
        v, _ = value_term(t[2:])
        return _lets([("vv", v)], "(0, (x_ok vv, x_text vv, jcs vv))")
    if fam == "c10" and k == "k" and t[1] == "|":
        v, _ = value_term(t[2:])
        return _lets([("vv", v), ("once", "x_canon vv")], "(3, (x_ok vv, value_eqb once (x_canon once), once))")
    if fam == "c10" and k == "kk" and t[1] == "|":
        a, r = value_term(t[2:])
        if not r or r[0] != "|":
            raise _BSkip("kk")
        b, _ = value_term(r[1:])
        return _lets([("va", a), ("vb", b)], "(4, (x_ok va && x_ok vb, x_text va, x_text vb))")
    if fam == "c10" and k == "kd" and len(t) == 5 and t[1] == "|" and t[3] == "|":
        return f"(5, (x_doc {cps_term(t[2])}, x_doc {cps_term(t[4])}))"
    raise _BSkip(k)


def _b_ijson_text(o):
    return "NOT-IJSON" if o[1] == "None" else cps_tok(o[2][0])


def _b_canon_line(fam, ast):
    tag, x = ast[1]
    not_ijson = ("NOT-IJSON", "NOT-IJSON") if fam == "c09" else ("NOT-IJSON", "")
    if tag == 1:
        s = _b_ijson_text(x)
        return s, s
    if tag == 0:
        ok, text, j = x[1]
        return (opt_text(text), _b_ijson_text(j)) if _b_bool(ok) else not_ijson
    if tag == 2:
        ok, text, j, v2 = x[1]
        if not _b_bool(ok):
            return not_ijson
        ed = value_line(v2)
        if "110000" in ed.replace(",", " ").replace("$", " ").split(" "):
            return "BADCASE sort", ""
        return f"{opt_text(text)} index=1 edited={ed}", f"{_b_ijson_text(j)} index=1 edited={ed}"
    if tag == 3:
        ok, idem, once = x[1]
        if not _b_bool(ok):
            return not_ijson
        return f"idem={_b_b01(idem)} objentry=1 index=1 canon={value_line(once)}", ""
    if tag == 4:
        ok, ta, tb = x[1]
        if not _b_bool(ok):
            return not_ijson
        ta, tb = opt_text(ta), opt_text(tb)
        return f"same={'1' if ta == tb else '0'} a={ta}", ""
    if tag == 5:
        docs = [None if d[1] == "None" else d[2][0][1] for d in x[1]]
        if any(d is not None and not _b_bool(d[0]) for d in docs):
            return not_ijson
        if any(d is None for d in docs):
            return "REJECTED", ""
        ta, tb = opt_text(docs[0][1]), opt_text(docs[1][1])
        return f"same={'1' if ta == tb else '0'} a={ta}", ""
    raise ValueError("canon tag %r" % (tag,))


# ------------------------------------------------------------------ C17 / C18
def _b_oracle(t):
    """oracle tokens up to `|` -> ({'W': {bits: spelling term}, 'R': {...}}, remaining tokens); a later entry for
    the same double replaces an earlier one (Hashtbl.replace)"""
    tabs = {"W": {}, "R": {}}
    i = 0
    while True:
        if i >= len(t):
            raise _BSkip("no |")
        if t[i] == "|":
            return tabs, t[i + 1:]
        p = t[i].split(":")
        if len(p) != 3 or p[0] not in tabs or not re.fullmatch(r"[0-9a-f]+", p[1]):
            raise _BSkip("oracle token")
        # the driver keys its table by the 16-digit rendering of the bit pattern: another width never matches
        if len(p[1]) == 16:
            tabs[p[0]][int(p[1], 16)] = cps_term(p[2])
        i += 1


def _b_fmt_term(tab):
    e = _B_SENTINEL
    for bits, s in tab.items():
        e = f"if (b =? {bits})%Z then {s} else {e}"
    return f"(fun x : spec_float => let b := sf_bits x in {e})"


def _b_sj_term(t):
    """tokens of fam_serde.ml dec_j -> (Gallina term of type sj, remaining tokens)"""
    h = t[0]
    if h == "n":
        return "JNull", t[1:]
    if h in ("t", "f"):
        return "(JBool %s)" % ("true" if h == "t" else "false"), t[1:]
    if h == "[":
        items, r = [], t[1:]
        while r[0] != "]":
            x, r = _b_sj_term(r)
            items.append(x)
        return "(JArr [" + "; ".join(items) + "])", r[1:]
    if h == "{":
        ents, r = [], t[1:]
        while r[0] != "}":
            k = r[0]
            x, r = _b_sj_term(r[1:])
            ents.append(f"({cps_term(k[1:])}, {x})")
        return "(JObj [" + "; ".join(ents) + "])", r[1:]
    if h[0] in "ui" and re.fullmatch(r"-?[0-9]+", h[1:]):
        return "(JNum (%s (%d)%%Z))" % ("PosInt" if h[0] == "u" else "NegInt", int(h[1:])), t[1:]
    if h[0] == "d" and re.fullmatch(r"[0-9a-f]+", h[1:]):
        return "(JNum (SFloat (sf_of_bits %d%%Z)))" % int(h[1:], 16), t[1:]
    if h[0] == "$":
        return f"(JStr {cps_term(h[1:])})", t[1:]
    raise _BSkip("sj token")


def _b_serde_term(fam, t):
    op = t[0]
    if fam == "c17" and op == "ser" and t[1] == "|":
        v, _ = value_term(t[2:])
        return f"let v := {v} in (0, (to_value (fun _ => {_B_SENTINEL}) v, x_isobj v, ser_spec v, K4 v))"
    if fam == "c17" and op in ("de", "txt"):
        o, r = _b_oracle(t[1:])
        v, _ = value_term(r)
        f = "from_value" if op == "de" else "from_text"
        return (f"let v := {v} in let r := {f} {_b_fmt_term(o['W'])} v in "
                f"({1 if op == 'de' else 2}, (r, match r with Ok w => de_ok v w | _ => false end, K3 v, K4 v, collapse v))")
    if fam == "c18" and op == "fs":
        o, r = _b_oracle(t[1:])
        j, _ = _b_sj_term(r)
        return (f"let j := {j} in let r := from_sj {_b_fmt_term(o['R'])} j in "
                f"(3, (wf_sj j, r, match r with Ok v => match into_sj v with Ok j' => Some (x_sj j') | _ => None end "
                f"| _ => None end, x_sj j))")
    if fam == "c18" and op == "is":
        o, r = _b_oracle(t[1:])
        v, _ = value_term(r)
        return (f"let v := {v} in (4, (nodup_keysb v && nums64 v, v, match into_sj v with Ok j => Some (x_sj j, "
                f"match from_sj {_b_fmt_term(o['R'])} j with Ok w => Some (w, detour_ok v w) | _ => None end) "
                f"| _ => None end))")
    raise _BSkip(op)


def _b_dec(neg, mag):
    # fam_serde.ml dec_of_z
    return ("-" if neg else "") + str(mag)


def _b_sj_line(v):
    """x_sj image of a serde_json value -> fam_serde.ml j_str"""
    c, a = v[1], v[2]
    if c == "VNum":
        tag, neg, mag = a[0][1]
        if tag == 2:
            return "d%016x" % mag
        return ("u" if tag == 0 else "i") + _b_dec(neg, mag)
    if c == "VArr":
        return "[" + "".join(" " + _b_sj_line(x) for x in a[0][1]) + " ]"
    if c == "VObj":
        return "{" + "".join(" $" + cps_tok(e[1][0]) + " " + _b_sj_line(e[1][1]) for e in a[0][1]) + " }"
    return value_line(v)


def _b_flags(l):
    return "".join(" !" + n for n, b in l if b)


def _b_serde_line(fam, ast):
    tag, x = ast[1]
    if tag == 0:
        r, isobj, sp, k4 = x[1]
        if r[1] == "Ok":
            m = "OK " + value_line(r[2][0])
        elif r[1] == "Err":
            m = "ERR " + {"ECustom": "custom", "ENonStringKey": "nonstringkey", "EMalformed": "malformed"}[r[2][0][1]]
        else:
            m = {"Panic": "PANIC", "OutOfFuel": "FUEL"}[r[1]]
        o = " o=1" if _b_bool(isobj) else ""
        return m + o, "OK " + value_line(sp) + o + _b_flags([("K4", _b_bool(k4))])
    if tag in (1, 2):
        r, ok, k3, k4, col = x[1]
        m = "OK " + value_line(r[2][0]) if r[1] == "Ok" else {"Err": "ERR", "Panic": "PANIC", "OutOfFuel": "FUEL"}[r[1]]
        k3, k4 = _b_bool(k3), _b_bool(k4)
        if tag == 2 and k3:
            return m, m + _b_flags([("K4", k4)])
        fl = _b_flags([("K3", k3), ("K4", k4)]) if tag == 1 else _b_flags([("K4", k4)])
        return m, (m if _b_bool(ok) else "WANT " + value_line(col)) + fl
    if tag == 3:
        wf, r, back, j = x[1]
        if not _b_bool(wf):
            return "BADCASE serde_json value outside what its types guarantee", ""
        if r[1] != "Ok":
            return "PANIC", "NOPANIC"
        vs = value_line(r[2][0])
        bs = "PANIC" if back[1] == "None" else _b_sj_line(back[2][0])
        return f"v={vs} back={bs}", f"v={vs} back={_b_sj_line(j)}"
    if tag == 4:
        indomain, v, r = x[1]
        if r[1] == "None":
            return "PANIC", "NOPANIC"
        j, w = r[2][0][1]
        js = _b_sj_line(j)
        if w[1] == "None":
            return f"j={js} v=PANIC", "NOPANIC"
        w, ok = w[2][0][1]
        m = f"j={js} v={value_line(w)}"
        return m, (m if (not _b_bool(indomain)) or _b_bool(ok) else "WANT " + value_line(v))
    raise ValueError("serde tag %r" % (tag,))


# ------------------------------------------------------------------ C03
_B_C03_BAD = ("arr_garbage", "obj_garbage", "arr_sibling", "long_number_bad")
_B_C03_LONG = ("ws_run", "ws_run_open", "long_string", "long_string_open", "long_number", "long_number_bad", "wide_arr", "wide_obj",
               "hi_run", "lo_run", "pair_run", "hi_run_key")


def _b_deep_doc(shape, d):
    """the documents of harness/src/c03.rs (ocaml/fam_deep.ml deep_doc), as text"""
    if shape in ("arr", "arr_open", "arr_garbage", "arr_sibling"):
        return (("[" if shape == "arr_sibling" else "") + "[" * d + ("" if shape == "arr_open" else "]" * d)
                + ("x" if shape == "arr_garbage" else "") + (",]" if shape == "arr_sibling" else ""))
    if shape in ("obj", "obj_open", "obj_garbage"):
        return '{"a":' * d + "1" + ("" if shape == "obj_open" else "}" * d) + ("x" if shape == "obj_garbage" else "")
    if shape in ("mixed", "mixed_open"):
        s = "".join("[" if i % 2 == 0 else '{"k": ' for i in range(d)) + "null"
        if shape == "mixed":
            s += "".join(" ]" if i % 2 == 0 else "}" for i in range(d - 1, -1, -1))
        return s
    if shape == "wide_deep":
        return "[1," * d + "[]" + ",2]" * d
    if shape == "ws_run":
        return " " * d + "[1" + "\n" * d + ",\t2" + "\r" * d + "]" + "\t" * d
    if shape == "ws_run_open":
        return '{"k"' + " " * d
    if shape == "long_string":
        return '["' + "a" * d + '","' + "\\n" * d + '"]'
    if shape == "long_string_open":
        return '"' + "\\u00e9" * d
    if shape == "long_number":
        return "[-1" + "0" * d + "." + "5" * d + "e-1" + "7" * d + "]"
    if shape == "long_number_bad":
        return "1" + "0" * d + "."
    if shape == "wide_arr":
        return "[0" + ",0" * d + "]"
    if shape == "wide_obj":
        return '{"a":0' + ',"a":0' * d + "}"
    if shape == "hi_run":
        return '"' + "\\ud800" * d + '"'
    if shape == "lo_run":
        return '["' + "\\udc00" * d + '"]'
    if shape == "pair_run":
        return '"' + "\\ud83d\\ude00" * d + '"'
    if shape == "hi_run_key":
        return '{"' + "\\udbff" * d + 'x":0}'
    return "null"


def _b_c03_term(t):
    if t[0] in ("d", "dd") and len(t) == 5:
        shape, d, o, entry = t[1], int(t[2]), t[3], t[4]
        if not (d <= 500 or (shape in _B_C03_LONG and d <= 1000)):
            raise _BSkip("closed-form")     # the driver answers from the shape alone: no model evaluation to cross-check
        doc = "[" + "; ".join(str(ord(c)) for c in _b_deep_doc(shape, d)) + "]"
        err = 1 if (shape in _B_C03_BAD or shape.endswith("_open") and len(shape) > 5
                    or d > 0 and shape in ("hi_run", "hi_run_key") and int(o) & 1 == 0
                    or d > 0 and shape == "lo_run" and int(o) & 2 == 0) else 0
        count = {"arr": d, "obj": 3 * d + 1, "mixed": d + 2 * (d // 2) + 1, "wide_deep": 3 * d + 1, "ws_run": 3,
                 "long_string": 3, "long_number": 2, "wide_arr": d + 2, "wide_obj": 3 * d + 4,
                 "hi_run": 1, "pair_run": 1, "lo_run": 2, "hi_run_key": 4}.get(shape, 0)
        r = (f"parse_str_with {opts_term(o)} {doc}" if entry == "str"
             else f"parse_slice_with {opts_term(o)} (utf8_encode_all {doc})")
        return f"(2, x_c03 ({r}), ({err}, {count}))"
    if t[0] == "s" and len(t) == 3:
        return f"(0, x_c03 (parse_str_with {opts_term(t[1])} {cps_term(t[2])}), (0, 0))"
    if t[0] == "b" and len(t) == 3:
        return f"(1, x_c03 (parse_slice_with {opts_term(t[1])} {cps_term(t[2])}), (0, 0))"
    raise _BSkip(t[0])


def _b_c03_line(ast):
    kind, (_, (cls, tr, cm)), (_, (err, count)) = ast[1]
    if kind == 2:
        got = "OK %d/%d" % (tr, cm) if cls == 0 else "ERR" if cls == 1 else "MODEL-PANIC"
        expected = "ERR" if err else "OK %d/%d" % (count, count)
        return (expected if got == expected else f"MODEL-DISAGREES-WITH-CLOSED-FORM {got} vs {expected}"), ""
    c = ("OK", "ERR", "MODEL-PANIC", "MODEL-FUEL")[cls]
    tc = "%d/%d" % (tr, cm) if cls == 0 else "-"
    return (f"{c} {c} T={tc} pulls=ok cut=ok" if kind == 0 else f"{c} T={tc}"), ""


# ------------------------------------------------------------------ C16
HEADER_C16 = """From Coq Require Import ZArith NArith List Bool SpecFloat.
From JsonSyntax Require Import Base.Prelude Base.Value Base.Float64 Spec.NumSpelling Spec.Multimap Spec.SerdeTyped Model.Serde
  Spec.SerdeShape32.
""" + _B_PRINTING + """
(* the float tables of the case line: the most recent entry for a bit pattern wins (the driver prepends) *)
Fixpoint x_assoc (b : Z) (l : list (Z * list N)) : option (list N) :=
  match l with
  | [] => None
  | (k, s) :: r => if (k =? b)%Z then Some s else x_assoc b r
  end.
Definition x_fmt (tab : list (Z * list N)) (ref : Z -> list N) (b : Z) : list N :=
  match x_assoc b tab with Some s => s | None => ref b end.
(* fam_serde_typed.ml enc_cvalue: a number is shown by its event, in the clothes of a serde_json number *)
Fixpoint x_cv (v : value) : tsj :=
  match v with
  | VNull => TjNull
  | VBool b => TjBool b
  | VNum s => TjNum (match num_event s with EvU z => SJPos z | EvI z => SJNeg z | EvF b => SJFloat b end)
  | VStr s => TjStr s
  | VArr l => TjArr (map x_cv l)
  | VObj es => TjObj (map (fun e : list N * value => (fst e, x_cv (snd e))) es)
  end.
Definition x_dres (r : dres) : N * option (tsd * tsd) :=
  match r with
  | Ok back => (0, Some (back, norm back))
  | Err _ => (1, None)
  | Panic _ => (2, None)
  | OutOfFuel => (3, None)
  end.
Definition x_hyp (tab64 tab32 tabsj : list (Z * list N)) : bool :=
  forallb (fun e : Z * list N => let (b, s) := e in
             (de_f64 (num_event s) =? f64_norm b)%Z && nkey_eqb (num_key false s) (key_of_f64 b)) tab64
  && forallb (fun e : Z * list N => let (b, s) := e in
                (de_f32 s =? f32_norm b)%Z
                && (sf32_bits (sgl s) =? b)%Z
                && match x_assoc (f64_of_f32 b) tabsj with Some sj => (de_f32 sj =? b)%Z | None => false end) tab32
  && forallb (fun e : Z * list N => let (b, s) := e in
                match num_event s with EvF b' => (b' =? b)%Z | _ => false end) tabsj.
Definition x_c16 (E : env) (t : ty) (d : tsd) (tab64 tab32 tabsj : list (Z * list N)) (xv : option value) :=
  let fuel := 100000%nat in
  let sv := tser (x_fmt tab64 fmt_f64_ref) (x_fmt tab32 fmt_f32_ref) d in
  ((has_type E d t, finite_floats d, known_class d, no_f32 d, x_hyp tab64 tab32 tabsj,
    (* the premise of C16_shape32 / C16_shape32_model on the f64 leaves, in both readings *)
    f64_leaves_agree32 (x_fmt tab64 fmt_f64_ref) d
    && forallb (fun b => nkey_eqb (num_key true (x_fmt tab64 fmt_f64_ref b)) (key_of_float true b)) (f64_leaves d)),
   norm d,
   match sv with
   | Ok v => (0, Some (x_cv v, x_dres (de E fuel t v)))
   | Err SNonStringKey => (1, None)
   | Err SMalformed => (2, None)
   | Err SCustom => (3, None)
   | Panic _ => (4, None)
   | OutOfFuel => (5, None)
   end,
   match ser_sj d with
   | Ok j => Some (j,
                   match sv with
                   | Ok v => (shape_eqb (shape_of false v) (shape_of_sj false j),
                              shape_eqb (shape_of true v) (shape_of_sj true j),
                              shape_eqb (shape32 v) (shape32_sj j))
                   | _ => (false, false, false)
                   end,
                   x_dres (de E fuel t (from_tsj (x_fmt tabsj fmt_sj_ref) j)))
   | _ => None
   end,
   match xv with Some x => Some (x_dres (de E fuel t x)) | None => None end).
"""
_B_HEADERS["c16"] = HEADER_C16

_B_IKINDS = ("i8", "i16", "i32", "i64", "u8", "u16", "u32", "u64")


def _b_list(xs):
    return "[" + "; ".join(xs) + "]"


def _b_ty(t):
    h = t[0]
    simple = {"B": "TyBool", "f32": "TyF32", "f64": "TyF64", "ch": "TyChar", "st": "TyStr", "un": "TyUnit"}
    if h in simple:
        return simple[h], t[1:]
    if h in _B_IKINDS:
        return f"(TyInt {h.upper()})", t[1:]
    if h in ("O", "Q"):
        x, r = _b_ty(t[1:])
        return f"({'TyOption' if h == 'O' else 'TySeq'} {x})", r
    if h == "T(":
        l, r = _b_tys(t[1:])
        return f"(TyTuple {_b_list(l)})", r
    if h == "M":
        k = t[1]
        if k == "ks":
            kt = "KStr"
        elif k == "kc":
            kt = "KChar"
        elif k.startswith("ki:") and k[3:] in _B_IKINDS:
            kt = f"(KInt {k[3:].upper()})"
        elif k.startswith("ke:"):
            kt = f"(KEnum {cps_term(k[3:])})"
        else:
            raise _BSkip("kty")
        x, r = _b_ty(t[2:])
        return f"(TyMap {kt} {x})", r
    if h.startswith("N:"):
        return f"(TyNamed {cps_term(h[2:])})", t[1:]
    raise _BSkip("ty")


def _b_tys(t):
    l = []
    while t[0] != ")":
        x, t = _b_ty(t)
        l.append(x)
    return l, t[1:]


def _b_ftys(t):
    l = []
    while t[0] != "}":
        x, r = _b_ty(t[1:])
        l.append(f"({cps_term(t[0])}, {x})")
        t = r
    return l, t[1:]


def _b_variants(t):
    l = []
    while t[0] != "}":
        name, k = cps_term(t[0]), t[1]
        if k == "vu":
            d, r = "VUnit", t[2:]
        elif k == "vn":
            x, r = _b_ty(t[2:])
            d = f"(VNewtype {x})"
        elif k == "vt(":
            x, r = _b_tys(t[2:])
            d = f"(VTuple {_b_list(x)})"
        elif k == "vs{":
            x, r = _b_ftys(t[2:])
            d = f"(VStruct {_b_list(x)})"
        else:
            raise _BSkip("vdef")
        l.append(f"({name}, {d})")
        t = r
    return l, t[1:]


def _b_defs(t):
    l = []
    while t[0] != "}":
        if not t[0].startswith("D:"):
            raise _BSkip("defs")
        name, k = cps_term(t[0][2:]), t[1]
        if k == "du":
            d, r = "DefUnit", t[2:]
        elif k == "dn":
            x, r = _b_ty(t[2:])
            d = f"(DefNewtype {x})"
        elif k == "dt(":
            x, r = _b_tys(t[2:])
            d = f"(DefTuple {_b_list(x)})"
        elif k == "ds{":
            x, r = _b_ftys(t[2:])
            d = f"(DefStruct {_b_list(x)})"
        elif k == "de{":
            x, r = _b_variants(t[2:])
            d = f"(DefEnum {_b_list(x)})"
        else:
            raise _BSkip("def")
        l.append(f"({name}, {d})")
        t = r
    return l, t[1:]


def _b_name2(x):
    a, b = x.split(":")
    return cps_term(a), cps_term(b)


def _b_hexz(h):
    if not re.fullmatch(r"[0-9a-f]*", h):
        raise _BSkip("hex")
    return "%d%%Z" % (int(h, 16) if h else 0)


def _b_sd(t):
    """tokens of fam_serde_typed.ml dec_sd (same order of tests) -> (Gallina term of type tsd, remaining tokens)"""
    h = t[0]
    simple = {"b0": "(SdBool false)", "b1": "(SdBool true)", "U": "SdUnit", "None": "SdNone"}
    if h in simple:
        return simple[h], t[1:]
    if h == "Some":
        x, r = _b_sd(t[1:])
        return f"(SdSome {x})", r
    if h in ("Q[", "T["):
        l, r = _b_sds(t[1:])
        return f"({'SdSeq' if h == 'Q[' else 'SdTuple'} {_b_list(l)})", r
    if h == "M{":
        l, r = [], t[1:]
        while r[0] != "}":
            k, r = _b_sd(r)
            v, r = _b_sd(r)
            l.append(f"({k}, {v})")
        return f"(SdMap {_b_list(l)})", r[1:]
    if h.startswith("F32:"):
        return f"(SdF32 {_b_hexz(h[4:])})", t[1:]
    if h.startswith("F64:"):
        return f"(SdF64 {_b_hexz(h[4:])})", t[1:]
    if h.startswith("I"):
        k, z = h[1:].split(":")
        if k not in _B_IKINDS or not re.fullmatch(r"-?[0-9]+", z):
            raise _BSkip("int")
        return f"(SdInt {k.upper()} ({int(z)})%Z)", t[1:]
    if h.startswith("US:"):
        return f"(SdUnitStruct {cps_term(h[3:])})", t[1:]
    if h.startswith("UV:"):
        a, b = _b_name2(h[3:])
        return f"(SdUnitVariant {a} {b})", t[1:]
    if h.startswith("NS:"):
        x, r = _b_sd(t[1:])
        return f"(SdNewtypeStruct {cps_term(h[3:])} {x})", r
    if h.startswith("NV:"):
        a, b = _b_name2(h[3:])
        x, r = _b_sd(t[1:])
        return f"(SdNewtypeVariant {a} {b} {x})", r
    if h.startswith("TS:") and t[1] == "[":
        l, r = _b_sds(t[2:])
        return f"(SdTupleStruct {cps_term(h[3:])} {_b_list(l)})", r
    if h.startswith("TV:") and t[1] == "[":
        a, b = _b_name2(h[3:])
        l, r = _b_sds(t[2:])
        return f"(SdTupleVariant {a} {b} {_b_list(l)})", r
    if h.startswith("ST:") and t[1] == "{":
        l, r = _b_fields(t[2:])
        return f"(SdStruct {cps_term(h[3:])} {_b_list(l)})", r
    if h.startswith("SV:") and t[1] == "{":
        a, b = _b_name2(h[3:])
        l, r = _b_fields(t[2:])
        return f"(SdStructVariant {a} {b} {_b_list(l)})", r
    if h.startswith("C"):
        return f"(SdChar {_b_hexz(h[1:])[:-2]})", t[1:]
    if h.startswith("S"):
        return f"(SdStr {cps_term(h[1:])})", t[1:]
    raise _BSkip("tsd")


def _b_sds(t):
    l = []
    while t[0] != "]":
        x, t = _b_sd(t)
        l.append(x)
    return l, t[1:]


def _b_fields(t):
    l = []
    while t[0] != "}":
        x, r = _b_sd(t[1:])
        l.append(f"({cps_term(t[0])}, {x})")
        t = r
    return l, t[1:]


def _b_c16_term(t):
    if len(t) < 4 or t[2] != "|" or t[3] != "E{":
        raise _BSkip("c16 line")
    env, r = _b_defs(t[4:])
    if r[0] != "|":
        raise _BSkip("env |")
    ty, r = _b_ty(r[1:])
    if r[0] != "|":
        raise _BSkip("ty |")
    d, r = _b_sd(r[1:])
    xv = "None"
    for i in range(len(r) - 1):
        if r[i] == "|" and r[i + 1] == "X":
            x, rest = value_term(r[i + 2:])
            if rest:
                raise _BSkip("X value")
            xv, r = f"(Some {x})", r[:i]
            break
    if not r or r[0] != "|":
        raise _BSkip("float table")
    tabs = {"f64": [], "f32": [], "sj": []}
    if r[1:] != ["-"]:
        for e in r[1:]:
            p = e.split(":")
            if len(p) != 3 or p[0] not in tabs:
                raise _BSkip("float table entry")
            tabs[p[0]].insert(0, f"({_b_hexz(p[1])}, {cps_term(p[2])})")
    return (f"x_c16 {_b_list(env)} {ty} {d} {_b_list(tabs['f64'])} {_b_list(tabs['f32'])} {_b_list(tabs['sj'])} {xv}")


def _b_z(x):
    return -x[2][0] if isinstance(x, tuple) else x


def _b_hexn(x):
    x = _b_z(x)
    if x < 0:
        raise ValueError("negative bits")
    return "%x" % x


def _b_enc_sd(d):
    """fam_serde_typed.ml enc_sd"""
    c, a = d[1], d[2]
    lst = lambda l: "[" + "".join(" " + _b_enc_sd(x) for x in l[1]) + " ]"
    flds = lambda l: "{" + "".join(" " + cps_tok(e[1][0]) + " " + _b_enc_sd(e[1][1]) for e in l[1]) + " }"
    nv = lambda: cps_tok(a[0]) + ":" + cps_tok(a[1])
    if c == "SdBool":
        return "b1" if _b_bool(a[0]) else "b0"
    if c == "SdInt":
        return "I" + a[0][1].lower() + ":" + str(_b_z(a[1]))
    if c == "SdF32":
        return "F32:" + _b_hexn(a[0])
    if c == "SdF64":
        return "F64:" + _b_hexn(a[0])
    if c == "SdChar":
        return "C%x" % a[0]
    if c == "SdStr":
        return "S" + cps_tok(a[0])
    if c == "SdUnit":
        return "U"
    if c == "SdUnitStruct":
        return "US:" + cps_tok(a[0])
    if c == "SdNone":
        return "None"
    if c == "SdSome":
        return "Some " + _b_enc_sd(a[0])
    if c == "SdNewtypeStruct":
        return "NS:" + cps_tok(a[0]) + " " + _b_enc_sd(a[1])
    if c == "SdSeq":
        return "Q" + lst(a[0])
    if c == "SdTuple":
        return "T" + lst(a[0])
    if c == "SdTupleStruct":
        return "TS:" + cps_tok(a[0]) + " " + lst(a[1])
    if c == "SdMap":
        parts = sorted((_b_enc_sd(e[1][0]), _b_enc_sd(e[1][1])) for e in a[0][1])
        return "M{" + "".join(" " + k + " " + v for k, v in parts) + " }"
    if c == "SdStruct":
        return "ST:" + cps_tok(a[0]) + " " + flds(a[1])
    if c == "SdUnitVariant":
        return "UV:" + nv()
    if c == "SdNewtypeVariant":
        return "NV:" + nv() + " " + _b_enc_sd(a[2])
    if c == "SdTupleVariant":
        return "TV:" + nv() + " " + lst(a[2])
    if c == "SdStructVariant":
        return "SV:" + nv() + " " + flds(a[2])
    raise ValueError(c)


def _b_enc_sj(j):
    """fam_serde_typed.ml enc_sj (and enc_cvalue through x_cv)"""
    c, a = j[1], j[2]
    if c == "TjNull":
        return "n"
    if c == "TjBool":
        return "t" if _b_bool(a[0]) else "f"
    if c == "TjNum":
        k, z = a[0][1], a[0][2][0]
        return "F" + _b_hexn(z) if k == "SJFloat" else "I" + str(_b_z(z))
    if c == "TjStr":
        return "$" + cps_tok(a[0])
    if c == "TjArr":
        return "[" + "".join(" " + _b_enc_sj(x) for x in a[0][1]) + " ]"
    if c == "TjObj":
        return "{" + "".join(" $" + cps_tok(e[1][0]) + " " + _b_enc_sj(e[1][1]) for e in a[0][1]) + " }"
    raise ValueError(c)


def _b_c16_line(ast):
    # the leading tuple of flags is printed flattened into the outer one (pairs associate to the left)
    f0, f1, f2, f3, f4, f5, nd, ser, sj, dx = ast[1]
    ht, fin, kc, nof32, hyp, l64 = [_b_bool(x) for x in (f0, f1, f2, f3, f4, f5)]
    dom = ht and fin
    nd_s = _b_enc_sd(nd)
    b01 = lambda b: "1" if b else "0"

    def dres(r):        # x_dres -> (text, same as d after norm)
        tag, x = r[1]
        if tag == 0:
            back, nback = x[2][0][1]
            return _b_enc_sd(back), _b_enc_sd(nback) == nd_s
        return ("E", "PANIC", "FUEL")[tag - 1], False
    tag, x = ser[1]
    if tag == 0:
        v, r = x[2][0][1]
        ser_s = _b_enc_sj(v)
        de_s, rt = dres(r)
    else:
        ser_s, de_s, rt = ("EK", "EM", "EC", "PANIC", "FUEL")[tag - 1], "-", False
    if sj[1] == "Some":
        j, shs, r = sj[2][0][1]
        sh, sh32, sh32s = [_b_bool(x) for x in shs[1]]
        sj_s = _b_enc_sj(j)
        via_s, vrt = dres(r)
    else:
        sj_s, sh, sh32, sh32s, via_s, vrt = "E", False, False, False, "-", False
    model = (f"dom={b01(dom)} hyp={b01(hyp)} | ser {ser_s} | de {de_s} | rt={b01(rt)} | sj {sj_s} | sh={b01(sh)} "
             f"sh32={b01(sh32)} | via {via_s} | vrt={b01(vrt)}")
    if dx[1] == "Some":
        model += " | dx " + dres(dx[2][0])[0]
    want = lambda c, x: True if c else x        # on its domain the property demands it; elsewhere the model's own answer
    # sh32: demanded where every f64 leaf agrees with its spelling at binary32 (L64); elsewhere the specification's own shape32
    spec = (f"rt={b01(want(dom, rt))} sh={b01(want(dom and nof32, sh))} sh32={b01(want(dom and l64, sh32s))} "
            f"vrt={b01(want(dom, vrt))} K={b01(kc)} L64={b01(l64)}")
    return model, spec


# ------------------------------------------------------------------ dispatch
def _b_case_term(fam, t):
    """Gallina term for the tokens t of a case line; None for a kind that is skipped (why: _b_skip_reason[0])"""
    _b_skip_reason[0] = "malformed"
    try:
        if fam in ("c09", "c10"):
            return _b_canon_term(fam, t)
        if fam in ("c17", "c18"):
            return _b_serde_term(fam, t)
        if fam == "c03":
            return _b_c03_term(t)
        if fam == "c16":
            return _b_c16_term(t)
    except _BSkip as e:
        _b_skip_reason[0] = str(e)
        return None
    except (IndexError, KeyError, ValueError):
        return None
    return None


def _b_model_line(fam, ast):
    if fam in ("c09", "c10"):
        return _b_canon_line(fam, ast)
    if fam in ("c17", "c18"):
        return _b_serde_line(fam, ast)
    if fam == "c03":
        return _b_c03_line(ast)
    if fam == "c16":
        return _b_c16_line(ast)
    raise ValueError(fam)


# ------------------------------------------------------------------ driver: sampling, shards, report
_B_MAX_CASE = 6000      # characters of a case line (a number spelling of n digits takes about 3n)
_B_SHARDS = 8
# the canonicalization families convert every number leaf through Flocq inside Coq: a wide object of 90 members
# costs a minute there, so their in-Coq sample takes the cases below this length (the rest is counted as skipped)
_B_MAX_CASE_FAM = {"c09": 4000, "c10": 4000}


def _b_prep(ans):
    """printed normal form -> text parse_term reads: scope delimiters dropped, a negative numeral -n becomes (ZNEG n)"""
    return re.sub(r"-(\d+)", r"(ZNEG \1)", re.sub(r"%[A-Za-z_]+", "", ans))


def _b_answers(out):
    answers, cur = [], None
    for ln in out.split("\n"):
        if ln.startswith("     = "):
            cur = [ln[7:]]
        elif ln.startswith("     : ") and cur is not None:
            answers.append(" ".join(cur))
            cur = None
        elif cur is not None:
            cur.append(ln)
    return answers


def _b_crosscheck(fam, pairs, coq_dir, tmp_dir, limit=200, timeout=900):
    """As crosscheck, for the families of this block: per-family header, the sample is split over several
    coqc processes, and what was sampled / skipped is written to <tmp_dir>/xcheck_<fam>.report.json."""
    sel, skipped = [], {}

    def skip(why, case):
        k = why + ":" + case.split(" ", 1)[0]
        skipped[k] = skipped.get(k, 0) + 1
    for case, model, spec in pairs:
        if len(sel) >= limit:
            break
        if len(case) > _B_MAX_CASE_FAM.get(fam, _B_MAX_CASE):
            skip("too-long", case)
            continue
        if model.startswith("BADCASE") or model.startswith("MODEL-STACK-OVERFLOW"):
            skip("driver-badcase", case)      # the driver produced no model line to cross-check
            continue
        try:
            t = case_term(fam, case)
        except Exception:
            t = None
        if t is None:
            skip("not-rendered(" + _b_skip_reason[0] + ")", case)
            continue
        sel.append((case, model, spec, t))
    report = {"family": fam, "offered": len(pairs), "checked": 0, "skipped": skipped, "kinds": {}, "max_case_chars": 0}
    os.makedirs(tmp_dir, exist_ok=True)
    rpath = os.path.join(tmp_dir, f"xcheck_{fam}.report.json")

    def done(n, bad, err):
        report.update({"checked": n, "disagreements": len(bad), "error": err})
        with open(rpath, "w") as f:
            json.dump(report, f, indent=1)
        return n, bad, err
    if not sel:
        return done(0, [], None)
    for case, _, _, _ in sel:
        k = case.split(" ", 1)[0]
        report["kinds"][k] = report["kinds"].get(k, 0) + 1
        report["max_case_chars"] = max(report["max_case_chars"], len(case))
    nsh = max(1, min(_B_SHARDS, len(sel) // 8))
    shards = [sel[i::nsh] for i in range(nsh)]      # round-robin: long cases spread evenly

    def run(i):
        src = os.path.join(tmp_dir, f"xcheck_{fam}_{i}.v")
        with open(src, "w") as f:
            f.write(_B_HEADERS[fam])
            for j, (_, _, _, t) in enumerate(shards[i]):
                f.write(_emit_eval(t, j))
        t0 = time.time()
        p = subprocess.run(["coqc", "-noglob", "-Q", "theories", "JsonSyntax", "-w", "none", "-o",
                            os.path.join(tmp_dir, f"xcheck_{fam}_{i}.vo"), src],
                           cwd=coq_dir, stdout=subprocess.PIPE, stderr=subprocess.STDOUT, text=True, timeout=timeout)
        return p.returncode, p.stdout, time.time() - t0
    t0 = time.time()
    try:
        with ThreadPoolExecutor(max_workers=nsh) as ex:
            results = list(ex.map(run, range(nsh)))
    except subprocess.TimeoutExpired:
        return done(0, [], f"coqc did not finish the cross-check files xcheck_{fam}_*.v within {timeout} s")
    report["coqc_wall_s"] = round(time.time() - t0, 1)
    report["coqc_cpu_like_s"] = round(sum(r[2] for r in results), 1)
    report["shards"] = nsh
    bad = []
    for i, (rc, out, _) in enumerate(results):
        if rc != 0:
            return done(0, [], f"coqc failed on the cross-check file xcheck_{fam}_{i}.v: " + out[-1500:])
        answers = _b_answers(out)
        if len(answers) != len(shards[i]):
            return done(0, [], f"cross-check: {len(shards[i])} terms but {len(answers)} answers (xcheck_{fam}_{i}.v)")
        for (case, model, spec, _), ans in zip(shards[i], answers):
            try:
                m, s = model_line(fam, parse_term(_b_prep(ans)))
            except Exception as e:  # the third printer failed: report, do not guess
                bad.append({"case": case, "driver": model, "coq": "UNPARSED " + repr(e) + " " + ans[:200]})
                continue
            if m != model or (s is not None and s != "*" and s != spec):
                bad.append({"case": case, "driver": model + ("\t" + spec if spec else ""),
                            "coq": m + ("\t" + s if s is not None else "")})
    return done(len(sel), bad, None)
# ====================================================================================================
# END block xcheckB
# ====================================================================================================
