#!/usr/bin/env python3
"""Translator for the rule set of the `json!` macro (property C19).

Parses `macro_rules! json { ... }` in <repo>/src/macros.rs and prints it in the deep embedding
of coq/theories/Model/MacroSyntax.v as coq/theories/Generated/MacroRules.v (`src_rules`).
Proofs/MacroRulesTie.v proves `rules_tie : src_rules = model_rules`, where `model_rules` is the
hand-written reference the functions of Model/Macro.v implement; `bin/check C19` regenerates the
file from the tree under check on every run (`pre_build` below) and re-establishes that theorem.

  python3 lib/macro_translate.py [--repo DIR]            print the generated file
  python3 lib/macro_translate.py [--repo DIR] --write    refresh coq/theories/Generated/MacroRules.v
  python3 lib/macro_translate.py [--repo DIR] --diff     rule diff against the committed file

What is trusted here: the tokeniser and token-tree builder below (Rust lexical structure:
comments, identifiers, literals, punctuation with maximal munch, the three delimiters), the
reading of `$x:frag`, `$( ... ) sep? rep`, and the recognition of the nested expressions of
the templates (`name!(..)` invocations, `$crate::path(args)` constructor expressions,
`$x.into()`).  Metavariables are numbered in order of first occurrence in the pattern.
Plain python3, no dependencies."""
import difflib
import os
import re
import sys

MACRO = "json"
GEN_REL = "theories/Generated/MacroRules.v"
TIE_TARGET = "theories/Proofs/MacroRulesTie.vo"


class TranslateError(Exception):
    def __init__(self, msg, line=None):
        super().__init__(msg if line is None else f"line {line}: {msg}")
        self.line = line


# ----------------------------------------------------------------------------- tokeniser

PUNCT3 = ["<<=", ">>=", "...", "..="]
PUNCT2 = ["::", "->", "=>", "==", "!=", "<=", ">=", "&&", "||", "+=", "-=", "*=", "/=", "%=", "^=",
          "&=", "|=", "<<", ">>", ".."]
PUNCT1 = "+-*/%^!&|=<>@.,;:#$?~"
OPEN = {"(": "Paren", "[": "Bracket", "{": "Brace"}
CLOSE = {")": "Paren", "]": "Bracket", "}": "Brace"}
NUM = re.compile(r"\d[\d_]*(?:\.(?![.A-Za-z_])[\d_]*)?(?:[eE][+-]?[\d_]+)?[A-Za-z0-9_]*")
IDENT = re.compile(r"(?:r#)?[^\W\d]\w*")
CHARLIT = re.compile(r"'(?:\\(?:x[0-9a-fA-F]{2}|u\{[0-9a-fA-F_]+\}|.)|[^'\\\n])'")
RAWSTR = re.compile(r"(?:b|c)?r(#*)\"")


class Tok:
    """kind: ident | punct | lit | group (text = Paren/Bracket/Brace, sub = content)"""
    __slots__ = ("kind", "text", "line", "sub")

    def __init__(self, kind, text, line, sub=None):
        self.kind, self.text, self.line, self.sub = kind, text, line, sub

    def is_p(self, s):
        return self.kind == "punct" and self.text == s

    def __repr__(self):
        return f"{self.kind}:{self.text}@{self.line}"


def lex(src):
    """Flat token list (delimiters as punct tokens of kind 'open'/'close')."""
    out = []
    i, n, line = 0, len(src), 1
    while i < n:
        c = src[i]
        if c == "\n":
            line += 1
            i += 1
        elif c.isspace():
            i += 1
        elif src.startswith("//", i):
            j = src.find("\n", i)
            i = n if j < 0 else j
        elif src.startswith("/*", i):
            depth, j = 1, i + 2
            while j < n and depth:
                if src.startswith("/*", j):
                    depth, j = depth + 1, j + 2
                elif src.startswith("*/", j):
                    depth, j = depth - 1, j + 2
                else:
                    j += 1
            if depth:
                raise TranslateError("unterminated block comment", line)
            line += src.count("\n", i, j)
            i = j
        elif RAWSTR.match(src, i):
            m = RAWSTR.match(src, i)
            end = src.find('"' + m.group(1), m.end())
            if end < 0:
                raise TranslateError("unterminated raw string", line)
            j = end + 1 + len(m.group(1))
            out.append(Tok("lit", src[i:j], line))
            line += src.count("\n", i, j)
            i = j
        elif c == '"' or (c in "bc" and src.startswith('"', i + 1)):
            j = i + (1 if c == '"' else 2)
            while j < n and src[j] != '"':
                j += 2 if src[j] == "\\" else 1
            if j >= n:
                raise TranslateError("unterminated string literal", line)
            j += 1
            out.append(Tok("lit", src[i:j], line))
            line += src.count("\n", i, j)
            i = j
        elif c == "'" or (c == "b" and src.startswith("'", i + 1)):
            k = i + (0 if c == "'" else 1)
            m = CHARLIT.match(src, k)
            if m:
                out.append(Tok("lit", src[i:m.end()], line))
                i = m.end()
            else:
                m = IDENT.match(src, k + 1)
                if not m or c != "'":
                    raise TranslateError("stray quote", line)
                out.append(Tok("ident", src[i:m.end()], line))      # a lifetime
                i = m.end()
        elif c.isdigit():
            m = NUM.match(src, i)
            out.append(Tok("lit", m.group(0), line))
            i = m.end()
        elif c == "_" or c.isalpha():
            m = IDENT.match(src, i)
            out.append(Tok("ident", m.group(0), line))
            i = m.end()
        elif c in OPEN:
            out.append(Tok("open", c, line))
            i += 1
        elif c in CLOSE:
            out.append(Tok("close", c, line))
            i += 1
        else:
            for cand in PUNCT3 + PUNCT2:
                if src.startswith(cand, i):
                    out.append(Tok("punct", cand, line))
                    i += len(cand)
                    break
            else:
                if c in PUNCT1:
                    out.append(Tok("punct", c, line))
                    i += 1
                else:
                    raise TranslateError(f"character {c!r} is not part of the Rust syntax this translator knows", line)
    return out


def trees(flat):
    """Token trees: groups by matching delimiters."""
    stack = [[]]
    opens = []
    for t in flat:
        if t.kind == "open":
            opens.append(t)
            stack.append([])
        elif t.kind == "close":
            if not opens or OPEN[opens[-1].text] != CLOSE[t.text]:
                raise TranslateError(f"unbalanced delimiter {t.text!r}", t.line)
            o = opens.pop()
            sub = stack.pop()
            stack[-1].append(Tok("group", OPEN[o.text], o.line, sub))
        else:
            stack[-1].append(t)
    if opens:
        raise TranslateError(f"unclosed delimiter {opens[-1].text!r}", opens[-1].line)
    return stack[0]


def find_macro(ts, name):
    for i, t in enumerate(ts):
        if (t.kind == "ident" and t.text == "macro_rules" and i + 3 < len(ts)
                and ts[i + 1].is_p("!") and ts[i + 2].kind == "ident" and ts[i + 2].text == name
                and ts[i + 3].kind == "group"):
            return ts[i + 3]
        if t.kind == "group":
            r = find_macro(t.sub, name)
            if r is not None:
                return r
    return None


# ----------------------------------------------------------------------------- rules
# embedding (python side): tuples
#   stok   ("I"|"P"|"L", text)
#   pat    ("tok", stok) | ("var", idx, frag) | ("group", delim, [pat]) | ("rep", [pat], stok|None, rep)
#   tmpl   ("tok", stok) | ("var", idx) | ("group", delim, [tmpl]) | ("rep", [tmpl], stok|None, rep)
#          | ("mac", name, delim, [tmpl]) | ("build", builder, [[tmpl]])

FRAGS = {"tt": "FTt", "expr": "FExpr", "literal": "FLiteral", "ident": "FIdent"}
REPS = {"*": "RStar", "+": "RPlus", "?": "ROpt"}
MACS = {"json": "MJson", "json_vec": "MJsonVec", "json_unexpected": "MUnexpected",
        "json_expect_expr_comma": "MExpectExprComma"}
# $crate:: path -> (builder, takes a call)
BUILDERS = {
    "Value::Null": ("BNull", False),
    "Value::Boolean": ("BBoolean", True),
    "Value::from": ("BFrom", True),
    "Value::Array": ("BArray", True),
    "Value::Object": ("BObject", True),
    "Object::new": ("BObjectNew", True),
    "Object::from_vec": ("BFromVec", True),
    "object::Entry::new": ("BEntryNew", True),
}


def stok(t):
    return ({"ident": "I", "punct": "P", "lit": "L"}[t.kind], t.text)


def rep_suffix(ts, i, line):
    """After `$( ... )` at ts[i-1]: returns (sep, rep, next index)."""
    if i < len(ts) and ts[i].kind == "punct" and ts[i].text in REPS:
        return None, REPS[ts[i].text], i + 1
    if i + 1 < len(ts) and ts[i].kind in ("ident", "punct", "lit") and ts[i + 1].kind == "punct" \
            and ts[i + 1].text in ("*", "+"):
        return stok(ts[i]), REPS[ts[i + 1].text], i + 2
    raise TranslateError("repetition `$( ... )` without a repetition operator `*`, `+` or `?`", line)


def parse_pat(ts, names):
    out = []
    i = 0
    while i < len(ts):
        t = ts[i]
        if t.is_p("$"):
            if i + 1 >= len(ts):
                raise TranslateError("`$` at the end of a pattern", t.line)
            u = ts[i + 1]
            if u.kind == "group" and u.text == "Paren":
                inner = parse_pat(u.sub, names)
                sep, rep, i = rep_suffix(ts, i + 2, u.line)
                out.append(("rep", inner, sep, rep))
            elif u.kind == "ident" and i + 3 < len(ts) and ts[i + 2].is_p(":") and ts[i + 3].kind == "ident":
                if u.text in names:
                    raise TranslateError(f"metavariable ${u.text} is bound twice in one pattern", u.line)
                names[u.text] = len(names)
                f = ts[i + 3].text
                out.append(("var", names[u.text], FRAGS.get(f, ("FOther", f))))
                i += 4
            else:
                raise TranslateError("`$` in a pattern is followed neither by `name:fragment` nor by `( ... )`", t.line)
        elif t.kind == "group":
            out.append(("group", t.text, parse_pat(t.sub, names)))
            i += 1
        else:
            out.append(("tok", stok(t)))
            i += 1
    return out


def split_commas(ts):
    args, cur = [], []
    for t in ts:
        if t.is_p(","):
            args.append(cur)
            cur = []
        else:
            cur.append(t)
    if cur or args:
        args.append(cur)
    return args


def is_call(ts, i, name):
    """`. name ( )` at ts[i:]"""
    return (i + 2 < len(ts) and ts[i].is_p(".") and ts[i + 1].kind == "ident" and ts[i + 1].text == name
            and ts[i + 2].kind == "group" and ts[i + 2].text == "Paren" and not ts[i + 2].sub)


def parse_tmpl(ts, names):
    out = []
    i = 0
    while i < len(ts):
        t = ts[i]
        if t.is_p("$"):
            if i + 1 >= len(ts):
                raise TranslateError("`$` at the end of a template", t.line)
            u = ts[i + 1]
            if u.kind == "group" and u.text == "Paren":
                inner = parse_tmpl(u.sub, names)
                sep, rep, i = rep_suffix(ts, i + 2, u.line)
                out.append(("rep", inner, sep, rep))
            elif u.kind == "ident" and u.text == "crate":
                path = []
                i += 2
                while i + 1 < len(ts) and ts[i].is_p("::") and ts[i + 1].kind == "ident":
                    path.append(ts[i + 1].text)
                    i += 2
                p = "::".join(path)
                if i + 1 < len(ts) and ts[i].is_p("!") and ts[i + 1].kind == "group":
                    name = MACS.get(p, ("MOther", "$crate::" + p))
                    out.append(("mac", name, ts[i + 1].text, parse_tmpl(ts[i + 1].sub, names)))
                    i += 2
                    continue
                called = i < len(ts) and ts[i].kind == "group" and ts[i].text == "Paren"
                args = []
                if called:
                    args = [parse_tmpl(a, names) for a in split_commas(ts[i].sub)]
                    i += 1
                if p == "Value::try_from" and called and is_call(ts, i, "unwrap"):
                    out.append(("build", "BTryFromUnwrap", args))
                    i += 3
                elif p in BUILDERS and BUILDERS[p][1] == called:
                    out.append(("build", BUILDERS[p][0], args))
                else:
                    out.append(("build", ("BUnknown", p + ("()" if called else "")), args))
            elif u.kind == "ident":
                if u.text not in names:
                    raise TranslateError(f"metavariable ${u.text} of the template is not bound by the pattern", u.line)
                v = ("var", names[u.text])
                if is_call(ts, i + 2, "into"):
                    out.append(("build", "BInto", [[v]]))
                    i += 5
                else:
                    out.append(v)
                    i += 2
            else:
                raise TranslateError("`$` in a template is followed neither by a name nor by `( ... )`", t.line)
        elif t.kind == "ident" and i + 2 < len(ts) and ts[i + 1].is_p("!") and ts[i + 2].kind == "group":
            name = MACS.get(t.text, ("MOther", t.text))
            out.append(("mac", name, ts[i + 2].text, parse_tmpl(ts[i + 2].sub, names)))
            i += 3
        elif t.kind == "group":
            out.append(("group", t.text, parse_tmpl(t.sub, names)))
            i += 1
        else:
            out.append(("tok", stok(t)))
            i += 1
    return out


def parse_rules(src, macro=MACRO):
    """-> [(line, pattern, template)]"""
    body = find_macro(trees(lex(src)), macro)
    if body is None:
        raise TranslateError(f"no `macro_rules! {macro}` definition found")
    ts = body.sub
    rules = []
    i = 0
    while i < len(ts):
        if not (i + 2 < len(ts) and ts[i].kind == "group" and ts[i + 1].is_p("=>") and ts[i + 2].kind == "group"):
            raise TranslateError("expected a rule `( pattern ) => { template }`", ts[i].line)
        names = {}
        p = parse_pat(ts[i].sub, names)
        t = parse_tmpl(ts[i + 2].sub, names)
        rules.append((ts[i].line, p, t))
        i += 3
        if i < len(ts):
            if not ts[i].is_p(";"):
                raise TranslateError("expected `;` between rules", ts[i].line)
            i += 1
    if not rules:
        raise TranslateError(f"`macro_rules! {macro}` has no rules")
    return rules


# ----------------------------------------------------------------------------- printing (Coq)

def cstr(s):
    s = "".join(ch if 32 <= ord(ch) < 127 else "\\u{%x}" % ord(ch) for ch in s)
    return '"' + s.replace('"', '""') + '"'


def c_stok(k):
    return {"I": "SIdent", "P": "SPunct", "L": "SLit"}[k[0]] + " " + cstr(k[1])


def c_opt_tok(k):
    return "None" if k is None else f"(Some ({c_stok(k)}))"


def c_tag(x):
    """an enumerated constructor, or one with a string argument"""
    return x if isinstance(x, str) else f"({x[0]} {cstr(x[1])})"


def c_list(xs):
    return "[" + "; ".join(xs) + "]"


def c_pat(p):
    k = p[0]
    if k == "tok":
        return f"PTok ({c_stok(p[1])})"
    if k == "var":
        return f"PVar {p[1]} {c_tag(p[2])}"
    if k == "group":
        return f"PGroup {p[1]} {c_list([c_pat(q) for q in p[2]])}"
    return f"PRep {c_list([c_pat(q) for q in p[1]])} {c_opt_tok(p[2])} {p[3]}"


def c_tmpl(t):
    k = t[0]
    if k == "tok":
        return f"XTok ({c_stok(t[1])})"
    if k == "var":
        return f"XVar {t[1]}"
    if k == "group":
        return f"XGroup {t[1]} {c_list([c_tmpl(q) for q in t[2]])}"
    if k == "rep":
        return f"XRep {c_list([c_tmpl(q) for q in t[1]])} {c_opt_tok(t[2])} {t[3]}"
    if k == "mac":
        return f"XMac {c_tag(t[1])} {t[2]} {c_list([c_tmpl(q) for q in t[3]])}"
    return f"XBuild {c_tag(t[1])} {c_list([c_list([c_tmpl(q) for q in a]) for a in t[2]])}"


# ----------------------------------------------------------------------------- printing (readable)

DELIMS = {"Paren": "()", "Bracket": "[]", "Brace": "{}"}
REPCH = {"RStar": "*", "RPlus": "+", "ROpt": "?"}
MACNAME = {v: k for k, v in MACS.items()}
BUILDSHOW = {"BNull": "$crate::Value::Null", "BBoolean": "$crate::Value::Boolean",
             "BTryFromUnwrap": "$crate::Value::try_from", "BFrom": "$crate::Value::from",
             "BArray": "$crate::Value::Array", "BObject": "$crate::Value::Object",
             "BObjectNew": "$crate::Object::new", "BFromVec": "$crate::Object::from_vec",
             "BEntryNew": "$crate::object::Entry::new"}


def join(parts):
    s = ""
    for p in parts:
        if s and not s.endswith(("(", "[", "{", "@")) and not p.startswith((")", "]", "}", ",")):
            s += " "
        s += p
    return s


def s_rep(inner, sep, rep):
    return "$(" + inner + ")" + (sep[1] if sep else "") + REPCH[rep]


def s_frag(f):
    return {v: k for k, v in FRAGS.items()}.get(f) if isinstance(f, str) else f[1]


def s_pat(ps):
    out = []
    for p in ps:
        k = p[0]
        if k == "tok":
            out.append(p[1][1])
        elif k == "var":
            out.append(f"$v{p[1]}:{s_frag(p[2])}")
        elif k == "group":
            d = DELIMS[p[1]]
            out.append(d[0] + s_pat(p[2]) + d[1])
        else:
            out.append(s_rep(s_pat(p[1]), p[2], p[3]))
    return join(out)


def s_tmpl(ts):
    out = []
    for t in ts:
        k = t[0]
        if k == "tok":
            out.append(t[1][1])
        elif k == "var":
            out.append(f"$v{t[1]}")
        elif k == "group":
            d = DELIMS[t[1]]
            out.append(d[0] + s_tmpl(t[2]) + d[1])
        elif k == "rep":
            out.append(s_rep(s_tmpl(t[1]), t[2], t[3]))
        elif k == "mac":
            d = DELIMS[t[2]]
            name = MACNAME.get(t[1]) if isinstance(t[1], str) else t[1][1]
            out.append(name + "!" + d[0] + s_tmpl(t[3]) + d[1])
        else:
            b, args = t[1], [s_tmpl(a) for a in t[2]]
            if b == "BInto":
                out.append(args[0] + ".into()")
            elif b == "BNull":
                out.append(BUILDSHOW[b])
            elif b == "BTryFromUnwrap":
                out.append(BUILDSHOW[b] + "(" + ", ".join(args) + ").unwrap()")
            elif isinstance(b, str):
                out.append(BUILDSHOW[b] + "(" + ", ".join(args) + ")")
            else:
                p = b[1]
                out.append("$crate::" + (p[:-2] + "(" + ", ".join(args) + ")" if p.endswith("()") else p))
    return join(out)


HEADER = """(* Generated/MacroRules.v -- GENERATED by lib/macro_translate.py from the definition
   `macro_rules! {macro}` of src/macros.rs; do not edit.  Definitions only.

   `src_rules` is the rule set of the source in the embedding of Model/MacroSyntax.v;
   Proofs/MacroRulesTie.v proves `rules_tie : src_rules = model_rules`.  `bin/check C19`
   regenerates this text from the tree under check at the start of every run and
   re-establishes that theorem against it; the committed copy is what the pinned tree
   generates (refresh: python3 lib/macro_translate.py --write).
   `src_rules_shown` lists, for each rule, its line in src/macros.rs and a readable
   rendering of pattern and template (metavariables numbered $v0, $v1, .. in order of first
   occurrence); the translator prints its rule diff from it. *)
From Coq Require Import List String.
From JsonSyntax Require Import Model.Macro Model.MacroSyntax.
Import ListNotations.
Local Open Scope string_scope.
"""


HELPERS = ("json_vec", "json_unexpected", "json_expect_expr_comma")


def parse_helpers(src):
    """the rules of the hidden helper macros that the templates of `json!` invoke, as readable renderings
    (pattern, template); metavariables are numbered in order of first occurrence, as for `json!`"""
    return [(m, [(sp, st) for (_, sp, st) in shown_of(parse_rules(src, m))]) for m in HELPERS]


def helpers_block(helpers):
    rows = [f"   ({cstr(m)}, " + c_list([f"({cstr(a)}, {cstr(b)})" for a, b in rs]) + ")" for m, rs in helpers]
    return ("Definition src_helpers_shown : list (string * list (string * string)) :=\n  ["
            + ";\n".join(rows).lstrip() + "].\n")


def read_helpers(vtext):
    """[(macro, [(pattern, template)])] of `src_helpers_shown` in a generated file (None when absent)"""
    k = vtext.find("Definition src_helpers_shown")
    if k < 0:
        return None
    strs = re.findall(r'"((?:[^"]|"")*)"', vtext[k:vtext.find("].\n", k) + 1])
    strs = [x.replace('""', '"') for x in strs]
    out, i = [], 0
    while i < len(strs):
        if strs[i] in HELPERS:
            out.append((strs[i], []))
            i += 1
        else:
            out[-1][1].append((strs[i], strs[i + 1]))
            i += 2
    return out


def generate(rules, macro=MACRO, helpers=None):
    out = [HEADER.replace("{macro}", macro)]
    for n, (line, p, t) in enumerate(rules, 1):
        out.append(f"Definition src_rule_{n} : rule :=\n  Rule {c_list([c_pat(q) for q in p])}\n"
                   f"       {c_list([c_tmpl(q) for q in t])}.\n")
    names = [f"src_rule_{n}" for n in range(1, len(rules) + 1)]
    rows = []
    for k in range(0, len(names), 8):
        rows.append("   " + "; ".join(names[k:k + 8]))
    out.append("Definition src_rules : list rule :=\n  [" + ";\n".join(rows).lstrip() + "].\n")
    out.append("Definition src_rules_count : nat := " + str(len(rules)) + ".\n")
    shown = [f"   ({line}, {cstr(s_pat(p))},\n    {cstr(s_tmpl(t))})" for (line, p, t) in rules]
    out.append("Definition src_rules_shown : list (nat * string * string) :=\n  [" + ";\n".join(shown).lstrip() + "].\n")
    if helpers is not None:
        out.append(helpers_block(helpers))
    return "\n".join(out)


def shown_of(rules):
    return [(line, s_pat(p), s_tmpl(t)) for (line, p, t) in rules]


def read_shown(vtext):
    """(line, pattern, template) triples of `src_rules_shown` in a generated file."""
    k = vtext.find("Definition src_rules_shown")
    if k < 0:
        return None
    s = vtext[k:]
    out, i, n = [], s.find(":="), len(s)
    cur = []
    while i < n:
        c = s[i]
        if c == '"':
            j, buf = i + 1, []
            while j < n:
                if s[j] == '"':
                    if j + 1 < n and s[j + 1] == '"':
                        buf.append('"')
                        j += 2
                        continue
                    break
                buf.append(s[j])
                j += 1
            cur.append("".join(buf))
            i = j + 1
        elif c.isdigit():
            m = re.match(r"\d+", s[i:])
            cur.append(int(m.group(0)))
            i += len(m.group(0))
        elif c == ")":
            if len(cur) == 3:
                out.append(tuple(cur))
            cur = []
            i += 1
        elif c == "." and s[i - 1] == "]":
            break
        else:
            i += 1
    return out


def rule_diff(old, new):
    """Readable diff of two shown lists [(line, pat, tmpl)] -> list of text lines."""
    a = [(p, t) for (_, p, t) in old]
    b = [(p, t) for (_, p, t) in new]
    lines = []
    if a == b:
        return lines
    removed, added = [], []          # indices
    sm = difflib.SequenceMatcher(a=a, b=b, autojunk=False)
    for tag, i1, i2, j1, j2 in sm.get_opcodes():
        if tag == "equal":
            continue
        if tag == "replace" and i2 - i1 == j2 - j1:
            for i, j in zip(range(i1, i2), range(j1, j2)):
                if a[i] in b or b[j] in a:       # part of a move: handled below
                    removed.append(i)
                    added.append((j, i1))
                    continue
                lines.append(f"rule {j + 1} (src/macros.rs line {new[j][0]}; was rule {i + 1}, line {old[i][0]}) CHANGED")
                if a[i][0] != b[j][0]:
                    lines.append(f"  old pattern : ({a[i][0]})")
                    lines.append(f"  new pattern : ({b[j][0]})")
                else:
                    lines.append(f"  pattern     : ({b[j][0]})")
                if a[i][1] != b[j][1]:
                    lines.append(f"  old template: {{ {a[i][1]} }}")
                    lines.append(f"  new template: {{ {b[j][1]} }}")
                else:
                    lines.append(f"  template    : {{ {b[j][1]} }}")
            continue
        removed += list(range(i1, i2))
        added += [(j, i1) for j in range(j1, j2)]
    moved_from = {}
    for j, _ in added:                   # an added rule that is a removed rule has moved
        for i in removed:
            if a[i] == b[j] and i not in moved_from.values():
                moved_from[j] = i
                break
    for j, at in added:
        if j in moved_from:
            i = moved_from[j]
            lines.append(f"rule {j + 1} (src/macros.rs line {new[j][0]}) MOVED: it was rule {i + 1} (line {old[i][0]}); "
                         f"rules are tried in source order")
            lines.append(f"  pattern     : ({b[j][0]})")
            lines.append(f"  template    : {{ {b[j][1]} }}")
        else:
            where = f"before committed rule {at + 1}" if at < len(a) else "at the end"
            lines.append(f"rule {j + 1} (src/macros.rs line {new[j][0]}) ADDED {where}")
            lines.append(f"  new pattern : ({b[j][0]})")
            lines.append(f"  new template: {{ {b[j][1]} }}")
    for i in removed:
        if i not in moved_from.values():
            lines.append(f"rule {i + 1} of the committed rule set (line {old[i][0]}) REMOVED")
            lines.append(f"  old pattern : ({a[i][0]})")
            lines.append(f"  old template: {{ {a[i][1]} }}")
    lines.append(f"rule count: committed {len(a)}, regenerated {len(b)}")
    return lines


# ----------------------------------------------------------------------------- the check hook

def pre_build(vf):
    """Called by lib/vf.py:run_property before the Props build of C19.
    Regenerates Generated/MacroRules.v from <repo>/src/macros.rs.  When the text is the committed
    one, the ordinary Props build re-checks `rules_tie` against it.  When it differs, the
    regenerated file is put in place of the committed one while the lock on the Coq tree is held,
    Proofs/MacroRulesTie.vo is built against it, and the committed text is put back (the Coq tree is
    shared by the runs on /repo and on scratch worktrees, and the committed copy is the reference
    of the rule diff).  Returns {"failures": [...], "notes": {...}, "details": {...}}."""
    src_path = f"{vf.REPO}/src/macros.rs"
    gen_path = f"{vf.COQ}/{GEN_REL}"
    notes = {"translator": "lib/macro_translate.py", "source": src_path, "generated": GEN_REL,
             "obligation": "rules_tie (Proofs/MacroRulesTie.v), C19_rules_from_source (Props/C19.v)"}
    res = {"failures": [], "notes": notes, "details": {}}
    committed = open(gen_path).read() if os.path.exists(gen_path) else None
    try:
        src_text = open(src_path, encoding="utf-8").read()
        rules = parse_rules(src_text)
        helpers = parse_helpers(src_text)
        text = generate(rules, helpers=helpers)
    except (TranslateError, OSError, UnicodeDecodeError) as e:
        msg = (f"obligation rules_tie (src_rules = model_rules; C19_rules_from_source) cannot be re-established: the "
               f"translator lib/macro_translate.py cannot parse {src_path}: {e}")
        res["failures"].append(msg)
        notes["regenerated"] = False
        res["details"] = {"obligation": "rules_tie", "translator": "lib/macro_translate.py",
                          "translator_error": str(e), "source": src_path}
        return res
    notes["regenerated"] = True
    notes["rules"] = len(rules)
    notes["identical_to_committed"] = committed == text
    if committed == text:
        return res
    if committed is None:
        os.makedirs(os.path.dirname(gen_path), exist_ok=True)
        open(gen_path, "w").write(text)
        notes["identical_to_committed"] = "no committed copy: written"
        return res
    old = read_shown(committed) or []
    diff = rule_diff(old, shown_of(rules))
    old_h = read_helpers(committed)
    if old_h is not None and old_h != helpers:
        for (m, rs), (_, os_) in zip(helpers, old_h):
            if rs != os_:
                diff.append(f"rule set of helper `{m}!` CHANGED: committed (model) " + "; ".join(f"({a}) => {{{b}}}" for a, b in os_)
                            + "  |  source now " + "; ".join(f"({a}) => {{{b}}}" for a, b in rs))
    notes["rule_diff_lines"] = len(diff)
    with vf.Lock("coq"):
        try:
            open(gen_path, "w").write(text)
            vf.ensure_coq_makefile()
            rc, out = vf.sh(["make", "-j16", TIE_TARGET], cwd=vf.COQ, timeout=3000)
        finally:
            open(gen_path, "w").write(committed)
    notes["tie_rebuilt_against_regenerated"] = rc == 0
    if rc != 0:
        first = next((d for d in diff if d.startswith("rule ")), "terms differ")
        if first.startswith("rule count") and any(d.startswith("rule set of helper") for d in diff):
            first = next(d for d in diff if d.startswith("rule set of helper"))
        head = (f"obligation rules_tie (src_rules = model_rules; C19_rules_from_source) no longer checks: the rule set "
                f"regenerated from {src_path} ({len(rules)} rules) is not the one Model/Macro.v implements; first: {first}")
        print("\n".join([head] + diff), file=sys.stderr, flush=True)
        k = out.find('File "./theories/Proofs/MacroRulesTie.v"')
        coq = [ln[:200] for ln in (out[k:] if k >= 0 else out[-1500:]).split("\n")[:6]]
        res["failures"].append(head + "\n" + "\n".join(diff) + "\n--- coq ---\n" + "\n".join(coq))
        res["details"] = {"obligation": "rules_tie", "theorem_in_props": "C19_rules_from_source",
                          "source": src_path, "rules_regenerated": len(rules), "rules_committed": len(old),
                          "rule_diff": diff or ["(the readable renderings agree; the terms differ -- see coq_output)"],
                          "coq_output": coq}
    return res


def main():
    a = sys.argv[1:]
    root = os.environ.get("VERIF_ROOT") or os.path.dirname(os.path.dirname(os.path.abspath(__file__)))
    repo = os.environ.get("VERIF_REPO", "/repo")
    if "--repo" in a:
        repo = a[a.index("--repo") + 1]
    try:
        src_text = open(f"{repo}/src/macros.rs", encoding="utf-8").read()
        rules = parse_rules(src_text)
        helpers = parse_helpers(src_text)
    except TranslateError as e:
        print(f"macro_translate: {repo}/src/macros.rs: {e}", file=sys.stderr)
        return 2
    text = generate(rules, helpers=helpers)
    gen = f"{root}/coq/{GEN_REL}"
    if "--write" in a:
        os.makedirs(os.path.dirname(gen), exist_ok=True)
        open(gen, "w").write(text)
        print(f"{gen}: {len(rules)} rules")
    elif "--diff" in a:
        old = read_shown(open(gen).read()) or []
        d = rule_diff(old, shown_of(rules))
        print("\n".join(d) if d else f"no difference ({len(rules)} rules)")
        return 1 if d else 0
    else:
        sys.stdout.write(text)
    return 0


if __name__ == "__main__":
    sys.exit(main())
