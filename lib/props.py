"""Per-property configuration of the checks (see DESIGN.md section 7)."""
import vf


def c20_nontrivial(case, impl):
    t = case.split(" ")
    # non-trivial: involves a non-empty, non-full set, or a script that yields something
    if t[0] in ("all", "none", "default"):
        return False
    return any(x.isdigit() and 0 < int(x) < 63 for x in t[1:3])


PROPS = {
    "C20": {
        "id": "C20",
        "family": "c20",
        "allow_axioms": [],
        "nshards": {"quick": 2, "thorough": 8},
        "nontrivial": c20_nontrivial,
        "exhaustive": True,
        "rule": "complete enumeration of the finite domain: all 64 sets, 64x64 set pairs (|,&,|=,&=), 64x6 set/kind "
                "pairs in every operand order, 6x6 kind pairs, len/is_empty/iter/into_iter/rev/Display/disjunction/"
                "conjunction of every set, every next/next_back script of length <=7 (quick) / <=10 (thorough) on every "
                "set, Value::kind/is_kind per variant. A case is non-trivial when an operand set is neither empty nor full; "
                "distinct = distinct case lines",
        "trusted": ["KindSet values are built in the harness by `|=` of singletons into `KindSet::none()` and read back "
                    "through the derived Debug representation"],
        "assumptions": ["u8 arithmetic modelled on unbounded N restricted to s < 64 (C20_closed shows the restriction is preserved)"],
    },
}
