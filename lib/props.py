"""Per-property configuration of the checks (see DESIGN.md section 7)."""
import vf


def c20_nontrivial(case, impl):
    t = case.split(" ")
    # non-trivial: involves a non-empty, non-full set, or a script that yields something
    if t[0] in ("all", "none", "default"):
        return False
    return any(x.isdigit() and 0 < int(x) < 63 for x in t[1:3])


PROPS = {
    "C20": {
        "id": "C20",
        "family": "c20",
        "allow_axioms": [],
        "nshards": {"quick": 2, "thorough": 8},
        "nontrivial": c20_nontrivial,
        "exhaustive": True,
        "rule": "complete enumeration of the finite domain: all 64 sets, 64x64 set pairs (|,&,|=,&=), 64x6 set/kind "
                "pairs in every operand order, 6x6 kind pairs, len/is_empty/iter/into_iter/rev/Display/disjunction/"
                "conjunction of every set, every standard adaptor forward and backward, internal backward iteration (rfold, try_rfold, rev().fold ..), nth / nth_back / rev().nth / rev().skip "
                "with every count up to two past the end followed by what is left, every next/next_back script of length <=7 (quick) / <=10 (thorough) on every "
                "set, Value::kind/is_kind per variant. A case is non-trivial when an operand set is neither empty nor full; "
                "distinct = distinct case lines",
        "trusted": ["KindSet values are built in the harness by `|=` of singletons into `KindSet::none()` and read back "
                    "through the derived Debug representation"],
        "assumptions": ["u8 arithmetic modelled on unbounded N restricted to s < 64 (C20_closed shows the restriction is preserved)"],
    },
}


# ----------------------------------------------------------------------------- parser family
PARSE_RULE = (
    "shared parse suite: E1 every string of <=N tokens over a 14-token alphabet; E2 every string of <=M characters "
    "over a 45-character alphabet (structural, escapes, hex digits, white space and look-alikes, NUL, U+001F, DEL, "
    "U+0080, U+D7FF, U+E000, U+FEFF, U+FFFD, U+10000, U+10FFFF); E3 transition cover: 61 lexical prefixes x 144 class "
    "representatives x 4 contexts, open and closed; E4 \\uXXXX escapes, high x low pairs, raw scalars, backslash+ASCII "
    "(complete in thorough runs of C02, boundaries + seeded samples otherwise); E5 byte patterns (every 1- and 2-byte "
    "sequence, structured 3/4-byte sequences, truncations, BOM, syntax errors before/after ill-formed bytes); E6 the "
    "312 corpus files <= 8 KiB with every truncation and single-byte deletion/substitution; surrogate element "
    "sequences of length <= 4 (<= 3 over every two-character escape and two different pairs); E7 grammar-based random "
    "documents with 1-3 random edits; E8 wide objects; E9 aliasing characters; E10 four-character words after \\u; E11 "
    "multi-byte characters at every buffer fill level; E12 ill-formed bytes inside look-ahead windows; E13 byte inputs with a "
    "multi-byte character (whole / cut short) across byte 65536 in every alignment; E14 arrays of 7..20 items with nested "
    "containers among the items; E8b every key twice over 40..600 distinct keys. Entry-point agreement (flag EP) includes "
    "sources declaring UTF-16 byte lengths, 1, irregular lengths, 0, 2^8, 2^16, 2^32 and alternately 0 / 1 MiB per character. "
)


def parse_nontrivial_accept(case, impl):
    # accepted document containing at least one container or string or a rejected one past offset 0
    return ("A" in impl or impl.startswith("OK")) and len(case) > 8


def c01_nontrivial(case, impl):
    return len(case.split(" ")[-1]) > 4


def c07_nontrivial(case, impl):
    # an error reported past offset 0
    m = impl.split(" ")
    return impl.startswith("ERR") and len(m) > 2 and m[2] != "0"


PARSE_TRUST = [
    "utf8_decode models core::str::from_utf8 + str::chars (std); char::from_u32, char::to_digit (std)",
    "unbounded N stands for usize/u32; the only subtractions that could underflow are modelled panic sites",
    "the two corpus files > 100 KiB (nesting bombs) are run on the implementation only (C03): the list-based model is quadratic in the number of fragments",
]

for pid, nt, rule_tail, shards in [
    ("C01", c01_nontrivial, "Observable: accept/reject verdict of 13 entry-point calls (text) or 2 (bytes); the two parse_infallible verdicts stand for seven declared-length schemes (UTF-8, UTF-16 bytes, 0, 256, 512, 65536, 2^32). Non-trivial: input of >= 2 characters.", {"quick": 16, "thorough": 16}),
    ("C02", parse_nontrivial_accept, "Also under the three lenient option records (surrogate sequences, lenient random documents). Observable: the parsed value and, for every object in it, contains_key/index_of/redundant_index_of/indexes_of/get/get_entries/get_unique for every key occurring plus an absent key. Non-trivial: accepted documents.", {"quick": 16, "thorough": 16}),
    ("C05", parse_nontrivial_accept, "Also under the three lenient option records. Observable: the whole code map through parse_str and parse_slice, and traverse().count(). Non-trivial: accepted documents.", {"quick": 16, "thorough": 16}),
    ("C07", c07_nontrivial, "Observable: error variant, offsets, character, code units, Error::position and Error::span through parse_str and parse_slice. Non-trivial: an error past offset 0.", {"quick": 16, "thorough": 16}),
    ("C12", parse_nontrivial_accept, "Observable: value, code map or error under each of the four option records. Non-trivial: accepted documents.", {"quick": 16, "thorough": 16}),
]:
    PROPS[pid] = {
        "id": pid,
        "family": pid.lower(),
        "allow_axioms": [],
        "nshards": shards,
        "nontrivial": nt,
        "rule": PARSE_RULE + rule_tail + " distinct = distinct case lines.",
        "trusted": PARSE_TRUST,
        "assumptions": ["Parser.pending look-ahead modelled by reading the head of the remaining input"],
    }


# ----------------------------------------------------------------------------- printer family
def print_nontrivial(case, impl):
    # a container with at least one child
    return ("[ " in case and "[ ]" != case.split("| ")[-1]) or "{ $" in case


PRINT_RULE = (
    "values: every value of depth <= 2 with <= 2 children per container over nine leaves (strings with quote, LF, "
    "non-ASCII, non-BMP; numbers with sign/fraction/exponent; duplicate and empty keys) x the three presets x seeded "
    "custom option records, plus limits straddling the actual one-line width and item count (w-1,w,w+1 x n-1,n,n+1 x "
    "Width/Item/ItemOrWidth); every numeric field 0..3 (singly and in pairs) around each preset x 4 limit settings x 6 "
    "probe values; random value x random option record (indent Spaces 0..4 / Tabs 0..2, every Limit variant), every "
    "fifth with a straddling limit; (C13) one spacing field at 255, 256, 257, 300, 511, 512, 65535..65537, and begin / end / after-comma / empty spacing of "
    "2^32 .. 2^40 under limits that expand the container (output capped at 64 MiB); (C04) the text also re-read through parse_slice, one-string documents "
    "with a multi-byte character across byte 65536. Non-trivial: the value contains a non-empty container. distinct = distinct case lines."
)

for pid, fam, tail in [
    ("C04", "c04", " Observable: printed text, whether Value::parse_str of it equals the original, and agreement of "
                   "pretty_print/compact_print/inline_print with print_with(preset)."),
    ("C13", "c13", " Observable: printed text byte for byte; spec column: the reference layout of Spec/Layout.v."),
]:
    PROPS[pid] = {
        "id": pid, "family": fam, "allow_axioms": [],
        "nshards": {"quick": 16, "thorough": 16},
        "nontrivial": print_nontrivial,
        "rule": PRINT_RULE + tail,
        "trusted": ["fmt::Formatter / Display plumbing of std; NumberBuf Display prints the stored bytes"],
        "assumptions": ["widths and counts are unbounded N (usize overflow would need a 2^64-character line)"],
    }

PROPS["C08"] = {
    "id": "C08", "family": "c08", "allow_axioms": [],
    "nshards": {"quick": 8, "thorough": 16},
    "nontrivial": lambda case, impl: len(case) > 6,
    "rule": "every Unicode scalar value as a one-character string and as a key (all 1,112,064 in thorough runs; all below "
            "U+0180, every class boundary +-2 and 6,000 seeded samples in quick runs), all small values of depth <= 2, "
            "and random nested values with strings from controls/quotes/backslashes/U+2028/non-BMP/noncharacters, all "
            "number classes, duplicate and empty keys; every value also with its objects rebuilt through push_front, push_entry_front, "
            "back pushes + one front push, extend and FromIterator (the text must not depend on the route). Observable: compact_print, to_string, format!(\"{}\"), String::from; "
            "spec column: the reference serializer ser_min. distinct = distinct case lines.",
    "trusted": ["fmt::Formatter / Display plumbing of std"],
    "assumptions": [],
}


PROPS["C15"] = {
    "id": "C15", "family": "c15", "allow_axioms": [],
    "nshards": {"quick": 16, "thorough": 16},
    "nontrivial": lambda case, impl: "{ $" in case,
    "rule": "every pair of objects with <= 3 (quick) / <= 4 (thorough) entries over 2 keys and 5 / 8 values (scalars, "
            "nested objects in both entry orders, an array) of equal length (plus length-mismatched samples); every "
            "permutation of every such object against itself; random large values against a copy shuffled at every depth "
            "(must be equal) and against a single mutation of it (one leaf, one key, or one entry replaced by a copy of "
            "another: same length, different multiset). Observable: a.unordered_eq(b), b.unordered_eq(a), as_unordered "
            "==, Unordered ==, reflexivity, plain ==; spec column: equality of recursively sorted normal forms. "
            "Histories: grow (29..130 keys) / drain-by-position against the survivors pushed afresh; the second key universe with one side canonicalized or sorted. "
            "Non-trivial: a case containing a non-empty object. distinct = distinct case lines.",
    "trusted": ["lookups inside unordered_eq are modelled as linear scans (justified by C06's queries_scan for every reachable object)"],
    "assumptions": [],
}


def c06_spec_matches(model, spec):
    # the list specification has no buckets: it must equal the model's line up to " B="
    return model.rsplit(" B=", 1)[0] == spec


PROPS["C06"] = {
    "id": "C06", "family": "c06", "allow_axioms": [],
    "nshards": {"quick": 16, "thorough": 16},
    "nontrivial": lambda case, impl: case.count(" ") >= 3 and "+" in impl.rsplit(" B=", 1)[-1] or case.count(" ") >= 4,
    "spec_matches": c06_spec_matches,
    "rule": "breadth-first over distinct implementation states (entries + index buckets read through the hook) reachable "
            "within 4 (quick) / 6 (thorough) operations over 2 keys x 2 values, trying ~45 operation instances from every "
            "state (push, push_front, insert/insert_front/remove with the iterator pulled 0, 1 or all times then dropped, "
            "remove_unique, remove_at at every position and past the end, sort, get_or_insert_with, get_mut, iter_mut, "
            "extend, clone, mem::take); long random histories (up to 60 pushes then up to 120/200 mixed operations over 40 "
            "keys: several growth/rehash cycles) with the state of every 7th prefix observed for a tenth of them; bulk "
            "a second key universe of 11 names ordered differently by code points and UTF-16 units (sort / canon histories); extensions whose "
            "source panics after k entries (the caller recovers: entries and index must agree); "
            "construction (from_vec, FromIterator) followed by sort / insert / insert_front+remove. Observable: every "
            "operation's result, then len/is_empty, entries, contains_key/index_of/redundant_index_of/indexes_of/get/"
            "get_entries/get_with_index/get_entries_with_index/get_unique/get_unique_entry for every key of the universe "
            "and an absent key, and the bucket dump. Spec column: the same history on the plain-list specification. "
            "Non-trivial: histories of >= 3 operations, or ending with a duplicated key. distinct = distinct case lines.",
    "trusted": ["hashbrown RawTable behaves as a finite map (find/insert/remove/iter as documented; its hasher closure is "
                "only called on rehash); Vec::sort_by is a stable sort",
                "the cfg(json_syntax_verif) hook Object::verif_index_dump reads rep/other of every bucket"],
    "assumptions": ["removal iterators are driven by the caller 0, 1, 2 or all times and then dropped (mem::forget of an iterator is outside the property)"],
}


PROPS["C11"] = {
    "id": "C11", "family": "c11", "allow_axioms": [],
    "nshards": {"quick": 16, "thorough": 16},
    "nontrivial": lambda case, impl: impl.startswith("V=") and (" A" in impl or " O" in impl) or impl.startswith("err@"),
    "rule": "every string of <= 5 (quick) / <= 6 (thorough) tokens over the 14-token alphabet that starts with a "
            "container opener or a string; the corpus files <= 8 KiB; grammar-based random documents rich in empty "
            "containers and duplicate keys. For each accepted document: volume, traverse count, count of containers, the "
            "traversal (index + fragment kind), get_fragment for every index 0..count+2, and for every array and object "
            "(walked with the offsets the mapped iterators themselves yield) the offsets of iter_mapped, of "
            "get_mapped_entries_with_index for every key occurring plus an absent key, the four get_unique_mapped* "
            "results; flag S = every yielded offset's span re-parses to exactly that element (value, key, or entry) with no "
            "surrounding white space; flag per key = the seven other mapped lookups are projections of "
            "get_mapped_entries_with_index. Conversions: 9 Rust types (Vec/Option/BTreeMap/Box over bool, (), String leaves) "
            "on generated documents with each of 6 wrong-kind tokens planted at every leaf position and at the root; "
            "observable: ok or (offset, expected kind, found kind). Non-trivial: accepted documents with a container, or a "
            "Lenient documents (strings and keys ending in unpaired escapes, with siblings after them) are walked under their option record; every document is "
            "re-read from a source declaring UTF-16 byte lengths with spans resolved there (flag DL); get_fragment also at 2^32, 2^64-2, 2^64-1. "
            "conversion error. distinct = distinct case lines.",
    "trusted": ["keyed lookups go through an object rebuilt by FromIterator in the model (C06: any reachable object answers as a scan)",
                "the model computes mapped iterators eagerly; the implementation's are lazy (differs only on ill-shaped code maps, which the theorems exclude)"],
    "assumptions": [],
}


PROPS["C14"] = {
    "id": "C14", "family": "c14", "allow_axioms": [],
    "nshards": {"quick": 16, "thorough": 16},
    "nontrivial": lambda case, impl: "ab=0" in impl or case.startswith("hh"),
    "rule": "all triples over 26 small values spanning every variant and the string-order corner cases (U+E000 vs U+10000, "
            "U+FFFF, DEL vs U+0080, prefix strings, numbers compared as byte strings) [third operand restricted to 16 in "
            "quick runs]; random values with near copies differing in one leaf, one key (appending U+10000 / U+E000, or "
            "emptied), one position (swap), or one length; pairs of operation histories ending in the same entry list by "
            "different routes (mixed history vs from_vec of its result vs push_front in reverse) and a differing one. "
            "Observable per pair: ==, cmp, partial_cmp, <, <=, >, >=, !=, equality of SipHash (DefaultHasher), equality of the "
            "recorded write streams; for every first operand the exact write stream the derived Hash makes (compared with "
            "the model's hash_stream); for histories also both entry lists and whether the bucket dumps differ. "
            "Near copies also respell a number (case of the exponent marker, sign / zero in the exponent, .0, e0) or flip the case of one letter; when both "
            "operands are objects (arrays) the operators are also applied to the Objects, their entry vectors and the Vec<Value>s themselves. "
            "Non-trivial: a pair of unequal values, or a history pair. distinct = distinct case lines.",
    "trusted": ["std's derive(PartialEq, Eq, PartialOrd, Ord, Hash) expansion; SipHash collisions are not expected on the explored pairs "
                "(hash equality is only demanded for equal values; for unequal values the model predicts unequal hashes, a "
                "mismatch there would be reported and is then a 2^-64 event)"],
    "assumptions": [],
}


def c03_known(case, impl, model, spec):
    t = case.split(" ")
    # the depth at which the drop glue exhausts 64 KiB depends on compiler-chosen frame sizes
    # (observed: > 930 for arrays, between 450 and 500 for objects): anything above 200 is the
    # recorded finding, anything at or below 100 is not
    if t[0] in ("d", "dd") and t[1] in ("arr_garbage", "obj_garbage", "arr_sibling") and int(t[2]) > 200 \
            and impl.startswith("ABORT") and model == "ERR":
        return "C03-drop-after-deep-close"
    return None


PROPS["C03"] = {
    "id": "C03", "family": "c03", "allow_axioms": [],
    "nshards": {"quick": 16, "thorough": 16},
    "nontrivial": lambda case, impl: len(case) > 12,
    "known": c03_known,
    "rule": "outcome class (Ok/Err; a panic or abort is a violation) of parse_str_with / parse_utf8_with over a counting "
            "iterator / parse_slice_with on the shared parse suite under all four option records plus random byte strings "
            "(structural bytes, UTF-8 lead/continuation boundaries); the counting iterator checks that next() is called at "
            "most n+4 times, never after an Err item, and that a stream error planted in the middle stops all pulling; "
            "traverse().count() equals the code map length. Deep nesting: arrays, objects, mixed, wide-and-deep, closed and "
            "unclosed, and closed-then-error shapes at depths 1, 2, 64, 500, 10^3, 10^5, 10^6 (thorough adds 10^4, 2*10^6) "
            "runs of 1 .. 10^5 (thorough 10^6) unpaired high / lone low / paired surrogate escapes in one string or key under every option record; "
            "the outcome class also through sources declaring length 0 and 2^32 per character and through SmallString<[u8; N]>, N = 0, 1, 3, 32, 256; "
            "parsed and traversed in a child process inside a thread with a 64 KiB stack, both entry points, strict and "
            "flexible options. Non-trivial: inputs of more than 2 characters. distinct = distinct case lines.",
    "trusted": PARSE_TRUST + ["machine stack consumption and compiler-generated drop glue are runtime behaviour: observed by "
                              "executing the implementation in small-stack child processes at sampled depths (this part is "
                              "testing in support of the theorems, which give totality, panic-freedom and linear fuel at every depth)"],
    "assumptions": ["deep-nesting expectations for depth > 500 are the closed form (Ok with the fragment count / Err) that "
                    "the model confirms at depths <= 500; the list-based model is not run at 10^6"],
}


# ----------------------------------------------------------------------------- serde (C17, C18)
def _split_flags(spec):
    parts = spec.split(" !")
    return parts[0], set(parts[1:])


def c17_classify(model, body, flags):
    """Finding id when the model/implementation line deviates from the specification line in the way
    recorded for a known class the input belongs to (flags computed by the extracted predicates K3, K4)."""
    if body.startswith("OK "):                                   # to_value
        if "K4" in flags and (model.startswith("ERR malformed") or model.startswith("OK ")):
            return "C17-number-token-key"
        return None
    if body.startswith("WANT "):                                 # from_value / from_str
        if "K4" in flags and (model == "ERR" or model.startswith("OK ")):
            return "C17-number-token-key"
        nulls = model.split(" ").count("n") > body.split(" ").count("n")
        if "K3" in flags and model.startswith("OK ") and nulls:
            return "C17-overflow-to-null"
    return None


def c18_classify(model, body, flags):
    return None                          # no recorded finding: every deviation is a violation


def _known(classify):
    def known(case, impl, model, spec):
        if impl != model:
            return None                  # the model is faithful inside the classes too
        body, flags = _split_flags(spec)
        if body == model:
            return None
        return classify(model, body, flags)
    return known


class _SpecMatch:
    """spec column = `<demanded observable> !Kn...`.  A deviation that is a recorded finding is kept for
    the first 25 occurrences per finding (they are listed as KNOWN-FINDING) and then counted only, so that
    the framework's cap on remembered spec mismatches can never hide a deviation outside the classes."""
    def __init__(self, classify):
        self.classify = classify
        self.seen = {}

    def __call__(self, model, spec):
        body, flags = _split_flags(spec)
        if body == model:
            return True
        fid = self.classify(model, body, flags)
        if fid is None:
            return False
        n = self.seen.get(fid, 0)
        self.seen[fid] = n + 1
        return n >= 25


def _oracle_consistent(case):
    """W:/R: tokens record `bits -> printed spelling`; a genuine one reads back to those bits.  Used to keep the
    shrinker from minimising the recorded dependency answers instead of the input."""
    import struct
    for t in case.split("| ", 1)[0].split(" ")[1:]:
        if not t:
            continue
        parts = t.split(":")
        if len(parts) != 3 or parts[0] not in ("W", "R"):
            return False
        try:
            txt = "".join(chr(int(h, 16)) for h in parts[2].split(","))
            if struct.unpack(">Q", struct.pack(">d", float(txt)))[0] != int(parts[1], 16):
                return False
        except (ValueError, OverflowError):
            return False
    return True


def serde_differs(case, impl, model, spec):
    return impl != model and _oracle_consistent(case)


def serde_nontrivial(case, impl):
    # a number, or a non-empty container
    body = case.split("| ", 1)[-1]
    return any(t[0] in "#uid" for t in body.split(" ") if t) or "[ " in body.replace("[ ]", "") or "{ $" in body


SERDE_TRUST = [
    "decimal -> double conversions are correctly rounded: std's str::parse::<f64> (used by json-syntax for every number "
    "that is not a 64-bit integer: de.rs visit_number, convert/serde_json.rs) and serde_json's streaming number parser built "
    "with its float_roundtrip feature (harness/Cargo.toml; the text front end of C17) are modelled by the reference "
    "Spec/NumSpelling.dbl (Flocq binary_round / SpecFloat division); a disagreement shows as implementation != model",
    "float printers modelled, not verified (arguments of the model, hypotheses of the theorems): NumberBuf::try_from(f64) "
    "(lexical write) and serde_json's Number Display (ryu).  Each case line records what these answered for exactly the "
    "calls the input causes (ORACLE tokens, produced by calling json-number / serde_json directly, never json-syntax); the "
    "model runs on those answers and the specification column re-reads the printed spelling with dbl, so the round-trip "
    "hypothesis on the printers is re-validated on every explored case",
    "serde's visitor / SerializeMap call protocol as exercised by Value: the events are transcribed from ser.rs / de.rs / "
    "json-number serde.rs by hand; serde_json's streaming deserializer is modelled only in how it classifies numbers "
    "(tokenising, unescaping, its recursion limit of 128 are not modelled; generated nesting <= 8)",
    "Object::insert through its list specification m_insert (C06 proves the indexed object refines it for every history); "
    "BTreeMap as a key-sorted association list with overwrite (std); <u64|i64 as FromStr> on valid JSON numbers; itoa / "
    "lexical integer printing as Coq's N.to_uint",
    "Rust's f64 <-> bit pattern (to_bits/from_bits) against SpecFloat via Base/Float64.sf_bits / sf_of_bits",
]

PROPS["C17"] = {
    "id": "C17", "family": "c17", "allow_axioms": vf.FLOCQ_AXIOMS,
    "nshards": {"quick": 16, "thorough": 16},
    "nontrivial": serde_nontrivial,
    "known": _known(c17_classify),
    "differs": serde_differs,
    "spec_matches": _SpecMatch(c17_classify),
    "rule": "three routes per value: `ser` json_syntax::to_value(&v) (and to_value(&Object)), `de` json_syntax::from_value::<Value>(v), "
            "`txt` serde_json::from_str::<Value>(compact text of v).  Values: ~430 fixed number spellings bare and inside "
            "containers (every lexical class at, just inside and just beyond the i64/u64 bounds, 2^53, negative-zero spellings, "
            "fractions of 1-40 digits, exponent forms e/E/+/-/leading zero, 17-40 significant digits, the double range ends, "
            "subnormal and half-subnormal boundaries, 309-digit integers around f64::MAX, absurd exponents, doubles a binary32 holds exactly "
            "written in full, plain decimals with 0..48 zeros after the point, mantissas of 767..1100 bytes with a compensating exponent); "
            "arrays of 4095..15000 elements and objects of 4094..5000 entries without / with repeated names; seeded spellings from "
            "12 classes (integers of 1-25 digits, neighbours of the 64-bit bounds, fractions, exponent shapes with exponents to "
            "+-500, shortest spellings of random doubles in three notations, m<2^53 x 10^+-22, >19 digits, "
            "the C09 decimal classes incl. exact midpoints); strings/keys from controls, quotes, backslashes, U+2028, U+D7FF, "
            "U+E000, U+FFFE, non-BMP, the private number token; the token as first / later / duplicated key with string, invalid, "
            "non-string values, nested; duplicate-carrying objects (nested, key pool around U+E000/U+10000); random nested values "
            "of depth <= 8 without and with duplicate keys over tame numbers, and of depth <= 6 over every number class. "
            "Observable: Ok(value) / error kind / PANIC.  Spec column: ser_spec v (first position, last value; -0 -> 0) for `ser`; "
            "for `de`/`txt` the model's line when de_ok holds (same structure after collapsing duplicates, every number the same "
            "64-bit integer or the same double bit pattern), otherwise WANT (for `txt` nothing is demanded when some number is "
            "beyond the doubles: the front end refuses the text); followed by the classes K3, K4 the input is in. "
            "Non-trivial: the value contains a number or a non-empty container. distinct = distinct case lines.",
    "trusted": SERDE_TRUST,
    "assumptions": [
        "numbers are valid JSON numbers (wf_nums; every parsed or constructed NumberBuf is) - needed for serialisation only",
        "deserialisation of a duplicate-carrying Value collapses duplicates exactly as serialisation does (first position, last value); "
        "the property text is silent on this and the statement is read as allowing it",
        "the text route is checked with serde_json's float_roundtrip feature on, i.e. with a correctly rounded front end; what the "
        "default serde_json parser does to a float before json-syntax sees it is not json-syntax's behaviour",
        "hypotheses of C17_de / C17_de_text on lexical's writer: the printed spelling reads back to the same double; -0.0 is printed -0",
    ],
}

PROPS["C18"] = {
    "id": "C18", "family": "c18", "allow_axioms": vf.FLOCQ_AXIOMS,
    "nshards": {"quick": 16, "thorough": 16},
    "nontrivial": serde_nontrivial,
    "known": _known(c18_classify),
    "differs": serde_differs,
    "spec_matches": _SpecMatch(c18_classify),
    "rule": "`fs`: serde_json value j -> Value::from_serde_json -> into_serde_json, observable the intermediate json-syntax value and the "
            "returned serde_json value (numbers with representation tag: u<decimal> PosInt, i<decimal> NegInt, d<bits> Float); j over "
            "u64 (0, 1, u64::MAX, i64::MAX+-1, 2^53+-1, random widths), i64 (-1, i64::MIN, -(2^53)-1, random), f64 (28 special "
            "patterns: +-0, least/greatest subnormal, least normal, f64::MAX, 1+-ulp, 2^53, 2^63, 2^64, 0.1, 0.3, 1e21, 1e23; "
            "integral doubles beyond the integer ranges; short decimals; subnormals; 20,000 (quick; 16x in thorough runs) seeded random bit patterns, NaN/"
            "infinities excluded as serde_json::Number cannot hold them), strings/keys as in C17, nested maps of depth <= 8 (BTreeMap: "
            "keys arrive sorted).  `is`: json-syntax value v -> into_serde_json -> from_serde_json over the C17 number spellings, "
            "token/duplicate/key-order values and random nested values; every call under catch_unwind.  Spec column: for `fs` the "
            "same j back; for `is`, inside the stated domain (no duplicate keys, numbers 64-bit integers or finite doubles) the "
            "model's line when detour_ok holds (equal to v with every object's entries sorted by key, numbers the same integer / "
            "double), outside it only the absence of a panic.  Non-trivial: a number or a non-empty container. "
            "distinct = distinct case lines.",
    "trusted": SERDE_TRUST,
    "assumptions": [
        "serde_json built without preserve_order / arbitrary_precision: Map = BTreeMap, numbers are u64 / i64 / f64",
        "hypothesis of C18_there_and_back / C18_back_and_there on ryu: its output is a valid non-integer spelling that reads back "
        "(correctly rounded) to the double",
    ],
}


# ----------------------------------------------------------------------------- manifest texts
UNCLAIMED = {}

# ----------------------------------------------------------------------------- C16
import re as _re


def _c16_fields(line):
    return dict(x.split("=") for x in _re.findall(r"\b(?:rt|sh|sh32|vrt|K|dom)=\d", line))


def c16_spec_matches(model, spec):
    m, s = _c16_fields(model), _c16_fields(spec)
    return all(m.get(k) == s.get(k) for k in ("rt", "sh", "sh32", "vrt"))


def c16_known(case, impl, model, spec):
    # the model (faithful to the code) and the property disagree: only on the class of the
    # extracted predicate known_class (a map / struct whose first key is the private number token)
    if _c16_fields(spec).get("K") != "1" or impl != model:
        return None
    return "C16-number-token-first-key"


def c16_differs(case, impl, model, spec):
    # shrinking deletes tokens blindly: a candidate whose type descriptor no longer types the
    # datum (model dom differs from the harness's) or no longer parses is not a smaller witness
    return impl != model and not model.startswith("BADCASE") and model.split(" ", 1)[0] == impl.split(" ", 1)[0]


PROPS["C16"] = {
    "id": "C16", "family": "c16", "allow_axioms": vf.FLOCQ_AXIOMS,
    "differs": c16_differs,
    "nshards": {"quick": 16, "thorough": 16},
    "nontrivial": lambda case, impl: impl.startswith("dom=1") and ("[" in case.split(" | ")[3] or "{" in case.split(" | ")[3]),
    "spec_matches": c16_spec_matches,
    "known": c16_known,
    "rule": "71 root types built from ~30 #[derive(Serialize, Deserialize)] types (unit/newtype/tuple/plain structs, enums with unit, "
            "newtype, tuple and struct variants, recursion through Box/Vec/Option, renamed fields and variants incl. empty and "
            "non-BMP names) and std types (bool, i8..u64, f32, f64, char, String, (), Option, Vec, tuples of 1-4, BTreeMap keyed by "
            "String, every integer type, char and a unit-variant enum; HashMap with a fixed hasher keyed by String, u8, char); "
            "900 (quick) / 8000 (thorough) seeded data per root: integers "
            "at their bounds and random, floats from special values (zeros, powers of ten around lexical's notation breaks, 2^24, "
            "2^53, 2^63, 2^64, extremes, subnormals, the double 0x3ab5c87fb0000000 that is an exact binary32 midpoint), random bit "
            "patterns, integral and short-decimal values, non-finite; strings "
            "from controls/quotes/non-BMP/noncharacters, integer look-alikes, near-copies of the private number token; empty and "
            "long sequences and maps; nesting depth 1-4. The sd term fed to the model is RECORDED from the type's own Serialize "
            "impl; the type descriptor comes from the same macro invocation that defines the Rust type. Observable: dom (finite "
            "floats / typing), to_value as a canonical value (integer spellings exactly, other numbers as the double they read as) "
            "or its error kind, the re-recorded datum returned by from_value (maps sorted), equality with the original, "
            "serde_json::to_value as a canonical value, equality of JSON shapes (exact, and at binary32 precision), the datum "
            "returned through Value::from_serde_json, equality with the original; every third case additionally hands from_value::<T> "
            "the serialized value with one random edit (array element added/removed, entry removed/added/renamed, object turned into "
            "an array, single-entry object unwrapped or nulled, string wrapped as {s:null}, numbers replaced by boundary values, "
            "kinds swapped, a key renamed -- possibly onto another key or onto a respelling of the same integer) and compares the "
            "re-recorded result or the rejection (dx); every sixth case (when the serialized value has a non-empty object) hands "
            "from_value::<T> the serialized value with REPEATED KEYS in one of its objects (same key after / before the original, "
            "with a well- or ill-typed value, three occurrences, every entry twice, integer keys respelled +k / 0k / -0k, a repeated "
            "undeclared key): objects of map targets (BTreeMap and HashMap: last value wins, every entry still deserialized), of "
            "struct targets and struct variants (duplicate field), single-entry enum objects (quick tier: ~4.2k such cases, ~1.6k "
            "accepted). hyp: the model checks the theorems' float premises on every spelling recorded from the dependencies (incl. "
            "sgl(spelling) = the f32, the premise of C16_shape32). Spec column: what the property demands on its domain (rt, sh, "
            "vrt all 1; sh32 = 1 where additionally every f64 leaf agrees with its spelling at binary32, L64=1), sh32 being there the "
            "SPECIFICATION's shape32 = shape32_sj while the model column carries the model's shape_of true = shape_of_sj true, so both "
            "readings of numbers are compared on every case. Non-trivial: in-domain data with a compound constructor. "
            "distinct = distinct case lines.",
    "trusted": [
        "MODELLED CONTRACT (Model/Serde.v, comment above [de]): which deserialize_* method each std / serde-derive generated "
        "Deserialize impl calls and which visit_* it accepts (integers: visit_u64/visit_i64 with range checks; floats accept "
        "integers; char: one-char string; Option: deserialize_option; BTreeMap/HashMap: next_entry until None, each pair "
        "inserted, so the last value of equal keys is kept; derived struct: map or seq, unknown keys skipped, repeated "
        "field an error, absent Option field None; derived enum: string or single-entry map; tuple variant visitors accept "
        "visit_seq only; f32 accepts visit_f32); validated by this run on every root type, not verified",
        "serde_json::to_value's shape (ser_sj: BTreeMap objects ordered by key, i64/u64 as NegInt/PosInt, f32 widened to f64, "
        "non-finite floats null, key kinds) and Value::from_serde_json are modelled from serde_json's source/documentation; validated by this run",
        "float PRINTING (lexical write for f64/f32, serde_json's float Display) is a section variable; the theorems assume that "
        "the printed spelling of a finite float, read back correctly rounded (-0.0 as +0.0 on the direct path), is that float; "
        "the run validates the premises on every spelling the dependencies actually printed (recorded on the case line, hyp=1); "
        "executable reference instances (17-digit spelling for f64, shortest for f32 with lexical's layout and tie rule) are "
        "checked on a sample inside Coq",
        "READING a spelling is no longer a dependency: std's str::parse::<f64> / ::<f32> are taken to be correctly rounded "
        "(dbl = nearest_double of the exact decimal, proved correct in Proofs/NearestDouble.v; sgl = the same construction at "
        "prec 24 / emax 128, validated by this run incl. the midpoint spelling 7.038531e-26)",
        "the recording serializer and the type-descriptor macros of harness/src/serde_typed.rs",
        "Flocq 4.1.0 binary_round / SpecFloat (executable definitions only; the C16 theorems use no axiom)",
    ],
    "assumptions": [
        "domain: has_type (map keys pairwise distinct as rendered, Some(x) only for x not rendered as null, struct fields as declared), "
        "finite floats, outside the known class K1 (first key = the private number token)",
        "the binary32 shape clause (C16_shape32) excludes data with an f64 leaf that a binary32 rounding boundary separates from "
        "its printed spelling (f64_leaves_agree32; witness C16_shape32_f64_midpoint): comparing at binary32 precision is coarser than such a leaf",
    ],
}

COMMON_NOTE = ("Trusted: Coq kernel; ExtrOcamlBasic extraction; OCaml glue; Rust harness; the hand-written model is tied to the "
               "code only by the correspondence run (complete on the enumerated finite sub-domains, sampled beyond). ")

def _m(pid, text, note, technique, category="proof"):
    PROPS[pid]["manifest"] = {"text": text, "note": COMMON_NOTE + note, "technique": technique, "category": category}
    PROPS[pid]["level"] = category

_m("C20", "KindSet model (masks, operators, both iterators, renderings) proved to refine finite-set semantics for all 64 sets, all "
          "operand pairs and next/next_back scripts of ANY length (induction); tied to the code by running both on the complete "
          "finite domain (exhaustive).",
   "u8 modelled as N restricted to <64 (closure proved). No axioms.",
   "Coq proof (finite-domain vm_compute lifted by forallb_forall + induction on iterator scripts) + exhaustive model/implementation correspondence")
_m("C03", "Proved for every stream (any characters, stream errors, all four option records): the parser model never reaches a panic "
          "site, terminates within 2n+4 loop iterations, returns Ok or Err, the explicit-stack machine equals the recursive-descent "
          "reading of the same leaf functions, the bytes handed to the unsafe NumberBuf::new_unchecked are a valid ASCII JSON number, "
          "every reserved fragment is closed, and traversal is the iterative pre-order. Machine stack use and drop glue are runtime "
          "behaviour: observed by executing the implementation in 64 KiB-stack child processes at depths up to 10^6 / 2*10^6 (partial: "
          "sampled depths). One genuine finding is recorded (error after a deeply nested closed container aborts in drop glue).",
   "No axioms. The deep-nesting part is testing in support of the theorems, not a proof about the machine stack.",
   "Coq proof (machine invariant, fuel bound, simulation machine = recursive descent) + correspondence on outcome classes + small-stack execution at sampled depths")
_m("C04", "Proved for every option record and every well-formed value (numbers satisfy the RFC 8259 number grammar, strings/keys are "
          "scalar sequences): the printer model never panics, its output equals the reference layout, that text is derivable in the "
          "strict annotated grammar with the original value as denotation, and the parser model accepts it returning exactly that "
          "value (composition of printer = layout, layout denotes, grammar completeness of the reference parser, machine = reference).",
   "No axioms.",
   "Coq proof (nested induction on values; composition with the parser completeness theorem) + correspondence on printed-then-reparsed values")
_m("C06", "Proved for EVERY finite history of operations: no operation of the indexed object model panics, the index invariant holds "
          "(every bucket holds exactly the ascending positions of its key; ghost hashed-under keys agree with the entries), entries and "
          "every operation result equal those of the plain-list specification, and every key query is a linear scan. The correspondence "
          "run compares entries, results, every query AND the real hash-index buckets (read through the hook) after each history.",
   "hashbrown RawTable trusted as a finite map; Vec::sort_by trusted as a stable sort. No axioms.",
   "Coq proof (invariant + refinement to a list multimap, induction over operation lists) + correspondence over breadth-first distinct states and long random histories with bucket dumps")
_m("C08", "Proved for every value: compact printing (and to_string/Display/String::from, which delegate to it) equals the reference "
          "minimal serializer ser_min, and the string escaping is character-by-character RFC 8785 escaping. Correspondence compares the "
          "four real entry points with ser_min on every scalar value as string and key (thorough) and generated values.",
   "No axioms.", "Coq proof (printer = layout; layout under the compact preset = ser_min) + correspondence, exhaustive over all scalar values in thorough runs")
_m("C11", "Proved: the traversal loop is the pre-order (exact fuel); get_fragment returns the i-th pre-order fragment or the remaining "
          "distance; on any code map shaped like the value's volumes the mapped iterators and keyed mapped lookups yield exactly the "
          "pre-order offsets of items, entries, keys and values (and sub-maps are shaped again); conversions never panic and report the "
          "FIRST offending fragment in pre-order with its kind. Correspondence checks every array, object, key and index of parsed "
          "documents, including that each yielded offset's span re-parses to that element.",
   "No axioms. That parsed code maps are shaped is the C05 theorem; keyed lookups use C06's queries_scan.",
   "Coq proof (induction on values over the navigation model) + correspondence on every container/key/index of parsed documents")
_m("C13", "Proved for EVERY option record and EVERY value: the printer model's output equals the reference layout written from the "
          "documentation; the size pre-pass and the emission run in lock-step (sizes[*index] never out of bounds); a Width w is exactly "
          "the number of characters printed and Expanded means a line break was printed; no line break without limits (for values whose "
          "numbers contain no raw line feed, which every valid number satisfies; the unrestricted statement is refuted).",
   "Widths are unbounded N (usize overflow needs a 2^64-character line). No axioms.",
   "Coq proof (central lock-step lemma by nested induction) + byte-for-byte correspondence over value x option-record families with limits straddling the actual widths")
_m("C14", "Proved for all values: cmp is reflexive, antisymmetric, transitive; cmp = Equal iff equal iff ==; partial_cmp = Some cmp; "
          "objects compare as their entry lists; UTF-8 byte order is code-point order; the Hash write stream is a function of the value "
          "and determines it. That the implementation's Object impls look at entries only is observed on pairs of histories reaching "
          "the same entries with different index states; the exact write streams are compared with the model's.",
   "No axioms.", "Coq proof (generic lexicographic-order lemmas + nested induction) + correspondence on triples, near copies, history pairs and hash write streams")
_m("C15", "Proved for all pairs of values: unordered_eq = true iff PermEq (equality up to a permutation of object entries at any depth, "
          "one-to-one so multiplicities count); PermEq is an equivalence implied by equality; the result is symmetric.",
   "Lookups inside unordered_eq are modelled as scans (justified by C06). No axioms.",
   "Coq proof (greedy matching = removal-based matching; soundness by bijection, completeness by an exchange argument) + correspondence on all small object pairs, permutations, shuffles and mutations")

_m("C01", "Proved for EVERY character sequence and EVERY byte string: the parser model accepts a text iff it is ws value ws in the "
          "annotated RFC 8259 grammar with strict surrogate decoding (soundness and completeness of the explicit-stack machine through "
          "the recursive-descent reference), and accepts a byte string iff it is the UTF-8 encoding of such a text (the byte decoder "
          "accepts exactly well-formed UTF-8: no overlong form, no surrogate, nothing above U+10FFFF); a BOM is rejected; white space is "
          "exactly the four characters; all text entry points are one function and the byte entry point agrees with them on "
          "well-formed bytes. Correspondence compares the verdict of 13 real entry-point calls with the model on the shared parse suite. The verdict is also proved independent of the lengths the characters of a source declare (two error-free sources with the same characters are accepted together, any option record: C01_verdict_independent_of_declared_lengths).",
   "No axioms.",
   "Coq proof (machine = recursive descent <-> annotated grammar; UTF-8 decoder <-> RFC 3629 spec) + correspondence on verdicts of every entry point")
_m("C02", "Proved for every text and option record: a successful parse returns exactly the value (and code map) the annotated grammar "
          "says the text denotes, and that denotation is unique; for ALL instances: every non-surrogate \\uXXXX, every high x low pair "
          "(combined into one scalar), every raw scalar, the eight two-character escapes, every number (verbatim), the literals; "
          "lookups on an object built from any entry list are linear scans in source order. Correspondence compares the full value and "
          "every lookup on every key. The value is proved independent of the lengths the characters declare (same characters, same value, code map of the same length: C02_value_independent_of_declared_lengths).",
   "No axioms.",
   "Coq proof (soundness + completeness + functionality of the denotation; corollaries per clause) + correspondence on values and lookups")
_m("C05", "Proved for every error-free stream under every option record: the returned code map has one entry per fragment in pre-order, "
          "entry i's volume is the fragment count of subtree i (root volume = length, every volume >= 1), entry i's span cuts out "
          "exactly a derivation of fragment i (value, key or entry) beginning and ending on significant characters, all spans lie "
          "inside the input, the root span excludes surrounding white space, and it is THE code map the grammar assigns. Both entry "
          "points agree on well-formed bytes. Correspondence compares entire code maps through parse_str and parse_slice.",
   "No axioms.",
   "Coq proof (mutual induction on grammar derivations, transferred to the machine through soundness) + correspondence on whole code maps")
_m("C12", "Proved: the parser implements the grammar jv o for each option record; whatever strict mode accepts is returned unchanged "
          "(value and code map) under every record; every leniently accepted text is a strict text of the same length with only "
          "surrogate \\u escapes respelt, denoting the same value and code map; each replaced escape is exactly one U+FFFD; high units "
          "are replaced only with trunc, low units only with inval (independence), nothing with both off; pairs still combine. "
          "Correspondence compares value, code map or error under all four records, including every <= 4-element surrogate sequence.",
   "No axioms.",
   "Coq proof (monotonicity of the grammar in the options, repair simulation by mutual induction) + correspondence under the four option records")


# ----------------------------------------------------------------------------- canonicalization
def canon_known(case, impl, model, spec):
    return None


CANON_TRUST = [
    "Flocq 4.1.0 (binary_round, binary_round_aux) and Coq.Floats.SpecFloat (SFdiv_core_binary): the correctly rounded "
    "decimal->double conversion of Base/Float64.v is assembled from them; their correctness theorems depend on the four "
    "standard-library axioms listed under allow_axioms",
    "the implementation's number conversion (str::parse::<f64> of std, ryu-js Buffer::format_finite) is a dependency: "
    "modelled as a section variable; its agreement with the executable reference canon_number is validated by this run",
    "Vec::sort_by is a stable sort",
]

PROPS["C09"] = {
    "id": "C09", "family": "c09", "allow_axioms": vf.FLOCQ_AXIOMS,
    "nshards": {"quick": 16, "thorough": 16},
    "nontrivial": lambda case, impl: len(case) > 12,
    "rule": "numbers: 30 RFC 8785 / suite vectors; seeded decimals from eight classes: 17-30 digit significands with exponents "
            "-320..280, the notation thresholds (1e21, 1e-6 and neighbours), subnormals and range ends, integers around 2^53, "
            "2^64, 2^100 and 10^21, exact midpoints between adjacent doubles (computed with exact big-integer arithmetic) spelt "
            "exactly or nudged by one unit in the last place either way, zero spellings and underflowing magnitudes, and grammar "
            "random numbers. Keys: every permutation of 2-4 (quick) / 2-5 (thorough) members over a 22-key pool built around the "
            "region where UTF-16 and code-point order disagree (U+E000..U+FFFF vs supplementary planes), plus empty, prefix and "
            "control-character keys. Whole I-JSON documents (no duplicate keys, numbers in double range). Observable: the canonical "
            "bytes; spec column: the RFC 8785 reference serializer jcs. Non-trivial: more than one token. distinct = distinct case lines.",
    "trusted": CANON_TRUST,
    "assumptions": ["I-JSON domain: no duplicate keys, every number's nearest double finite"],
}
PROPS["C10"] = {
    "id": "C10", "family": "c10", "allow_axioms": vf.FLOCQ_AXIOMS,
    "nshards": {"quick": 16, "thorough": 16},
    "nontrivial": lambda case, impl: "{ $" in case or case.startswith("kk"),
    "rule": "I-JSON documents canonicalised once and twice (idempotence), through Value::canonicalize and Object::canonicalize, "
            "with every object of the result checked to answer indexes_of/get/index_of as a scan and its index buckets (hook) "
            "to hold exactly the ascending positions of each key; each document against a rewriting of it (members shuffled at "
            "every depth, every number exactly respelt: exponent shifting, trailing zeros, E/e/+, leading zero in the exponent); "
            "every permutation of 2-4/2-5 members with nested reordered objects and respelt numbers; number pairs d / exact "
            "respelling of d over the eight decimal classes of C09; beyond I-JSON: repeated member names whose values change order once "
            "canonical (0.2e2 / 100 / 20 ..), are proper beginnings of each other ({} / {a:1} / {a:1,b:2}), sit under 1 .. 140 levels of "
            "wrappers, or occur in objects of 31 .. 90 members, each against respelled and shuffled copies. Observable: the canonical value itself (compared with the "
            "model's), the flags, and equality of the two canonical texts. Non-trivial: documents with an object, and all pairs. "
            "distinct = distinct case lines.",
    "trusted": CANON_TRUST,
    "assumptions": ["I-JSON domain: no duplicate keys, every number's nearest double finite"],
}

_m("C09", "Proved for every I-JSON value with scalar member names: the compact text of canonicalize(v) equals the RFC 8785 reference "
          "serializer jcs (members sorted by UTF-16 code units, strings minimally escaped, no white space, numbers rendered by the "
          "ECMAScript digit search); jcs is defined exactly when every number is renderable; member names come out strictly "
          "increasing in UTF-16 order. Number half (Flocq): nearest_double is the IEEE-754 round-to-nearest-even binary64 of the exact "
          "decimal; the rendering exists exactly when that double is finite, reads back to the same double, has the fewest digits of "
          "any decimal that does and is the closest such; all 26 rows of RFC 8785 Appendix B are checked inside Coq. The implementation's own float "
          "conversions (std str::parse::<f64>, ryu-js) are dependencies: their agreement with the reference conversion is what the "
          "correspondence run validates, on seeded decimals around every rounding and notation boundary.",
   "Axioms: exactly the four standard-library axioms Flocq's theorems use (ClassicalDedekindReals.sig_forall_dec, sig_not_dec, "
   "FunctionalExtensionality.functional_extensionality_dep, Classical_Prop.classic); the structural theorems are axiom-free. The digit "
   "search is proved total on valid finite doubles (17 digits suffice), shortest over ALL decimals and closest among the shortest "
   "with an even s on a tie (ECMA-262 Number::toString step 5 in full, no residue: a 9 vs 10 tie is proved impossible). "
   "The four layout cases of the rendering are a direct transcription, covered by the Appendix B rows and the round trip.",
   "Coq proof (insertion sort by a total order = sorted-members spec; Flocq-backed correct rounding and round trip) + correspondence of canonical bytes with jcs")
_m("C10", "Proved: canonicalization is idempotent (for the reference conversion unconditionally; for any conversion that is idempotent on "
          "spellings); values equal up to member order at any depth have the same canonical form and text; the canonical form is the "
          "value with only member order and number spellings changed (PermEq to map_numbers); every number keeps its double (negative "
          "zero renders as 0); numerically equal spellings (same sign and exact decimal value: exponent shifting, trailing zeros, E/e, "
          "+, leading zeros in the exponent) render identically; the nearest double depends only on the exact value; the re-indexed "
          "object satisfies the C06 invariant and answers every query as a scan. White space and escape spelling are handled by C02 "
          "(documents denoting the same value parse to the same value). Correspondence compares canonical values, idempotence, "
          "shuffles, respellings, and the rebuilt index buckets.",
   "Axioms: the four Flocq/standard-library axioms for the number theorems; structural theorems axiom-free. Vec::sort_by trusted as a stable sort.",
   "Coq proof (sorted permutation is unique for a total order; Flocq value-dependence of rounding; round trip of the rendering) + correspondence on canonical values, shuffles, respellings and index dumps")

_m("C07", "Proved for every text of code points <= U+10FFFF: when strict parsing stops with an unexpected-character error, the "
          "reported offset is the byte length of the LONGEST prefix that can still be extended to an RFC 8259 text (pure ABNF, any "
          "\\uXXXX allowed): that prefix has a constructive completion, and the reported character (the input character at that "
          "offset, none exactly at the end of input) makes it non-viable (completeness + prefix determinism + option independence). "
          "For every option record and entry point every offset of every error variant is a character boundary. On ill-formed bytes "
          "InvalidUtf8 is reported at the first ill-formed sequence and then the well-formed prefix alone is accepted or merely runs "
          "out of input; otherwise the error is the one the prefix alone gives, strictly before that offset. Surrogate errors carry "
          "the code units of the escape(s) and the exact span from after the backslash to the end of the (last) offending escape. "
          "Correspondence compares variant, offsets, character, code units, position and span through parse_str and parse_slice.",
   "No axioms.",
   "Coq proof (Hoare-style invariant on consumed input; relational lockstep of two runs on inputs sharing a prefix; grammatical "
   "completion of every failing configuration) + correspondence on all error fields")

# in-Coq cross-check of extraction + glue (lib/coqx.py) for the families it has term builders for
PROPS["C12"]["xcheck"] = "c12"
PROPS["C13"]["xcheck"] = "c13"
PROPS["C15"]["xcheck"] = "c15"
PROPS["C08"]["xcheck"] = "c08"
PROPS["C01"]["xcheck"] = "c01"
PROPS["C04"]["xcheck"] = "c04"
PROPS["C20"]["xcheck"] = "c20"
PROPS["C05"]["xcheck"] = "c05"
PROPS["C07"]["xcheck"] = "c07"
PROPS["C02"]["xcheck"] = "c02"
PROPS["C06"]["xcheck"] = "c06"
PROPS["C11"]["xcheck"] = "c11"
PROPS["C14"]["xcheck"] = "c14"
# (xcheckB) canonicalization and serde families: own Flocq-loading headers, sharded coqc (lib/coqx.py, block xcheckB)
PROPS["C09"]["xcheck"] = "c09"
PROPS["C10"]["xcheck"] = "c10"
PROPS["C17"]["xcheck"] = "c17"
PROPS["C18"]["xcheck"] = "c18"
PROPS["C16"]["xcheck"] = "c16"
PROPS["C03"]["xcheck"] = "c03"

_m("C17", "Proved for every value: outside K4 (an object whose FIRST key is serde_json's private number token), and with numbers "
          "that are valid JSON numbers, to_value(&v) returns exactly v with -0 respelt 0 when no object has duplicate keys, and "
          "otherwise each key at its first position with its last value (= folding Object::insert over the entries, proved equal "
          "to the first-position/last-value specification) - for EVERY number spelling, including integer syntax outside 64 bits "
          "and exponents without fraction; outside K3 (a non-integer number whose nearest double is infinite) and K4 "
          "from_value::<Value>(v) returns a value of the same structure (duplicates collapsed the same way) in which every number "
          "denotes the same 64-bit integer or the same double, whatever the number of digits; the same through serde_json's "
          "streaming deserializer (correctly rounded front end). The two remaining classes are shown to be genuine deviations by "
          "witnesses (K3: 1e400 -> null; K4: {token: \"12\"} -> 12) and carried as known findings. Non-vacuity instances are "
          "evaluated in Props/C17.v.",
   "Modelled, not verified: serde's visitor/SerializeMap protocol, lexical's float writer (argument of the model with an explicit "
   "round-trip hypothesis, re-validated on every explored case through recorded dependency answers), correct rounding of "
   "str::parse::<f64> and of serde_json's float_roundtrip parser (modelled by the Flocq-based reference). Theorems are closed "
   "under the global context (the Flocq axioms are allowed but not used).",
   "Coq proof (nested induction on values; fold of insert = first-position/last-value by an accumulator invariant; decimal "
   "round-trips through the standard library's Decimal) + correspondence over number spelling classes x three routes")
_m("C18", "Proved: for every well-formed serde_json value (integer ranges, finite floats, keys strictly sorted as BTreeMap guarantees) "
          "into_serde_json(from_serde_json(j)) = j; for every json-syntax value without duplicate keys whose numbers are 64-bit "
          "integers or finite doubles, from_serde_json(into_serde_json(v)) equals v with every object's entries sorted by key (a "
          "permutation at every depth, the relation of C15) and every number denoting the same integer or double; "
          "into_serde_json returns a value for EVERY input (a magnitude beyond the doubles becomes null) and from_serde_json never "
          "reaches its panic site. Non-vacuity instances are evaluated in Props/C18.v.",
   "Modelled, not verified: ryu printing (argument with an explicit round-trip hypothesis, re-validated on every case), correct "
   "rounding of str::parse::<f64> (modelled by the Flocq-based reference), BTreeMap. Theorems are closed under the global context.",
   "Coq proof (nested induction on both value types; BTreeMap insertion of a sorted run is append; simulation between insertion "
   "sort by key and BTreeMap insertion) + correspondence over all three number representations, random bit patterns and the C17 "
   "spelling classes, every call under catch_unwind")


# ----------------------------------------------------------------------------- json! macro
def c19_nontrivial(case, impl):
    # a document with a non-empty container
    t = case.split(" ")
    return any(x in ("[", "{") and not t[i + 1].startswith(("]", "}")) for i, x in enumerate(t[:-1]))


def _c19_parse(t, i):
    """token list -> (tree, next index); tree = ('leaf', tok) | ('arr', [tree], close) | ('obj', [(keytok, tree)], close)"""
    h = t[i]
    if h == "[":
        items, i = [], i + 1
        while not t[i].startswith("]"):
            x, i = _c19_parse(t, i)
            items.append(x)
        return ("arr", items, t[i]), i + 1
    if h == "{":
        items, i = [], i + 1
        while not t[i].startswith("}"):
            k = t[i]
            x, i = _c19_parse(t, i + 1)
            items.append((k, x))
        return ("obj", items, t[i]), i + 1
    return ("leaf", h), i + 1


def _c19_show(n):
    if n[0] == "leaf":
        return n[1]
    if n[0] == "arr":
        return " ".join(["["] + [_c19_show(x) for x in n[1]] + [n[2]])
    return " ".join(["{"] + [k + " " + _c19_show(x) for k, x in n[1]] + [n[2]])


def _c19_variants(n):
    """structurally smaller documents: a child in place of its parent, one item dropped, a
    sub-document replaced by null, trailing comma dropped, key written as a plain literal"""
    out = []
    if n[0] == "leaf":
        t = n[1]
        if t != "n":
            out.append(("leaf", "n"))
        if t[0] == "i":
            num, colon, ty = t[1:].partition(":")
            if num not in ("0", "1", "-1"):
                out.append(("leaf", "i" + ("-1" if num[0] == "-" else "1") + colon + ty))
            if ty:
                out.append(("leaf", "i" + num))      # is the suffix needed? (BADCASE when out of i32)
            try:
                z = int(num)
                if abs(z) > 3:
                    out.append(("leaf", "i%d%s%s" % (int(z / 2), colon, ty)))
            except ValueError:
                pass
        if t[0] == "d" and t[2:] != "1.5=1.5":
            out.append(("leaf", t[:2] + "1.5=1.5"))
            out.append(("leaf", t[:2] + "0.0=0"))
        return out
    kids = n[1] if n[0] == "arr" else [x for _, x in n[1]]
    out.extend(kids)
    for j in range(len(n[1])):
        out.append((n[0], n[1][:j] + n[1][j + 1:], n[2]))
    if n[2].endswith("+"):
        out.append((n[0], n[1], n[2][0]))
    for j in range(len(n[1])):
        sub = n[1][j] if n[0] == "arr" else n[1][j][1]
        for v in _c19_variants(sub):
            item = v if n[0] == "arr" else (n[1][j][0], v)
            out.append((n[0], n[1][:j] + [item] + n[1][j + 1:], n[2]))
        if n[0] == "obj" and n[1][j][0][0] != "k":
            out.append((n[0], n[1][:j] + [("k" + n[1][j][0][1:], sub)] + n[1][j + 1:], n[2]))
    return out


def c19_shrink_candidates(case):
    t = case.split(" ")
    try:
        tree, end = _c19_parse(t, 1)
    except IndexError:
        return []
    if end != len(t):
        return []
    return [t[0] + " " + _c19_show(v) for v in _c19_variants(tree)][:160]


def _c19_unhex(t):
    return "" if t == "-" else "".join(chr(int(h, 16)) for h in t.split(","))


# reference spellings of fixed f32 literals inside the magnitude range of the finding below for
# which the pinned dependency IS shortest (123456792f32, 2147483648f32, 2147483520f32,
# 33554436f32): a disagreement on them is never the known finding
C19_CLEAN_REFS = {"123456790", "2147483600", "2147483500", "33554436"}


def _c19_sig(s):
    m = s.lower().split("e")[0].replace(".", "").lstrip("-").lstrip("0")
    return len(m.rstrip("0")) or 1


def _c19_f32(x):
    import struct
    try:
        return struct.unpack("f", struct.pack("f", x))[0]
    except OverflowError:
        return None


def c19_known(case, impl, model, spec):
    """C19-lexical-not-shortest: implementation and model lines differ only in the spelling of
    numbers built from float literals (hence possibly in EQ); each such pair denotes the same
    float -- the same f64 of magnitude in [2^68, 2^97), or, in a case with f32 literals, the same
    f32 of magnitude in [2^25, 2^48) -- and the implementation's spelling has MORE significant
    digits than the model's (the reference: shortest digits); the reference spellings of the
    fixed literals known to be spelt correctly are excluded."""
    a, b = impl.split(" "), model.split(" ")
    if len(a) != len(b) or impl.startswith(("COMPILE-ERROR", "RUN-ERROR")):
        return None
    seen = False
    for x, y in zip(a, b):
        if x == y:
            continue
        if {x, y} == {"EQ=0", "EQ=1"}:
            continue
        for pre in ("M=", "P="):
            if x.startswith(pre) and y.startswith(pre):
                x, y = x[2:], y[2:]
        if not (x.startswith("#") and y.startswith("#")):
            return None
        try:
            sx, sy = _c19_unhex(x[1:]), _c19_unhex(y[1:])
            fx, fy = float(sx), float(sy)
            as64 = fx == fy and 2.0 ** 68 <= abs(fy) < 2.0 ** 97
            as32 = ("f32=" in case and _c19_f32(fx) is not None and _c19_f32(fx) == _c19_f32(fy)
                    and 2.0 ** 25 <= abs(fy) < 2.0 ** 48)
            if not (as64 or as32) or _c19_sig(sx) <= _c19_sig(sy) or sy.lstrip("-") in C19_CLEAN_REFS:
                return None
        except ValueError:
            return None
        seen = True
    return "C19-lexical-not-shortest" if seen else None


def c19_pre_build(vf):
    """regenerates coq/theories/Generated/MacroRules.v from the tree under check (the static tie of the rule set)"""
    import macro_translate
    return macro_translate.pre_build(vf)


PROPS["C19"] = {
    "id": "C19", "family": "c19", "allow_axioms": [],
    "pre_build": c19_pre_build,
    "known": c19_known,
    "xcheck": "c19",
    "nshards": {"quick": 1, "thorough": 1},
    "nontrivial": c19_nontrivial,
    "shrink_candidates": c19_shrink_candidates,
    "shrink_budget": 1200,
    "rule": "the quantifier is over PROGRAMS, so the implementation side is a compiled batch: 300 (quick) / 3,000 (thorough) "
            "seeded documents of the domain are written as json!( .. ) invocations (one function each, 20 / 40 per generated "
            "program; string literals spelt with varying escapes and raw strings; variable keys as `const K_..: &str`) "
            "together with their JSON texts, compiled by rustc against the working tree (rlib built once, offline, under "
            "build/c19-target; programs under build/c19-crate) and run. Systematic part: each of 12 element kinds (null, "
            "true, false, +int, -int, +float, -float, string, empty/non-empty array, empty/non-empty object) alone, first "
            "and last in an array and in an object under each of the four key forms (literal, parenthesised literal, "
            "variable, parenthesised variable), duplicate keys, with and without trailing comma; for each of the eight suffix "
            "types the array [MIN, MAX, 0, 1, MAX-1, (MIN+1, -1)] of suffixed literals, and u64::MAX, 2^63, 2^63+1, 2^63-1 as u64 "
            "and i64::MIN / i64::MAX as scalar, array item and object value (part of every run); random part: nested "
            "documents of depth <= 4 / 5 and width <= 4 / 6 with repeated keys, integer literals (half unsuffixed i32 incl. its "
            "bounds, half with a suffix i8..i64 / u8..u64: MIN, MAX, MAX-1, MIN+1, 0, 1, the powers 2^7, 2^8, 2^15, 2^16, 2^31, "
            "2^32, 2^63 and their predecessors, negated for signed types, and random values), float literals of ANY "
            "spelling -- nine classes of doubles and singles written as {:?}, {:e}, {:E} with or without '+', fixed with "
            "1-8 decimals, integral with and without '.0', or the reference spelling; unsuffixed, f64- or f32-suffixed; "
            "each case line carries the literal and its reference spelling (std's shortest digits, even on exact ties, "
            "of the f64 / f32 the literal's digits round to, in lexical's layout), computed without the crate under test "
            "and cross-checked against the Coq reference; 62 fixed literals are part of every run (as array items and "
            "object values): -0.0, 0.0, 5.0, -7.0, 2147483647.0, 2147483648.0, -2147483649.0, 1e10, 1e5, 1.50, 100.0, "
            "1E3, 1e+3, 2.5e-3, 00.5, 01e2, 5e-324, 1.7976931348623157e308, 1.5f64, 3f64, -0f64, 123456792f32, "
            "2147483648f32, 2147483520f32, 16777217f32, 33554436f32, 1e10f32, -0.0f32, -0f32, 3.4028235e38f32, 1e-45f32 ... "
            "and four witnesses of known finding C19-lexical-not-shortest (2.675e21, 7.75e21, 1.1e10f32, 412390020f32), "
            "strings with quotes, backslashes, controls, U+2028, non-BMP characters. Observable per document: the value the "
            "macro built, the value Value::parse_str returns on the corresponding text, whether they are ==, and the text; "
            "the model column is expand(tokens d) (with the executable float-spelling reference), the parser model on text "
            "d and their equality; the spec column is value_of d. All three must agree. A program that does not compile is "
            "bisected (bounded number of extra compilations) and the documents responsible get the observable "
            "COMPILE-ERROR <rustc message>, which is a disagreement, hence a VIOLATION. Non-trivial: a document with a "
            "non-empty container. distinct = distinct case lines.",
    "trusted": ["rustc's macro_rules! matcher is a MODELLED contract: rules are tried in source order and the first whose pattern "
                "matches is transcribed; fragment classes on the JSON-literal token domain: `literal` = one literal token or `-` "
                "literal (a `-` not followed by a literal is a hard error), `expr` = literal | -literal | variable | interpolated "
                "expression | parenthesised expr, `tt` = one token tree; interpolated expr/literal fragments are opaque to token "
                "patterns. Validated only by compiling and running the generated programs",
                "the rule set is tied to src/macros.rs by a translator: lib/macro_translate.py (its own tokeniser / token-tree "
                "builder for Rust, the reading of `$x:frag` and `$( .. ) sep? rep`, the recognition of `name!(..)` and "
                "`$crate::path(args)` expressions in templates; metavariables numbered in order of first occurrence) regenerates "
                "coq/theories/Generated/MacroRules.v (src_rules, 41 rules) from the tree under check at the start of every run; "
                "C19_rules_from_source (rules_tie: src_rules = model_rules) is rebuilt against it and C19_rules_semantics proves "
                "that one step of the model's dispatcher is one step of a generic interpreter of those rules on invocations "
                "inv_ok, C19_expand_by_source_rules that whole expansions of user invocations are that interpreter iterated. "
                "Trusted there: the translator's tokeniser, and that the interpreter / Model/Macro.v describe rustc's "
                "matcher (validated by the run only). The tie is syntactic: a harmless reordering of rules is reported too "
                "(no-failing-input-found)",
                "type inference gives an unsuffixed integer literal the type i32 and a float literal f64 in Value::try_from(..); a "
                "suffixed literal has the type of its suffix; overflowing_literals (deny-by-default) rejects a literal outside its "
                "type's range looking at the negation as a whole (-128i8 compiles, 128i8 does not); unsigned literals cannot be "
                "negated; "
                "std's From/TryFrom blanket impls; Object::from_vec keeps the vector's order",
                "the spelling of a float (rustc's correctly rounded reading of the literal into f64 / f32, then json-number -> "
                "lexical-core write_float, trim_floats, exponent 'e') is a dependency: a universally quantified function "
                "fmt_float in the theorems, the executable reference Model/MacroFloat.lexical_float in the run (nearest f64 / "
                "f32 of the literal's digits, shortest round-trip digits -- ties to even for f64, to the larger for f32, as "
                "observed of lexical --, positional for decimal exponents -5..9, scientific otherwise; for f32 the printer of "
                "Model/Serde.v whose round trip and totality are proved in Proofs/Float32Proofs.v / Float32Total.v)",
                "the generated programs set #![recursion_limit = \"4096\"] (the muncher recurses once per token; fuel in the "
                "model is existential)"],
    "assumptions": ["domain: integer literals `-`? digits suffix? within the range of their type -- i32 when unsuffixed, "
                    "otherwise the suffix, one of i8, i16, i32, i64, u8, u16, u32, u64 (the types with From<T> for Value; usize, "
                    "isize, i128, u128 literals do not compile); the JSON text has no suffix; float literals of any spelling (digits, optional "
                    "fraction, optional exponent e/E with optional sign, leading zeros allowed, optional suffix f32 / f64; plain "
                    "digits only with a suffix) that do not overflow their type and do not denote a power of two lying exactly "
                    "half-way between two equally short spellings (there the dependency breaks the tie its own way: the single "
                    "2^-12 is spelt 0.00024414062, the reference says 0.00024414063; such floats are not generated): a float literal passes through its float type, so "
                    "its JSON text is the spelling the float printer gives to that float (1.50 -> 1.5, 100.0 -> 100, 1e5 -> 100000, "
                    "-0.0 -> -0, 123456792f32 -> 123456790); literals that are re-spelt as themselves (1.5, 0.1, 1e21, 1e-7) are "
                    "the special case where that text is the literal text; where the dependency's spelling differs from the "
                    "reference spelling (2.675e21 is stored as 2.6750000000000003e21) the check reports the known finding; the "
                    "integer literal -0 (the i32 0, spelt 0) is out; strings/keys of "
                    "scalar values; keys written as a string literal, a parenthesised literal, a &str variable or a "
                    "parenthesised variable; a trailing comma only after at least one item"],
}

_m("C19", "Proved for EVERY document of the domain (arrays and objects nested to any depth, each with or without trailing comma, "
          "string / integer (unsuffixed i32 or suffixed i8..i64, u8..u64, within the type's range) / float of any spelling, f64 or f32 / boolean / null "
          "literals, negative numbers, literal, parenthesised and variable "
          "keys, duplicate keys): the rule model of json! -- the 41 rules of src/macros.rs in source order as a first-match "
          "rewriting system over token trees, with the leaf conversions -- expands the document's tokens to exactly the value the "
          "document denotes (items and entries in written order, duplicates kept), the trailing comma never matters, the "
          "corresponding JSON text is the minimal serialisation of that value and the parser model returns exactly that value on "
          "it; hence macro value = parsed value. What is proved is about the RULE MODEL: rustc's macro_rules matcher (first "
          "matching rule wins, fragment classes) is a modelled contract, validated by compiling and running generated programs "
          "(sampled, since the quantifier is over programs). The rule set itself is tied to the source statically: a translator "
          "regenerates the 41 rules of src/macros.rs as Coq data on every run, C19_rules_from_source proves them equal to the reference "
          "rules, and the model's dispatcher is proved to be a generic first-match interpreter of that data (C19_rules_semantics, "
          "C19_expand_by_source_rules, C19_source_rules_expand). The rule sets of the helper macros json_vec!, json_unexpected!, json_expect_expr_comma! are read off the source too and proved equal to the ones the model assumes (C19_helpers_from_source).",
   "A float literal passes through its float type: its JSON text is the spelling the float printer gives to the float it "
   "denotes; that function (literal -> spelling; rustc's rounding + lexical) is a universally quantified dependency in the "
   "theorems with an executable reference in the run. "
   "No axioms.",
   "Coq proof (accumulator invariants of the two token munchers by induction on the item list inside a nested induction on "
   "documents; text side by composition with C04/C08) + correspondence on compiled batches of generated json! programs "
   "(macro value, parsed value, model expansion, model parse, denoted value all compared) + a translator tie for the rule "
   "set: lib/macro_translate.py regenerates the 41 rules of src/macros.rs as Coq data on every run, rules_tie proves them "
   "equal to the reference rules, and a generic first-match interpreter of that data is proved equal, rule by rule, to the "
   "model's hand-written dispatcher, and whole expansions to that interpreter iterated (Proofs/MacroInterp.v)")

_m("C16", "Proved for EVERY type environment, type descriptor and datum of the serde data model (bool, i8..u64, f32, f64, char, string, "
          "unit, unit/newtype/tuple/plain structs, option, seq, tuple, maps keyed by strings/integers/chars/unit variants, the four "
          "enum variant kinds incl. field-less tuple variants; recursive types through nominal definitions), by nested induction on the "
          "datum: (C16_roundtrip) if the datum is well typed, its floats finite and it is outside one recorded class, to_value "
          "succeeds and from_value of the result returns the datum with -0.0 read back as +0.0 and nothing else changed, for all "
          "sufficiently large fuel; (C16_nonfinite) non-finite f32/f64 serialize to null; (C16_shape) for data without f32 leaves "
          "the value has the same JSON shape as the model of serde_json::to_value: structure, strings, booleans exact, object "
          "members up to order, numbers by value; (C16_shape32, C16_shape32_f32_only, C16_shape32_model) for data WITH f32 leaves "
          "(json-syntax prints the shortest f32 digits, serde_json widens the f32 to f64) the two values have the same shape at "
          "binary32 precision -- every number replaced by the binary32 nearest to the real it denotes (Spec/SerdeShape32.v: sgl of a "
          "spelling, the `as f32` cast of a serde_json integer/double) -- under the premises that an f32's printed spelling reads "
          "back at binary32 as that f32 and that no binary32 rounding boundary separates an f64 leaf from its printed spelling "
          "(necessary: C16_shape32_f64_midpoint; absent for data whose floats are all f32), the key lemma being that widening is "
          "exact (C16_widening_exact: f32_of_f64 (f64_of_f32 b) = b) and that the spelling of an integer reads at binary32 as its "
          "`as f32` cast (C16_sgl_of_integer); non-vacuity C16_shape32_example (0.1f32: 0.1 vs 0.10000000149011612); "
          "(C16_via_json) converting the "
          "serde_json rendering into a Value and deserializing it returns the datum exactly, sign of zero included, maps in key "
          "order, for EVERY well-typed finite datum; (C16_map_last_wins, C16_map_keys_distinct, C16_struct_dup_field, "
          "C16_struct_variant_dup_field, C16_enum_repeated_variant_key, C16_dup_examples) a JSON object with REPEATED keys handed to "
          "from_value: into a map type every entry is deserialized and the last value of a key is kept, i.e. the result is the "
          "result on the object with the earlier occurrences removed and its keys are pairwise different; into a struct or a "
          "struct variant a repeated declared field is an error; an enum object must have exactly one entry. "
          "Number spellings are read as visit_number / deserialize_f32 do: u64, else i64, "
          "else the correctly rounded f64 (f32) of the spelling -- no parsing dependency is left in the statements. One genuine "
          "finding remains, with a witness proved in Coq: C16_K1_refuted (a map whose first key is `$serde_json::private::Number` "
          "becomes a number or an error; inherent to the arbitrary-precision hand-shake). Two earlier findings are repaired in "
          "/repo (fix: F4 empty tuple variant, F5 f32 double rounding) and are now examples inside the theorems' domain "
          "(C16_empty_tuple_variant_example; C16_f32_midpoint_example: 7.038531e-26 reads as 0x15ae43fd directly, 0x15ae43fe through "
          "f64). The call protocol of the std / derive-generated Deserialize impls, serde_json::to_value's shape, "
          "Value::from_serde_json and the float PRINTERS are MODELLED CONTRACTS (transcriptions / section variables with explicit "
          "premises) validated by the run: the run feeds the model the spellings the printers actually produced and checks every "
          "premise on them (hyp=1), and also hands from_value 20k ill-typed edits of serialized values and 4k values whose objects "
          "have repeated keys.",
   "The structural theorems are axiom-free; the theorems about the binary32 reference (C16_nearest_single_correct: sgl is the IEEE-754 "
   "round-to-nearest-even binary32 of the exact decimal; C16_sgl_spelling; C16_f32_printer_round_trips: the reference shortest-digits "
   "printer reads back to the same bit pattern for every finite f32; C16_f32_shortest: its digits are the fewest of ANY decimal that rounds to "
   "the binary32 (at most 9), closest among those, larger digit string on a tie; C16_f32_printer_digits) and the binary32 shape theorems "
   "(C16_widening_exact, C16_shape32*, C16_sgl_of_integer) depend on Flocq's theorems, i.e. on the four standard-library axioms. "
   "Floats are bit patterns; the printers enter the theorems as explicit "
   "premises (the spelling of a finite float reads back, correctly rounded, as that float; serde_json floats are non-integer-spelled), "
   "each re-checked by the run on every recorded spelling and on samples inside Coq.",
   "Coq proof (nested induction on the datum, generalised over type and fuel; sorted-insertion lemmas for the serde_json side) + "
   "correspondence on 71 root types with a recording serializer, recorded float spellings, ill-typed inputs and repeated-key objects")


# ----------------------------------------------------------------------------- static tie of the constant tables
# lib/const_translate.py regenerates coq/theories/Generated/Consts.v from the tree under check at the start of the check
# of every property below (pre_build, same mechanism as the macro tie of C19) and Proofs/ConstsTie.v is re-established
# against it; see DESIGN.md section 4, "Translator tie for constant tables".
import const_translate  # noqa: E402

CONST_TIE_TRUST = ("static tie of the constant tables (lib/const_translate.py): its reading and evaluation of the Rust fragment the "
                   "sites are written in (literals, ranges, `|` patterns, matches!, match/if, casts, struct literals, enum paths), "
                   "and that agreement on the evaluated code points (char_domain: U+0000..U+02FF and boundary points up to U+10FFFF) "
                   "extends to all code points on the source side; for the executed sites (leaf_*: null, boolean, parse_hex4, array and "
                   "object functions, the string scanner, the number parser) the translator's stub of `Parser` (look-ahead, position, "
                   "begin_fragment / end_fragment, skip_whitespaces, failing items: a hand restatement of src/parse/mod.rs) and its "
                   "evaluation of match / loop / while-let / break-with-value / `?` / Option::take")
for _pid in const_translate.PROPS_CONCERNED:
    _sites = [s for s in const_translate.SITES if _pid in s["props"]]
    PROPS[_pid]["pre_build"] = [const_translate.hook(_pid)]
    PROPS[_pid]["trusted"] = list(PROPS[_pid].get("trusted", [])) + [
        CONST_TIE_TRUST + "; sites of this property: " + ", ".join(s["id"] for s in _sites)]
    if "manifest" in PROPS[_pid]:
        PROPS[_pid]["manifest"]["technique"] += (
            " + static translator tie of the constant tables (" + ", ".join(s["id"] for s in _sites) + ": evaluated from the Rust "
            "source by lib/const_translate.py on every run and proved equal to the data computed from the model's own functions, "
            "Proofs/ConstsTie.v)")
