//! `harness-deep <shape> <depth> <options> <entry>`: the deep-nesting child of the C03 check,
//! compiled without optimisation (see Cargo.toml).
#[path = "../../harness/src/deep.rs"]
mod deep;

fn main() {
    let a: Vec<String> = std::env::args().collect();
    if a.len() != 5 {
        eprintln!("usage: harness-deep <shape> <depth> <options> <entry>");
        std::process::exit(2);
    }
    deep::deep_child(&a[1], a[2].parse().unwrap(), a[3].parse().unwrap(), &a[4]);
}
