(* driver.ml -- reads one case per line on stdin, prints "model[\tspec]" per line. *)
let () =
  let fam = Sys.argv.(1) in
  let run =
    match fam with
    | "c20" -> Fam_c20.run
    | "c01" -> Fam_parse.c01
    | "c02" -> Fam_parse.c02
    | "c05" -> Fam_parse.c05
    | "c07" -> Fam_parse.c07
    | "c12" -> Fam_parse.c12
    | "c04" -> Fam_print.c04
    | "c08" -> Fam_print.c08
    | "c13" -> Fam_print.c13
    | "c15" -> Fam_unordered.run
    | "c06" -> Fam_object.run
    | "c11" -> Fam_nav.run
    | "c14" -> Fam_compare.run
    | "c03" -> Fam_parse.c03
    | "c09" -> Fam_canon.c09
    | "c10" -> Fam_canon.c10
    | "c17" -> Fam_serde.c17
    | "c18" -> Fam_serde.c18
    | "c19" -> Fam_macro.run
    | "c16" -> Fam_serde_typed.run
    | _ -> prerr_endline ("unknown family " ^ fam); exit 2
  in
  let out = Buffer.create (1 lsl 16) in
  let flush_out () = print_string (Buffer.contents out); Buffer.clear out in
  (try
     while true do
       let line = input_line stdin in
       let (m, s) =
         try run (Glue.split_ws line) with
         | Glue.Bad_case c -> ("BADCASE " ^ c, "")
         | Stack_overflow -> ("MODEL-STACK-OVERFLOW", "")
       in
       Buffer.add_string out m;
       if s <> "" then (Buffer.add_char out '\t'; Buffer.add_string out s);
       Buffer.add_char out '\n';
       if Buffer.length out > (1 lsl 16) then flush_out ()
     done
   with End_of_file -> ());
  flush_out ()
