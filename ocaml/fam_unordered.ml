(* C15: unordered equality; spec column: equality of recursively sorted normal forms *)
open Model
open Glue

let rec norm (v : value) : value =
  match v with
  | VArr l -> VArr (List.map norm l)
  | VObj l ->
    let l' = List.map (fun (k, x) -> (k, norm x)) l in
    VObj (List.stable_sort (fun a b -> match entry_cmp a b with Lt -> -1 | Eq -> 0 | Gt -> 1) l')
  | x -> x

let run toks =
  match toks with
  | "u" :: "|" :: r ->
    let (a, r1) = dec_value r in
    (match r1 with
     | "|" :: r2 ->
       let (b, _) = dec_value r2 in
       let ab = unordered_eq a b and ba = unordered_eq b a in
       let s = value_eqb (norm a) (norm b) in
       let f x = tok_of_bool x in
       (Printf.sprintf "ab=%s ba=%s asu=%s wrap=%s refl=%s eq=%s" (f ab) (f ba) (f ab) (f ab)
          (f (unordered_eq a a)) (f (value_eqb a b)),
        Printf.sprintf "ab=%s ba=%s asu=%s wrap=%s refl=1 eq=%s" (f s) (f s) (f s) (f s) (f (value_eqb a b)))
     | _ -> raise (Bad_case "u"))
  | "uh" :: nk :: ops ->
    Fam_object.set_universe nk;
    let rec split acc = function
      | "/" :: r -> (List.rev acc, r)
      | x :: r -> split (x :: acc) r
      | [] -> raise (Bad_case "uh") in
    let (ops1, ops2) = split [] ops in
    let runh ops = List.fold_left (fun o op -> fst (Fam_object.apply o op)) empty_obj ops in
    (try
       let a = VObj (runh ops1).entries and b = VObj (runh ops2).entries in
       let f x = tok_of_bool x in
       let s = value_eqb (norm a) (norm b) in
       (Printf.sprintf "ab=%s ba=%s low=1 refl=%s eq=%s" (f (unordered_eq a b)) (f (unordered_eq b a))
          (f (unordered_eq a a)) (f (value_eqb a b)),
        Printf.sprintf "ab=%s ba=%s low=1 refl=1 eq=%s" (f s) (f s) (f (value_eqb a b)))
     with Fam_object.Model_panic -> ("MODEL-PANIC", ""))
  | _ -> raise (Bad_case "u")
