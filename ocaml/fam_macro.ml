(* C19: json! macro.  Case line: `m <document>` (see harness/src/c19.rs).
   model column: M = expand (tokens d) under the executable float reference lexical_float,
                 P = the parser model on text d, EQ = their equality, T = text d;
   spec column:  M = P = value_of d, EQ = 1, T = text d. *)
open Model
open Glue

let sub1 (s : str) : str = Stdlib.String.sub s 1 (Stdlib.String.length s - 1)
let sub2 (s : str) : str = Stdlib.String.sub s 2 (Stdlib.String.length s - 2)

(* constants are named after their contents: K_<hex>_<hex>... *)
let var_name (k : n list) : n list =
  s2l_ascii ("K" ^ Stdlib.String.concat "" (List.map (fun c -> Printf.sprintf "_%x" (int_of_n c)) k))

let ity_of_tok (s : str) : ity =
  match s with
  | "i8" -> TI8 | "i16" -> TI16 | "i32" -> TI32 | "i64" -> TI64
  | "u8" -> TU8 | "u16" -> TU16 | "u32" -> TU32 | "u64" -> TU64
  | _ -> raise (Bad_case "integer type")

let rec dec_doc (t : str list) : doc * str list =
  match t with
  | "n" :: r -> (DNull, r)
  | "t" :: r -> (DBool true, r)
  | "f" :: r -> (DBool false, r)
  | "[" :: r ->
    let rec items acc r =
      match r with
      | "]" :: r' -> (DArr (List.rev acc, false), r')
      | "]+" :: r' -> (DArr (List.rev acc, true), r')
      | _ -> let (d, r') = dec_doc r in items (d :: acc) r'
    in items [] r
  | "{" :: r ->
    let rec ents acc r =
      match r with
      | "}" :: r' -> (DObj (List.rev acc, false), r')
      | "}+" :: r' -> (DObj (List.rev acc, true), r')
      | k :: r1 when Stdlib.String.length k > 0 ->
        let key = cps_of_tok (sub1 k) in
        let kf = match k.[0] with
          | 'k' -> KLit | 'p' -> KParen
          | 'v' -> KVar (var_name key) | 'q' -> KParenVar (var_name key)
          | _ -> raise (Bad_case "key") in
        let (d, r') = dec_doc r1 in ents (((kf, key), d) :: acc) r'
      | _ -> raise (Bad_case "object")
    in ents [] r
  | x :: r when Stdlib.String.length x > 1 && x.[0] = 'i' ->
    (* i<decimal> | i<decimal>:<type>; u64 values exceed OCaml's int: read the digits into N *)
    let (num, ty) =
      match Stdlib.String.index_opt x ':' with
      | Some j -> (Stdlib.String.sub x 1 (j - 1), Some (ity_of_tok (Stdlib.String.sub x (j + 1) (Stdlib.String.length x - j - 1))))
      | None -> (sub1 x, None) in
    let neg = Stdlib.String.length num > 0 && num.[0] = '-' in
    let digits = if neg then sub1 num else num in
    if digits = "" || not (Stdlib.String.for_all (fun c -> c >= '0' && c <= '9') digits) then raise (Bad_case "int");
    let z = match n_of_dec digits with
      | N0 -> Z0
      | Npos p -> if neg then Zneg p else Zpos p in
    (DInt (ty, z), r)
  | x :: r when Stdlib.String.length x > 2 && x.[0] = 'd' && (x.[1] = '+' || x.[1] = '-') ->
    (* d<sign><literal>[f32|f64]=<reference spelling> *)
    let body = sub2 x in
    let j = (match Stdlib.String.index_opt body '=' with Some j -> j | None -> raise (Bad_case "float")) in
    let l = Stdlib.String.sub body 0 j and want = Stdlib.String.sub body (j + 1) (Stdlib.String.length body - j - 1) in
    let n = Stdlib.String.length l in
    let (lit, sfx) =
      if n > 3 && Stdlib.String.sub l (n - 3) 3 = "f32" then (Stdlib.String.sub l 0 (n - 3), Some FT32)
      else if n > 3 && Stdlib.String.sub l (n - 3) 3 = "f64" then (Stdlib.String.sub l 0 (n - 3), Some FT64)
      else (l, None) in
    if lit = "" || want = "" then raise (Bad_case "float");
    (DFloat (x.[1] = '-', s2l_ascii lit, sfx, s2l_ascii want), r)
  | x :: r when Stdlib.String.length x > 1 && x.[0] = '$' -> (DStr (cps_of_tok (sub1 x)), r)
  | _ -> raise (Bad_case "doc")

(* the &str constants in scope: every variable key of the document *)
let rec vars (d : doc) (acc : (n list * n list) list) : (n list * n list) list =
  match d with
  | DArr (l, _) -> List.fold_left (fun a x -> vars x a) acc l
  | DObj (l, _) ->
    List.fold_left (fun a ((kf, k), x) ->
        let a = match kf with KVar v | KParenVar v -> (v, k) :: a | _ -> a in
        vars x a) acc l
  | _ -> acc

let fuel = nat_of_int 20000

let run_doc toks =
  match toks with
  | "m" :: r ->
    let (d, rest) = dec_doc r in
    if rest <> [] then raise (Bad_case "trailing tokens");
    let table = vars d [] in
    let env (x : n list) : n list option =
      match List.find_opt (fun (v, _) -> str_eqb v x) table with Some (_, k) -> Some k | None -> None in
    let txt = text d in
    let t = tok_of_cps txt in
    let spec_v = value_of d in
    let m = expand lexical_float env fuel (tokens d) in
    let p = match parse_str txt with Ok (v, _) -> Some v | _ -> None in
    let ms = match m with Some v -> value_str v | None -> "NONE" in
    let ps = match p with Some v -> value_str v | None -> "ERR" in
    let eq = match m, p with Some a, Some b -> value_eqb a b | _ -> false in
    (Printf.sprintf "M=%s P=%s EQ=%s T=%s" ms ps (tok_of_bool eq) t,
     Printf.sprintf "M=%s P=%s EQ=1 T=%s" (value_str spec_v) (value_str spec_v) t)
  | _ -> raise (Bad_case "m")

(* malformed case lines (shrink candidates) are BADCASE, never a crash *)
let run toks =
  try run_doc toks with Failure _ | Invalid_argument _ | Not_found -> raise (Bad_case "m")
