(* glue.ml -- conversions between case-line tokens and the extracted Coq datatypes.
   Trusted (cross-checked against in-Coq vm_compute on a sample, see bin/check). *)
module M = Model
open M
type str = Stdlib.String.t

let rec pos_of_int (i : int) : positive =
  if i = 1 then XH
  else if i land 1 = 0 then XO (pos_of_int (i lsr 1))
  else XI (pos_of_int (i lsr 1))

let n_of_int (i : int) : n = if i = 0 then N0 else Npos (pos_of_int i)

let rec int_of_pos = function
  | XH -> 1
  | XO p -> 2 * int_of_pos p
  | XI p -> 2 * int_of_pos p + 1

let int_of_n = function N0 -> 0 | Npos p -> int_of_pos p

let rec nat_of_int (i : int) : nat = if i = 0 then O else S (nat_of_int (i - 1))
let rec int_of_nat = function O -> 0 | S k -> 1 + int_of_nat k

(* decimal string <-> N, for values beyond OCaml's int *)
let n_ten = n_of_int 10
let n_of_dec (s : str) : n =
  let acc = ref N0 in
  String.iter (fun c -> acc := N.add (N.mul !acc n_ten) (n_of_int (Char.code c - 48))) s;
  !acc

let rec dec_of_pos_digits (n : n) (acc : char list) : char list =
  match n with
  | N0 -> acc
  | _ ->
    let (q, r) = N.div_eucl n n_ten in
    dec_of_pos_digits q (Char.chr (48 + int_of_n r) :: acc)

let dec_of_n (n : n) : str =
  match n with
  | N0 -> "0"
  | _ -> String.of_seq (List.to_seq (dec_of_pos_digits n []))

(* "-" = empty; otherwise comma separated lower-case hex code points *)
let cps_of_tok (t : str) : n list =
  if t = "-" then []
  else List.map (fun h -> n_of_int (int_of_string ("0x" ^ h))) (String.split_on_char ',' t)

let tok_of_cps (l : n list) : str =
  match l with
  | [] -> "-"
  | _ -> String.concat "," (List.map (fun c -> Printf.sprintf "%x" (int_of_n c)) l)

let split_ws (s : str) : str list =
  List.filter (fun x -> x <> "") (String.split_on_char ' ' s)

let kinds = [| KNull; KBoolean; KNumber; KString; KArray; KObject |]
let kind_of_tok t = kinds.(int_of_string t)
let tok_of_kind k =
  let rec go i = if kinds.(i) = k then i else go (i + 1) in
  string_of_int (go 0)
let tok_of_kinds l = match l with [] -> "-" | _ -> String.concat "," (List.map tok_of_kind l)
let tok_of_okind = function None -> "-" | Some k -> tok_of_kind k
let tok_of_bool b = if b then "1" else "0"

exception Bad_case of str

let s2l_ascii (s : str) : n list =
  List.init (String.length s) (fun i -> n_of_int (Char.code s.[i]))

(* ---- values, code maps, errors: the same canonical encodings as harness/src/common.rs ---- *)
let rec enc_value (b : Buffer.t) (v : value) : unit =
  match v with
  | VNull -> Buffer.add_char b 'n'
  | VBool true -> Buffer.add_char b 't'
  | VBool false -> Buffer.add_char b 'f'
  | VNum s -> Buffer.add_char b '#'; Buffer.add_string b (tok_of_cps s)
  | VStr s -> Buffer.add_char b '$'; Buffer.add_string b (tok_of_cps s)
  | VArr l ->
    Buffer.add_char b '[';
    List.iter (fun x -> Buffer.add_char b ' '; enc_value b x) l;
    Buffer.add_string b " ]"
  | VObj l ->
    Buffer.add_char b '{';
    List.iter (fun (k, x) ->
        Buffer.add_string b " $"; Buffer.add_string b (tok_of_cps k);
        Buffer.add_char b ' '; enc_value b x) l;
    Buffer.add_string b " }"

let value_str (v : value) : str =
  let b = Buffer.create 64 in enc_value b v; Buffer.contents b

let rec dec_value (t : str list) : value * str list =
  match t with
  | "n" :: r -> (VNull, r)
  | "t" :: r -> (VBool true, r)
  | "f" :: r -> (VBool false, r)
  | "[" :: r ->
    let rec items acc r =
      match r with
      | "]" :: r' -> (VArr (List.rev acc), r')
      | _ -> let (v, r') = dec_value r in items (v :: acc) r'
    in items [] r
  | "{" :: r ->
    let rec ents acc r =
      match r with
      | "}" :: r' -> (VObj (List.rev acc), r')
      | k :: r1 ->
        let key = cps_of_tok (Stdlib.String.sub k 1 (Stdlib.String.length k - 1)) in
        let (v, r') = dec_value r1 in ents ((key, v) :: acc) r'
      | [] -> raise (Bad_case "object")
    in ents [] r
  | x :: r when Stdlib.String.length x > 0 && x.[0] = '#' ->
    (VNum (cps_of_tok (Stdlib.String.sub x 1 (Stdlib.String.length x - 1))), r)
  | x :: r when Stdlib.String.length x > 0 && x.[0] = '$' ->
    (VStr (cps_of_tok (Stdlib.String.sub x 1 (Stdlib.String.length x - 1))), r)
  | _ -> raise (Bad_case "value")

let sn (x : n) : str = string_of_int (int_of_n x)

let codemap_str (cm : ((n * n) * n) list) : str =
  match cm with
  | [] -> "-"
  | _ -> Stdlib.String.concat " " (List.map (fun ((s, e), v) -> sn s ^ "-" ^ sn e ^ "-" ^ sn v) cm)

let hx (x : n) : str = Printf.sprintf "%x" (int_of_n x)

let error_str (e : perr) : str =
  match e with
  | EStream p -> "ST " ^ sn p
  | EUnexpected (p, None) -> "U " ^ sn p ^ " -"
  | EUnexpected (p, Some c) -> "U " ^ sn p ^ " " ^ hx c
  | EInvalidCodePoint (s, e, c) -> Printf.sprintf "IC %s %s %s" (sn s) (sn e) (hx c)
  | EMissingLow (s, e, h) -> Printf.sprintf "ML %s %s %s" (sn s) (sn e) (hx h)
  | EInvalidLow (s, e, h, c) -> Printf.sprintf "IL %s %s %s %s" (sn s) (sn e) (hx h) (hx c)
  | EInvalidUtf8 p -> "IU " ^ sn p

(* Error::position / Error::span *)
let error_pos_span (e : perr) : str =
  match e with
  | EStream p | EUnexpected (p, _) | EInvalidUtf8 p -> Printf.sprintf "P%s S%s-%s" (sn p) (sn p) (sn p)
  | EInvalidCodePoint (s, e, _) | EMissingLow (s, e, _) | EInvalidLow (s, e, _, _) ->
    Printf.sprintf "P%s S%s-%s" (sn s) (sn s) (sn e)

let opts_of_tok (t : str) : opts =
  let o = int_of_string t in { trunc = o land 1 <> 0; inval = o land 2 <> 0 }
