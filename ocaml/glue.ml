(* glue.ml -- conversions between case-line tokens and the extracted Coq datatypes.
   Trusted (cross-checked against in-Coq vm_compute on a sample, see bin/check). *)
module M = Model
open M
type str = Stdlib.String.t

let rec pos_of_int (i : int) : positive =
  if i = 1 then XH
  else if i land 1 = 0 then XO (pos_of_int (i lsr 1))
  else XI (pos_of_int (i lsr 1))

let n_of_int (i : int) : n = if i = 0 then N0 else Npos (pos_of_int i)

let rec int_of_pos = function
  | XH -> 1
  | XO p -> 2 * int_of_pos p
  | XI p -> 2 * int_of_pos p + 1

let int_of_n = function N0 -> 0 | Npos p -> int_of_pos p

let rec nat_of_int (i : int) : nat = if i = 0 then O else S (nat_of_int (i - 1))
let rec int_of_nat = function O -> 0 | S k -> 1 + int_of_nat k

(* decimal string <-> N, for values beyond OCaml's int *)
let n_ten = n_of_int 10
let n_of_dec (s : str) : n =
  let acc = ref N0 in
  String.iter (fun c -> acc := N.add (N.mul !acc n_ten) (n_of_int (Char.code c - 48))) s;
  !acc

let rec dec_of_pos_digits (n : n) (acc : char list) : char list =
  match n with
  | N0 -> acc
  | _ ->
    let (q, r) = N.div_eucl n n_ten in
    dec_of_pos_digits q (Char.chr (48 + int_of_n r) :: acc)

let dec_of_n (n : n) : str =
  match n with
  | N0 -> "0"
  | _ -> String.of_seq (List.to_seq (dec_of_pos_digits n []))

(* "-" = empty; otherwise comma separated lower-case hex code points *)
let cps_of_tok (t : str) : n list =
  if t = "-" then []
  else List.map (fun h -> n_of_int (int_of_string ("0x" ^ h))) (String.split_on_char ',' t)

let tok_of_cps (l : n list) : str =
  match l with
  | [] -> "-"
  | _ -> String.concat "," (List.map (fun c -> Printf.sprintf "%x" (int_of_n c)) l)

let split_ws (s : str) : str list =
  List.filter (fun x -> x <> "") (String.split_on_char ' ' s)

let kinds = [| KNull; KBoolean; KNumber; KString; KArray; KObject |]
let kind_of_tok t = kinds.(int_of_string t)
let tok_of_kind k =
  let rec go i = if kinds.(i) = k then i else go (i + 1) in
  string_of_int (go 0)
let tok_of_kinds l = match l with [] -> "-" | _ -> String.concat "," (List.map tok_of_kind l)
let tok_of_okind = function None -> "-" | Some k -> tok_of_kind k
let tok_of_bool b = if b then "1" else "0"

exception Bad_case of str

let s2l_ascii (s : str) : n list =
  List.init (String.length s) (fun i -> n_of_int (Char.code s.[i]))
