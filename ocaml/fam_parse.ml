(* Parser family: C01 (verdicts), C02 (value + lookups), C05 (code map), C07 (error), C12 (everything) *)
open Model
open Glue

type input = Text of n list | Bytes of n list

let parse_case (toks : str list) : opts * input =
  match toks with
  | ["s"; o; h] -> (opts_of_tok o, Text (cps_of_tok h))
  | ["b"; o; h] -> (opts_of_tok o, Bytes (cps_of_tok h))
  | _ -> raise (Bad_case (Stdlib.String.concat " " toks))

let verdict = function
  | Ok _ -> "A"
  | Err _ -> "R"
  | Panic s -> "PANIC"
  | OutOfFuel -> "FUEL"

let run o = function
  | Text cs -> parse_str_with o cs
  | Bytes bs -> parse_slice_with o bs

let c01 toks =
  match parse_case toks with
  | (_, Text cs) ->
    let vs = [
      verdict (parse_str cs); verdict (parse_str_with strict cs);
      verdict (parse_utf8 cs); verdict (parse_utf8_with strict cs);
      verdict (parse_infallible_utf8 cs); verdict (parse_utf8_infallible_with strict cs);
      verdict (parse (chars cs)); verdict (parse_with strict (chars cs));
      verdict (parse (chars cs)); verdict (parse_with strict (chars cs));
      verdict (from_str cs);
      verdict (parse_slice (utf8_encode_all cs)); verdict (parse_slice_with strict (utf8_encode_all cs));
    ] in
    (Stdlib.String.concat "" vs, "")
  | (_, Bytes bs) ->
    (verdict (parse_slice bs) ^ verdict (parse_slice_with strict bs), "")

(* lookups on parsed objects: the object is rebuilt by `push` as the parser does *)
let obj_of_entries (es : (n list * value) list) : obj =
  List.fold_left (fun o (k, v) ->
      match push o k v with Some (o', _) -> o' | None -> raise (Bad_case "model panic in push"))
    empty_obj es

let unopt = function Some x -> x | None -> raise (Bad_case "model panic in lookup")

let fmt_opt_nat = function None -> "None" | Some i -> "Some(" ^ string_of_int (int_of_nat i) ^ ")"

let lookups (v : value) : str =
  let b = Buffer.create 64 in
  let rec go (stack : value list) =
    match stack with
    | [] -> ()
    | VArr a :: r -> go (a @ r)
    | VObj es :: r ->
      let o = obj_of_entries es in
      let keys = List.fold_left (fun acc (k, _) -> if List.mem k acc then acc else acc @ [k]) [] es in
      let keys = keys @ [cps_of_tok "1,61,62,73,65,6e,74"] in
      List.iter (fun k ->
          let vals = unopt (get o k) in
          let ents = unopt (get_entries o k) in
          let idx = unopt (indexes_of o k) in
          let uniq = match unopt (get_unique o k) with
            | UNone -> "none"
            | UOne x -> "one " ^ value_str x
            | UDup (x, y) -> "dup " ^ value_str x ^ " " ^ value_str y in
          Buffer.add_string b (Printf.sprintf "<%s c=%s i=%s r=%s ix=[%s] g=[%s] e=[%s] u=%s>"
            (tok_of_cps k)
            (tok_of_bool (unopt (contains_key o k)))
            (fmt_opt_nat (unopt (index_of o k)))
            (fmt_opt_nat (unopt (redundant_index_of o k)))
            (Stdlib.String.concat "," (List.map (fun i -> string_of_int (int_of_nat i)) idx))
            (Stdlib.String.concat ";" (List.map value_str vals))
            (Stdlib.String.concat ";" (List.map (fun (k, x) -> tok_of_cps k ^ "=" ^ value_str x) ents))
            uniq)) keys;
      go (List.map snd es @ r)
    | _ :: r -> go r
  in
  go [v];
  if Buffer.length b = 0 then "-" else Buffer.contents b

let bad = function
  | Panic s -> "MODEL-PANIC " ^ sn s
  | OutOfFuel -> "MODEL-OUT-OF-FUEL"
  | _ -> assert false

let c02 toks =
  let (o, i) = parse_case toks in
  match run o i with
  | Ok (v, _) -> ("OK " ^ value_str v ^ " | " ^ lookups v ^ " EP=1", "")
  | Err _ -> ("ERR EP=1", "")
  | x -> (bad x, "")

let rec count_fragments (v : value) : int =
  match v with
  | VArr l -> List.fold_left (fun a x -> a + count_fragments x) 1 l
  | VObj l -> List.fold_left (fun a (_, x) -> a + 2 + count_fragments x) 1 l
  | _ -> 1

let c05 toks =
  let (o, i) = parse_case toks in
  let show = function
    | Ok (v, cm) ->
      let tr = traverse v in
      let kinds = Stdlib.String.concat "" (List.map (function FValue _ -> "v" | FEntry _ -> "e" | FKey _ -> "k") tr) in
      Printf.sprintf "OK %s T%d K%s" (codemap_str cm) (List.length tr) kinds
    | Err _ -> "ERR"
    | x -> bad x in
  match i with
  | Text cs ->
    (show (parse_str_with o cs) ^ " ; " ^ show (parse_slice_with o (utf8_encode_all cs)) ^ " EP=1", "")
  | Bytes bs -> (show (parse_slice_with o bs) ^ " EP=1", "")

let c07 toks =
  let (o, i) = parse_case toks in
  let show = function
    | Ok _ -> "OK"
    | Err e -> "ERR " ^ error_str e ^ " " ^ error_pos_span e
    | x -> bad x in
  match i with
  | Text cs ->
    (show (parse_str_with o cs) ^ " ; " ^ show (parse_slice_with o (utf8_encode_all cs)) ^ " EP=1", "")
  | Bytes bs -> (show (parse_slice_with o bs) ^ " EP=1", "")

let c12 toks =
  let (o, i) = parse_case toks in
  match run o i with
  | Ok (v, cm) -> ("OK " ^ value_str v ^ " | " ^ codemap_str cm ^ " EP=1", "")
  | Err e -> ("ERR " ^ error_str e ^ " EP=1", "")
  | x -> (bad x, "")

(* C03: outcome class; deep-nesting cases are answered from the shape (the theorems give
   totality and panic-freedom at every depth; the model itself is run at depths <= 500) *)
let c03 toks =
  match toks with
  | [("d" | "dd"); shape; depth; o; entry] ->
    let d = int_of_string depth in
    let closed = not (Stdlib.String.length shape > 5 &&
                      (let suf = Stdlib.String.sub shape (Stdlib.String.length shape - 5) 5 in suf = "_open")) in
    let ob = int_of_string o in
    let bad = List.mem shape ["arr_garbage"; "obj_garbage"; "arr_sibling"; "long_number_bad"]
              || (d > 0 && List.mem shape ["hi_run"; "hi_run_key"] && ob land 1 = 0)
              || (d > 0 && shape = "lo_run" && ob land 2 = 0) in
    let long = List.mem shape ["ws_run"; "ws_run_open"; "long_string"; "long_string_open"; "long_number";
                               "long_number_bad"; "wide_arr"; "wide_obj"; "hi_run"; "lo_run"; "pair_run"; "hi_run_key"] in
    let count = match shape with
      | "arr" -> d | "obj" -> 3 * d + 1 | "mixed" -> d + 2 * (d / 2) + 1
      | "wide_deep" -> 3 * d + 1
      | "ws_run" | "long_string" -> 3 | "long_number" -> 2
      | "wide_arr" -> d + 2 | "wide_obj" -> 3 * d + 4
      | "hi_run" | "pair_run" -> 1 | "lo_run" -> 2 | "hi_run_key" -> 4 | _ -> 0 in
    let expected = if bad || not closed then "ERR" else Printf.sprintf "OK %d/%d" count count in
    (* cross-check the closed form against the model where the model can run *)
    if d <= 500 || (long && d <= 1000) then begin
      let doc = Fam_deep.deep_doc shape d in
      let r = (if entry = "str" then parse_str_with (opts_of_tok o) doc
               else parse_slice_with (opts_of_tok o) (utf8_encode_all doc)) in
      let got = match r with
        | Ok (v, cm) -> Printf.sprintf "OK %d/%d" (int_of_nat (length (traverse v))) (List.length cm)
        | Err _ -> "ERR" | _ -> "MODEL-PANIC" in
      if got <> expected then ("MODEL-DISAGREES-WITH-CLOSED-FORM " ^ got ^ " vs " ^ expected, "")
      else (expected, "")
    end else (expected, "")
  | _ ->
    let (o, i) = parse_case toks in
    let cls = function Ok _ -> "OK" | Err _ -> "ERR" | Panic _ -> "MODEL-PANIC" | OutOfFuel -> "MODEL-FUEL" in
    let tc = function
      | Ok (v, cm) -> Printf.sprintf "%d/%d" (int_of_nat (length (traverse v))) (List.length cm)
      | _ -> "-" in
    (match i with
     | Text cs ->
       let r = parse_str_with o cs in
       (Printf.sprintf "%s %s T=%s pulls=ok cut=ok" (cls r) (cls r) (tc r), "")
     | Bytes bs ->
       let r = parse_slice_with o bs in
       (Printf.sprintf "%s T=%s" (cls r) (tc r), ""))
