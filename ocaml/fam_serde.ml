(* C17 / C18: Value's own Serialize / Deserialize and the serde_json bridge.
   The two printing dependencies of Model/SerdeValue.v (fmt_lex, fmt_ryu) are instantiated,
   per case, by the ORACLE tokens of the case line: what json-number / serde_json answered
   for exactly the calls this input causes.  A call that the line does not record is a
   BADCASE (the harness and the model disagree on which calls are made).  Decimal -> double
   conversions are the model's own correctly rounded reference (Spec/NumSpelling.dbl).
   Model column: the model's observable.  Spec column: what the property demands -- for the
   relational demands (same structure, same integer or double, up to entry order) the model's
   own line when Spec.SerdeRoundTrip accepts it, `WANT ...` otherwise -- followed by
   ` !Kn` for every known class (Spec.SerdeRoundTrip.K3, K4) the input belongs to. *)
open Model
open Glue

let n16 = n_of_int 16
let n_of_hex (s : str) : n =
  let acc = ref N0 in
  String.iter (fun c ->
      let d = if c >= '0' && c <= '9' then Char.code c - 48 else Char.code c - 87 in
      acc := N.add (N.mul !acc n16) (n_of_int d)) s;
  !acc
let hex16_of_n (x : n) : str =
  let b = Bytes.make 16 '0' in
  let r = ref x in
  for i = 15 downto 0 do
    let (q, d) = N.div_eucl !r n16 in
    Bytes.set b i "0123456789abcdef".[int_of_n d];
    r := q
  done;
  Bytes.to_string b
let sf_of_hex (s : str) : spec_float = sf_of_bits (Z.of_N (n_of_hex s))
let hex_of_sf (x : spec_float) : str = hex16_of_n (Z.to_N (sf_bits x))

let z_of_dec (s : str) : z =
  if String.length s > 0 && s.[0] = '-' then Z.opp (Z.of_N (n_of_dec (String.sub s 1 (String.length s - 1))))
  else Z.of_N (n_of_dec s)
let dec_of_z (x : z) : str =
  if Z.ltb x Z0 then "-" ^ dec_of_n (Z.abs_N x) else dec_of_n (Z.abs_N x)

type oracle = {
  w : (str, n list) Hashtbl.t;
  r : (str, n list) Hashtbl.t;
}

let split3 (t : str) : str * str * str =
  match String.split_on_char ':' t with
  | [a; b; c] -> (a, b, c)
  | _ -> raise (Bad_case "oracle token")

(* tokens up to "|" are oracle entries *)
let read_oracle (toks : str list) : oracle * str list =
  let o = { w = Hashtbl.create 8; r = Hashtbl.create 8 } in
  let rec go = function
    | "|" :: rest -> rest
    | t :: rest ->
      let (k, a, b) = split3 t in
      (match k with
       | "W" -> Hashtbl.replace o.w a (cps_of_tok b)
       | "R" -> Hashtbl.replace o.r a (cps_of_tok b)
       | _ -> raise (Bad_case "oracle kind"));
      go rest
    | [] -> raise (Bad_case "no |")
  in
  let rest = go toks in
  (o, rest)

let find tbl key what = match Hashtbl.find_opt tbl key with Some x -> x | None -> raise (Bad_case ("oracle lacks " ^ what ^ " " ^ key))
let fmt_lex o (x : spec_float) = find o.w (hex_of_sf x) "W"
let fmt_ryu o (x : spec_float) = find o.r (hex_of_sf x) "R"

(* ---- serde_json values ---- *)
let rec enc_j (b : Buffer.t) (j : sj) : unit =
  match j with
  | JNull -> Buffer.add_char b 'n'
  | JBool true -> Buffer.add_char b 't'
  | JBool false -> Buffer.add_char b 'f'
  | JNum (PosInt z) -> Buffer.add_char b 'u'; Buffer.add_string b (dec_of_z z)
  | JNum (NegInt z) -> Buffer.add_char b 'i'; Buffer.add_string b (dec_of_z z)
  | JNum (SFloat x) -> Buffer.add_char b 'd'; Buffer.add_string b (hex_of_sf x)
  | JStr s -> Buffer.add_char b '$'; Buffer.add_string b (tok_of_cps s)
  | JArr l ->
    Buffer.add_char b '[';
    List.iter (fun x -> Buffer.add_char b ' '; enc_j b x) l;
    Buffer.add_string b " ]"
  | JObj l ->
    Buffer.add_char b '{';
    List.iter (fun (k, x) ->
        Buffer.add_string b " $"; Buffer.add_string b (tok_of_cps k);
        Buffer.add_char b ' '; enc_j b x) l;
    Buffer.add_string b " }"
let j_str (j : sj) : str = let b = Buffer.create 64 in enc_j b j; Buffer.contents b

let tail1 (x : str) = Stdlib.String.sub x 1 (Stdlib.String.length x - 1)

let rec dec_j (t : str list) : sj * str list =
  match t with
  | "n" :: r -> (JNull, r)
  | "t" :: r -> (JBool true, r)
  | "f" :: r -> (JBool false, r)
  | "[" :: r ->
    let rec items acc r =
      match r with
      | "]" :: r' -> (JArr (List.rev acc), r')
      | _ -> let (v, r') = dec_j r in items (v :: acc) r'
    in items [] r
  | "{" :: r ->
    let rec ents acc r =
      match r with
      | "}" :: r' -> (JObj (List.rev acc), r')
      | k :: r1 -> let (v, r') = dec_j r1 in ents ((cps_of_tok (tail1 k), v) :: acc) r'
      | [] -> raise (Bad_case "object")
    in ents [] r
  | x :: r when x <> "" && x.[0] = 'u' -> (JNum (PosInt (z_of_dec (tail1 x))), r)
  | x :: r when x <> "" && x.[0] = 'i' -> (JNum (NegInt (z_of_dec (tail1 x))), r)
  | x :: r when x <> "" && x.[0] = 'd' -> (JNum (SFloat (sf_of_hex (tail1 x))), r)
  | x :: r when x <> "" && x.[0] = '$' -> (JStr (cps_of_tok (tail1 x)), r)
  | _ -> raise (Bad_case "sj value")

let flags (l : (str * bool) list) : str =
  String.concat "" (List.map (fun (n, b) -> if b then " !" ^ n else "") l)

let ser_err_str = function ECustom -> "custom" | ENonStringKey -> "nonstringkey" | EMalformed -> "malformed"

let c17 toks =
  match toks with
  | "ser" :: "|" :: vt ->
    let (v, _) = dec_value vt in
    let absurd _ = raise (Bad_case "ser needs no oracle") in
    let m = match to_value absurd v with
      | Ok w -> "OK " ^ value_str w
      | Err e -> "ERR " ^ ser_err_str e
      | Panic _ -> "PANIC"
      | OutOfFuel -> "FUEL" in
    let o = match v with VObj _ -> " o=1" | _ -> "" in
    (m ^ o, "OK " ^ value_str (ser_spec v) ^ o ^ flags ["K4", k4 v])
  | op :: rest when op = "de" || op = "txt" ->
    let (o, vt) = read_oracle rest in
    let (v, _) = dec_value vt in
    let res = if op = "de" then from_value (fmt_lex o) v else from_text (fmt_lex o) v in
    let (m, ok) = match res with
      | Ok w -> ("OK " ^ value_str w, de_ok v w)
      | Err _ -> ("ERR", false)
      | Panic _ -> ("PANIC", false)
      | OutOfFuel -> ("FUEL", false) in
    if op = "txt" && k3 v then
      (* the front end refuses a number beyond the doubles: outside what the property speaks about *)
      (m, m ^ flags ["K4", k4 v])
    else
      let fl = if op = "de" then flags ["K3", k3 v; "K4", k4 v] else flags ["K4", k4 v] in
      (m, (if ok then m else "WANT " ^ value_str (collapse v)) ^ fl)
  | _ -> raise (Bad_case "c17")

let c18 toks =
  match toks with
  | "fs" :: rest ->
    let (o, jt) = read_oracle rest in
    let (j, _) = dec_j jt in
    if not (wf_sj j) then raise (Bad_case "serde_json value outside what its types guarantee");
    (match from_sj (fmt_ryu o) j with
     | Ok v ->
       let vs = value_str v in
       let back = match into_sj v with Ok j' -> j_str j' | _ -> "PANIC" in
       (Printf.sprintf "v=%s back=%s" vs back, Printf.sprintf "v=%s back=%s" vs (j_str j))
     | _ -> ("PANIC", "NOPANIC"))
  | "is" :: rest ->
    let (o, vt) = read_oracle rest in
    let (v, _) = dec_value vt in
    let indomain = nodup_keysb v && nums64 v in
    (match into_sj v with
     | Ok j ->
       let js = j_str j in
       (match from_sj (fmt_ryu o) j with
        | Ok w ->
          let m = Printf.sprintf "j=%s v=%s" js (value_str w) in
          (m, if (not indomain) || detour_ok v w then m else "WANT " ^ value_str v)
        | _ -> (Printf.sprintf "j=%s v=PANIC" js, "NOPANIC"))
     | _ -> ("PANIC", "NOPANIC"))
  | _ -> raise (Bad_case "c18")
