(* C06: object histories; model = Model/Object.v (indexed), spec = Spec/Multimap.v (plain list) *)
open Model
open Glue

(* the second key universe (a case line whose key count is 11): harness/src/object.rs EXOTIC *)
let exotic : int list array = [| [0xffff]; [0x10000]; [0xe000; 0x61]; [0x10ffff]; []; [0xe9]; [0x6b]; [0x6b; 0x30];
                                 [0xd7ff; 0x10000]; [0xd7ff; 0xe000]; [0x10000; 0xe000] |]
let exotic_keys = ref false
let set_universe (nk : str) = exotic_keys := (nk = "11")
let key_of (i : int) : n list =
  if !exotic_keys && i < Array.length exotic then List.map n_of_int exotic.(i)
  else s2l_ascii (Printf.sprintf "k%02d" i)
let absent_key : n list = s2l_ascii "absent"
let val_of (v : int) : value = VNum (s2l_ascii (string_of_int v))

let ascii_of (l : n list) : str =
  Stdlib.String.init (List.length l) (fun i -> Char.chr (int_of_n (List.nth l i)))

let vstr = function VNum s -> ascii_of s | v -> "?" ^ value_str v
let kidx (k : n list) : str =
  let ex = if !exotic_keys then
      (let ki = List.map int_of_n k in
       let rec find i = if i >= Array.length exotic then None else if exotic.(i) = ki then Some i else find (i + 1) in find 0)
    else None in
  match ex with Some i -> string_of_int i | None ->
  let s = ascii_of k in
  match int_of_string_opt (Stdlib.String.sub s 1 (Stdlib.String.length s - 1)) with
  | Some i when s.[0] = 'k' -> string_of_int i
  | _ -> "?" ^ s
let estr (k, v) = kidx k ^ ":" ^ vstr v
let lst f = function [] -> "-" | l -> Stdlib.String.concat "," (List.map f l)
let i2 = int_of_string
let nat i = nat_of_int i
let sni i = string_of_int (int_of_nat i)

exception Model_panic

let unopt = function Some x -> x | None -> raise Model_panic

let parse_pairs (s : str) : (n list * value) list =
  if s = "-" then []
  else List.map (fun p ->
      match Stdlib.String.split_on_char '=' p with
      | [k; v] -> (key_of (i2 k), val_of (i2 v))
      | _ -> raise (Bad_case "pairs")) (Stdlib.String.split_on_char ',' s)

(* what a caller that pulls n items (or all) observes of the full removal list *)
let pulled (all : (n list * value) list) (n : str) : str =
  if n = "*" then lst estr all
  else
    let k = i2 n in
    let rec take i l = if i = 0 then [] else match l with [] -> ["end"] | e :: r -> estr e :: take (i - 1) r in
    match take k all with [] -> "-" | l -> Stdlib.String.concat "," l

let rec list_take n l = if n = 0 then [] else match l with [] -> [] | x :: r -> x :: list_take (n - 1) r

(* ---- model ---- *)
let apply (o : obj) (op : str) : obj * str =
  let p = Array.of_list (Stdlib.String.split_on_char ':' op) in
  let n i = i2 p.(i) in
  match p.(0) with
  | "push" | "pushe" -> let (o', f) = unopt (push o (key_of (n 1)) (val_of (n 2))) in (o', tok_of_bool f)
  | "pushf" | "pushef" -> let (o', f) = unopt (push_front o (key_of (n 1)) (val_of (n 2))) in (o', tok_of_bool f)
  | "rmat" ->
    let (o', e) = unopt (remove_at o (nat (n 1))) in
    (o', match e with Some e -> estr e | None -> "none")
  | "ins" ->
    let (o', r) = unopt (insert o (key_of (n 1)) (val_of (n 2))) in
    (o', match r with None -> "none" | Some l -> "some[" ^ pulled l p.(3) ^ "]")
  | "insf" ->
    let (o', l) = unopt (insert_front o (key_of (n 1)) (val_of (n 2))) in
    (o', "[" ^ pulled l p.(3) ^ "]")
  | "rm" ->
    let (o', l) = unopt (remove o (key_of (n 1))) in
    (o', "[" ^ pulled l p.(2) ^ "]")
  | "rmu" ->
    let (o', u) = unopt (remove_unique o (key_of (n 1))) in
    (o', match u with UNone -> "none" | UOne e -> "one " ^ estr e | UDup (a, b) -> "dup " ^ estr a ^ " " ^ estr b)
  | "sort" -> (unopt (sort o), "ok")
  | "canon" -> (unopt (sort_with canon_entry_cmp o), "ok")
  | "extpanic" -> (o, "ok")
  | "goi" | "gmoi" ->
    let (o', v) = unopt (get_or_insert_with o (key_of (n 1)) (val_of (n 2))) in (o', vstr v)
  | "set" ->
    let is = unopt (indexes_of o (key_of (n 1))) in
    (match List.nth_opt is (n 2) with
     | Some i -> (set_value_at o i (val_of (n 3)), "ok")
     | None -> (o, "none"))
  | "setu" ->
    (match unopt (get_entries_with_index o (key_of (n 1))) with
     | [] -> (o, "none")
     | [(i, _)] -> (set_value_at o i (val_of (n 2)), "ok")
     | (_, a) :: (_, b) :: _ -> (o, "dup " ^ estr a ^ " " ^ estr b))
  | "setat" | "setatm" ->
    if n 1 < int_of_nat (length o.entries) then (set_value_at o (nat (n 1)) (val_of (n 2)), "ok") else (o, "none")
  | "ext" | "extp" -> (unopt (extend o (parse_pairs p.(1))), "ok")
  | "fromvec" | "fromvecf" -> (unopt (from_vec (parse_pairs p.(1))), "ok")
  | "fromiter" | "fromiterkv" -> (unopt (from_iter (parse_pairs p.(1))), "ok")
  | "clone" | "take" | "clonefrom" -> (o, "ok")
  | "reset" -> (empty_obj, "ok")
  | other -> (o, "BADOP(" ^ other ^ ")")

let fmt_on = function None -> "None" | Some i -> "Some(" ^ sni i ^ ")"

let uniq_str f = function UNone -> "none" | UOne a -> "one:" ^ f a | UDup (a, b) -> "dup:" ^ f a ^ ":" ^ f b

let queries (o : obj) (nkeys : int) : str =
  let b = Buffer.create 256 in
  for i = 0 to nkeys do
    let k = if i = nkeys then absent_key else key_of i in
    Buffer.add_string b (Printf.sprintf "<%d c=%s i=%s r=%s ix=%s g=%s e=%s gi=%s ei=%s u=%s ue=%s>" i
      (tok_of_bool (unopt (contains_key o k)))
      (fmt_on (unopt (index_of o k)))
      (fmt_on (unopt (redundant_index_of o k)))
      (lst sni (unopt (indexes_of o k)))
      (lst vstr (unopt (get o k)))
      (lst estr (unopt (get_entries o k)))
      (lst (fun (j, v) -> vstr v ^ "@" ^ sni j) (unopt (get_with_index o k)))
      (lst (fun (j, e) -> estr e ^ "@" ^ sni j) (unopt (get_entries_with_index o k)))
      (uniq_str vstr (unopt (get_unique o k)))
      (uniq_str estr (unopt (get_unique_entry o k))))
  done;
  Buffer.contents b

let buckets (o : obj) : str =
  lst (fun l -> Stdlib.String.concat "+" (List.map sni l)) (dump o)

(* ---- spec: plain list ---- *)
let m_apply (es : (n list * value) list) (op : str) : (n list * value) list * str =
  let p = Array.of_list (Stdlib.String.split_on_char ':' op) in
  let n i = i2 p.(i) in
  match p.(0) with
  | "push" | "pushe" -> let (es', f) = m_push es (key_of (n 1), val_of (n 2)) in (es', tok_of_bool f)
  | "pushf" | "pushef" -> let (es', f) = m_push_front es (key_of (n 1), val_of (n 2)) in (es', tok_of_bool f)
  | "rmat" -> let (es', e) = m_remove_at es (nat (n 1)) in (es', match e with Some e -> estr e | None -> "none")
  | "ins" ->
    let (es', r) = m_insert es (key_of (n 1)) (val_of (n 2)) in
    (es', match r with None -> "none" | Some l -> "some[" ^ pulled l p.(3) ^ "]")
  | "insf" -> let (es', l) = m_insert_front es (key_of (n 1)) (val_of (n 2)) in (es', "[" ^ pulled l p.(3) ^ "]")
  | "rm" -> let (es', l) = m_remove es (key_of (n 1)) in (es', "[" ^ pulled l p.(2) ^ "]")
  | "rmu" ->
    let (es', u) = m_remove_unique es (key_of (n 1)) in
    (es', match u with MNone -> "none" | MOne e -> "one " ^ estr e | MDup (a, b) -> "dup " ^ estr a ^ " " ^ estr b)
  | "sort" ->
    (List.stable_sort (fun a b -> match entry_cmp a b with Lt -> -1 | Eq -> 0 | Gt -> 1) es, "ok")
  | "canon" ->
    (List.stable_sort (fun a b -> match canon_entry_cmp a b with Lt -> -1 | Eq -> 0 | Gt -> 1) es, "ok")
  | "extpanic" -> (es, "ok")
  | "goi" | "gmoi" -> let (es', v) = m_get_or_insert_with es (key_of (n 1)) (val_of (n 2)) in (es', vstr v)
  | "set" ->
    (match List.nth_opt (m_indexes_of es (key_of (n 1))) (n 2) with
     | Some i -> (m_set_value_at es i (val_of (n 3)), "ok")
     | None -> (es, "none"))
  | "setu" ->
    (match m_get_entries_with_index es (key_of (n 1)) with
     | [] -> (es, "none")
     | [(i, _)] -> (m_set_value_at es i (val_of (n 2)), "ok")
     | (_, a) :: (_, b) :: _ -> (es, "dup " ^ estr a ^ " " ^ estr b))
  | "setat" | "setatm" -> if n 1 < List.length es then (m_set_value_at es (nat (n 1)) (val_of (n 2)), "ok") else (es, "none")
  | "ext" | "extp" -> (m_extend es (parse_pairs p.(1)), "ok")
  | "fromvec" | "fromiter" | "fromvecf" | "fromiterkv" -> (m_from_vec (parse_pairs p.(1)), "ok")
  | "clone" | "take" | "clonefrom" -> (es, "ok")
  | "reset" -> ([], "ok")
  | other -> (es, "BADOP(" ^ other ^ ")")

let m_uniq_str f = function MNone -> "none" | MOne a -> "one:" ^ f a | MDup (a, b) -> "dup:" ^ f a ^ ":" ^ f b

let m_queries es nkeys : str =
  let b = Buffer.create 256 in
  for i = 0 to nkeys do
    let k = if i = nkeys then absent_key else key_of i in
    Buffer.add_string b (Printf.sprintf "<%d c=%s i=%s r=%s ix=%s g=%s e=%s gi=%s ei=%s u=%s ue=%s>" i
      (tok_of_bool (m_contains es k))
      (fmt_on (m_index_of es k))
      (fmt_on (m_redundant_index_of es k))
      (lst sni (m_indexes_of es k))
      (lst vstr (m_get es k))
      (lst estr (m_get_entries es k))
      (lst (fun (j, (_, v)) -> vstr v ^ "@" ^ sni j) (m_get_entries_with_index es k))
      (lst (fun (j, e) -> estr e ^ "@" ^ sni j) (m_get_entries_with_index es k))
      (m_uniq_str vstr (m_get_unique es k))
      (m_uniq_str estr (m_get_unique_entry es k)))
  done;
  Buffer.contents b

let run toks =
  match toks with
  | "h" :: nk :: ops ->
    let nkeys = i2 nk in
    set_universe nk;
    let model =
      try
        let (o, rs) = List.fold_left (fun (o, rs) op -> let (o', r) = apply o op in (o', r :: rs)) (empty_obj, []) ops in
        Printf.sprintf "R=%s L=%d,%s E=%s Q=%s B=%s"
          (match rs with [] -> "-" | _ -> Stdlib.String.concat "|" (List.rev rs))
          (int_of_nat (length o.entries)) (tok_of_bool (o.entries = []))
          (lst estr o.entries) (queries o nkeys) (buckets o)
      with Model_panic -> "MODEL-PANIC" in
    let spec =
      let (es, rs) = List.fold_left (fun (es, rs) op -> let (es', r) = m_apply es op in (es', r :: rs)) ([], []) ops in
      Printf.sprintf "R=%s L=%d,%s E=%s Q=%s"
        (match rs with [] -> "-" | _ -> Stdlib.String.concat "|" (List.rev rs))
        (List.length es) (tok_of_bool (es = [])) (lst estr es) (m_queries es nkeys) in
    (model, spec)
  | _ -> raise (Bad_case "h")
