(* C14: equality, ordering, hashing *)
open Model
open Glue

let ord = function Lt -> "L" | Eq -> "E" | Gt -> "G"

let hstream (v : value) : str =
  Stdlib.String.concat "." (List.map (function
      | HDiscr d -> "D" ^ sn d
      | HLen l -> "L" ^ sn l
      | HBytes b -> "B" ^ tok_of_cps b
      | HU8 b -> "U" ^ hx b) (hash_stream v))

(* writes made by `Object::hash` = `self.entries.hash` (no discriminant) *)
let obj_stream (es : (n list * value) list) : str =
  match hash_stream (VObj es) with
  | _ :: rest -> Stdlib.String.concat "." (List.map (function
      | HDiscr d -> "D" ^ sn d | HLen l -> "L" ^ sn l | HBytes b -> "B" ^ tok_of_cps b | HU8 b -> "U" ^ hx b) rest)
  | [] -> ""

let pair_obs (cmp : comparison) (eq : bool) : str =
  let b x = if x then "1" else "0" in
  (* a==b, cmp, partial_cmp, <, <=, >, >=, !=, same hash, same write stream *)
  b eq ^ ord cmp ^ ord cmp ^ b (cmp = Lt) ^ b (cmp <> Gt) ^ b (cmp = Gt) ^ b (cmp <> Lt) ^ b (not eq) ^ b eq ^ b eq

let vpair a b = pair_obs (value_cmp a b) (value_eq a b)

let run toks =
  match toks with
  | "m" :: "|" :: r ->
    let (a, r) = dec_value r in
    let r = (match r with "|" :: r -> r | _ -> raise (Bad_case "m")) in
    let (b, r) = dec_value r in
    let r = (match r with "|" :: r -> r | _ -> raise (Bad_case "m")) in
    let (c, _) = dec_value r in
    (Printf.sprintf "ab=%s ba=%s bc=%s ac=%s aa=%s clone=%s S=%s"
       (vpair a b) (vpair b a) (vpair b c) (vpair a c) (vpair a a) (vpair a a) (hstream a), "")
  | "hh" :: _ :: ops ->
    let rec split acc = function
      | "/" :: r -> (List.rev acc, r)
      | x :: r -> split (x :: acc) r
      | [] -> raise (Bad_case "hh") in
    let (ops1, ops2) = split [] ops in
    let runh ops = List.fold_left (fun o op -> fst (Fam_object.apply o op)) empty_obj ops in
    (try
       let o1 = runh ops1 and o2 = runh ops2 in
       let e1 = o1.entries and e2 = o2.entries in
       let p = pair_obs (entries_cmp e1 e2) (value_eqb (VObj e1) (VObj e2)) in
       (Printf.sprintf "E1=%s E2=%s obj=%s val=%s clone=%s buckets_differ=%s"
          (Fam_object.lst Fam_object.estr e1) (Fam_object.lst Fam_object.estr e2) p
          (vpair (VObj e1) (VObj e2)) (pair_obs Eq true)
          (tok_of_bool (Fam_object.buckets o1 <> Fam_object.buckets o2)), "")
     with Fam_object.Model_panic -> ("MODEL-PANIC", ""))
  | _ -> raise (Bad_case "c14")
