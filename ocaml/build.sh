#!/bin/sh
# builds /verif/build/ocaml/driver from the extracted model and the glue
set -e
B=/verif/build/ocaml
mkdir -p $B
cd $B
rm -f Extract.vo model.ml model.mli
coqc -Q /verif/coq/theories JsonSyntax /verif/coq/theories/Extract/Extract.v -o $B/Extract.vo > $B/extract.log 2>&1 || { cat $B/extract.log; exit 1; }
cp /verif/ocaml/*.ml $B/
ORDER=$(ocamlfind ocamldep -sort model.ml glue.ml fam_*.ml driver.ml)
ocamlfind ocamlopt -w -a -package unix -linkpkg model.mli $ORDER -o driver
