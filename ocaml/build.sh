#!/bin/sh
# builds /verif/build/ocaml/driver from the extracted model and the glue
set -e
R=${VERIF_ROOT:-$(cd "$(dirname "$0")/.." && pwd)}
B=$R/build/ocaml
mkdir -p $B
cd $B
rm -f Extract.vo model.ml model.mli
coqc -Q $R/coq/theories JsonSyntax $R/coq/theories/Extract/Extract.v -o $B/Extract.vo > $B/extract.log 2>&1 || { cat $B/extract.log; exit 1; }
cp $R/ocaml/*.ml $B/
ORDER=$(ocamlfind ocamldep -sort model.ml glue.ml fam_*.ml driver.ml)
ocamlfind ocamlopt -w -a -package unix -linkpkg model.mli $ORDER -o driver
