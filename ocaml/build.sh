#!/bin/sh
# builds /verif/build/ocaml/driver from the extracted model and the glue
set -e
B=/verif/build/ocaml
mkdir -p $B
cd $B
rm -f Extract.vo model.ml model.mli
coqc -Q /verif/coq/theories JsonSyntax /verif/coq/theories/Extract/Extract.v -o $B/Extract.vo > $B/extract.log 2>&1 || { cat $B/extract.log; exit 1; }
cp /verif/ocaml/*.ml $B/
FAMS=$(ls /verif/ocaml/fam_*.ml | xargs -n1 basename)
ocamlfind ocamlopt -O3 -unboxed-types 2>/dev/null >/dev/null || true
ocamlfind ocamlopt -w -a -package unix -linkpkg model.mli model.ml glue.ml $FAMS driver.ml -o driver
