(* C16: typed data through to_value / from_value and serde_json.
   Case line: <root> <seed> | <env> | <ty> | <tsd> | <float table>   (see harness/src/serde_typed.rs)
   Model column: the same fields as the implementation prints.
   Spec column: what the property demands (rt, sh, sh32, vrt) on its domain, plus the
   model's classification K of the datum into the known-finding classes and L64 (every f64
   leaf agrees with its spelling at binary32: the premise of C16_shape32 on f64 leaves).
   sh32 in the model column is the model's shape_of true / shape_of_sj true (C16_shape32_model);
   in the spec column it is demanded on the theorem's domain and is elsewhere the
   SPECIFICATION's own evaluation shape32 = shape32_sj (Spec/SerdeShape32.v): the two readings
   of numbers (deserialize_f32's / sgl's) are thereby compared on every case. *)
open Model
open Glue

(* the dependencies: the three float printers are the oracles recorded on the case line
   (what lexical / serde_json actually printed), falling back to the reference instances;
   reading a spelling is the model's own correctly rounded dbl / sgl *)
let tab64 : (z * n list) list ref = ref []
let tab32 : (z * n list) list ref = ref []
let tabsj : (z * n list) list ref = ref []
let fmt64_m b = match List.assoc_opt b !tab64 with Some s -> s | None -> fmt_f64_ref b
let fmt32_m b = match List.assoc_opt b !tab32 with Some s -> s | None -> fmt_f32_ref b
let fmtsj_m b = match List.assoc_opt b !tabsj with Some s -> s | None -> fmt_sj_ref b
let to_value_m d = tser fmt64_m fmt32_m d
let from_value_m env fuel t v = de env fuel t v
let from_sj_m j = from_tsj fmtsj_m j
let shape_m p32 v = shape_of p32 v

(* ---- Z <-> text ---- *)
let z_of_n = function N0 -> Z0 | Npos p -> Zpos p
let n_sixteen = n_of_int 16

let n_of_hex (s : str) : n =
  let acc = ref N0 in
  Stdlib.String.iter (fun c ->
      let d = match c with
        | '0' .. '9' -> Char.code c - 48
        | 'a' .. 'f' -> Char.code c - 87
        | _ -> raise (Bad_case "hex") in
      acc := N.add (N.mul !acc n_sixteen) (n_of_int d)) s;
  !acc

let hex_of_n (x : n) : str =
  match x with
  | N0 -> "0"
  | _ ->
    let rec go x acc =
      match x with
      | N0 -> acc
      | _ -> let (q, r) = N.div_eucl x n_sixteen in go q ("0123456789abcdef".[int_of_n r] :: acc)
    in
    Stdlib.String.of_seq (List.to_seq (go x []))

let z_of_dec (s : str) : z =
  if Stdlib.String.length s > 0 && s.[0] = '-' then
    (match n_of_dec (Stdlib.String.sub s 1 (Stdlib.String.length s - 1)) with N0 -> Z0 | Npos p -> Zneg p)
  else z_of_n (n_of_dec s)

let dec_of_z = function
  | Z0 -> "0"
  | Zpos p -> dec_of_n (Npos p)
  | Zneg p -> "-" ^ dec_of_n (Npos p)

let hex_of_z = function
  | Z0 -> "0"
  | Zpos p -> hex_of_n (Npos p)
  | Zneg _ -> raise (Bad_case "negative bits")

let after (pre : str) (t : str) : str =
  let lp = Stdlib.String.length pre in
  Stdlib.String.sub t lp (Stdlib.String.length t - lp)
let starts (pre : str) (t : str) : bool =
  Stdlib.String.length t >= Stdlib.String.length pre && Stdlib.String.sub t 0 (Stdlib.String.length pre) = pre

let ikind_of = function
  | "i8" -> I8 | "i16" -> I16 | "i32" -> I32 | "i64" -> I64
  | "u8" -> U8 | "u16" -> U16 | "u32" -> U32 | "u64" -> U64
  | _ -> raise (Bad_case "ikind")
let ikind_str = function
  | I8 -> "i8" | I16 -> "i16" | I32 -> "i32" | I64 -> "i64"
  | U8 -> "u8" | U16 -> "u16" | U32 -> "u32" | U64 -> "u64"

(* ---- type descriptors ---- *)
let rec dec_ty (t : str list) : ty * str list =
  match t with
  | "B" :: r -> (TyBool, r)
  | ("i8" | "i16" | "i32" | "i64" | "u8" | "u16" | "u32" | "u64" as k) :: r -> (TyInt (ikind_of k), r)
  | "f32" :: r -> (TyF32, r)
  | "f64" :: r -> (TyF64, r)
  | "ch" :: r -> (TyChar, r)
  | "st" :: r -> (TyStr, r)
  | "un" :: r -> (TyUnit, r)
  | "O" :: r -> let (x, r') = dec_ty r in (TyOption x, r')
  | "Q" :: r -> let (x, r') = dec_ty r in (TySeq x, r')
  | "T(" :: r -> let (l, r') = dec_tys r in (TyTuple l, r')
  | "M" :: k :: r ->
    let kt =
      if k = "ks" then KStr
      else if k = "kc" then KChar
      else if starts "ki:" k then KInt (ikind_of (after "ki:" k))
      else if starts "ke:" k then KEnum (cps_of_tok (after "ke:" k))
      else raise (Bad_case "kty") in
    let (x, r') = dec_ty r in (TyMap (kt, x), r')
  | x :: r when starts "N:" x -> (TyNamed (cps_of_tok (after "N:" x)), r)
  | _ -> raise (Bad_case "ty")
and dec_tys (t : str list) : ty list * str list =
  match t with
  | ")" :: r -> ([], r)
  | _ -> let (x, r) = dec_ty t in let (l, r') = dec_tys r in (x :: l, r')

let rec dec_ftys (t : str list) : (n list * ty) list * str list =
  match t with
  | "}" :: r -> ([], r)
  | f :: r -> let (x, r1) = dec_ty r in let (l, r2) = dec_ftys r1 in ((cps_of_tok f, x) :: l, r2)
  | [] -> raise (Bad_case "fields")

let rec dec_variants (t : str list) : (n list * vdef) list * str list =
  match t with
  | "}" :: r -> ([], r)
  | v :: r ->
    let (d, r1) =
      match r with
      | "vu" :: r' -> (VUnit, r')
      | "vn" :: r' -> let (x, r'') = dec_ty r' in (VNewtype x, r'')
      | "vt(" :: r' -> let (l, r'') = dec_tys r' in (VTuple l, r'')
      | "vs{" :: r' -> let (l, r'') = dec_ftys r' in (VStruct l, r'')
      | _ -> raise (Bad_case "vdef") in
    let (l, r2) = dec_variants r1 in ((cps_of_tok v, d) :: l, r2)
  | [] -> raise (Bad_case "variants")

let rec dec_defs (t : str list) : (n list * def) list * str list =
  match t with
  | "}" :: r -> ([], r)
  | d :: r when starts "D:" d ->
    let name = cps_of_tok (after "D:" d) in
    let (df, r1) =
      match r with
      | "du" :: r' -> (DefUnit, r')
      | "dn" :: r' -> let (x, r'') = dec_ty r' in (DefNewtype x, r'')
      | "dt(" :: r' -> let (l, r'') = dec_tys r' in (DefTuple l, r'')
      | "ds{" :: r' -> let (l, r'') = dec_ftys r' in (DefStruct l, r'')
      | "de{" :: r' -> let (l, r'') = dec_variants r' in (DefEnum l, r'')
      | _ -> raise (Bad_case "def") in
    let (l, r2) = dec_defs r1 in ((name, df) :: l, r2)
  | _ -> raise (Bad_case "defs")

(* ---- data ---- *)
let name2 (x : str) : n list * n list =
  match Stdlib.String.split_on_char ':' x with
  | [a; b] -> (cps_of_tok a, cps_of_tok b)
  | _ -> raise (Bad_case "name:variant")

let rec dec_sd (t : str list) : tsd * str list =
  match t with
  | "b0" :: r -> (SdBool false, r)
  | "b1" :: r -> (SdBool true, r)
  | "U" :: r -> (SdUnit, r)
  | "None" :: r -> (SdNone, r)
  | "Some" :: r -> let (x, r') = dec_sd r in (SdSome x, r')
  | "Q[" :: r -> let (l, r') = dec_sds r in (SdSeq l, r')
  | "T[" :: r -> let (l, r') = dec_sds r in (SdTuple l, r')
  | "M{" :: r -> let (l, r') = dec_entries r in (SdMap l, r')
  | x :: r when starts "F32:" x -> (SdF32 (z_of_n (n_of_hex (after "F32:" x))), r)
  | x :: r when starts "F64:" x -> (SdF64 (z_of_n (n_of_hex (after "F64:" x))), r)
  | x :: r when starts "I" x ->
    (match Stdlib.String.split_on_char ':' (after "I" x) with
     | [k; z] -> (SdInt (ikind_of k, z_of_dec z), r)
     | _ -> raise (Bad_case "int"))
  | x :: r when starts "US:" x -> (SdUnitStruct (cps_of_tok (after "US:" x)), r)
  | x :: r when starts "UV:" x -> let (a, b) = name2 (after "UV:" x) in (SdUnitVariant (a, b), r)
  | x :: r when starts "NS:" x -> let (y, r') = dec_sd r in (SdNewtypeStruct (cps_of_tok (after "NS:" x), y), r')
  | x :: r when starts "NV:" x ->
    let (a, b) = name2 (after "NV:" x) in let (y, r') = dec_sd r in (SdNewtypeVariant (a, b, y), r')
  | x :: "[" :: r when starts "TS:" x -> let (l, r') = dec_sds r in (SdTupleStruct (cps_of_tok (after "TS:" x), l), r')
  | x :: "[" :: r when starts "TV:" x ->
    let (a, b) = name2 (after "TV:" x) in let (l, r') = dec_sds r in (SdTupleVariant (a, b, l), r')
  | x :: "{" :: r when starts "ST:" x -> let (l, r') = dec_fields r in (SdStruct (cps_of_tok (after "ST:" x), l), r')
  | x :: "{" :: r when starts "SV:" x ->
    let (a, b) = name2 (after "SV:" x) in let (l, r') = dec_fields r in (SdStructVariant (a, b, l), r')
  | x :: r when starts "C" x -> (SdChar (n_of_hex (after "C" x)), r)
  | x :: r when starts "S" x -> (SdStr (cps_of_tok (after "S" x)), r)
  | _ -> raise (Bad_case "tsd")
and dec_sds (t : str list) : tsd list * str list =
  match t with
  | "]" :: r -> ([], r)
  | _ -> let (x, r) = dec_sd t in let (l, r') = dec_sds r in (x :: l, r')
and dec_entries (t : str list) : (tsd * tsd) list * str list =
  match t with
  | "}" :: r -> ([], r)
  | _ -> let (k, r) = dec_sd t in let (v, r1) = dec_sd r in let (l, r2) = dec_entries r1 in ((k, v) :: l, r2)
and dec_fields (t : str list) : (n list * tsd) list * str list =
  match t with
  | "}" :: r -> ([], r)
  | f :: r -> let (v, r1) = dec_sd r in let (l, r2) = dec_fields r1 in ((cps_of_tok f, v) :: l, r2)
  | [] -> raise (Bad_case "fields")

(* result encoding: maps sorted by the encoded key *)
let rec enc_sd (d : tsd) : str =
  let list l = "[" ^ Stdlib.String.concat "" (List.map (fun x -> " " ^ enc_sd x) l) ^ " ]" in
  let fields l = "{" ^ Stdlib.String.concat "" (List.map (fun (f, x) -> " " ^ tok_of_cps f ^ " " ^ enc_sd x) l) ^ " }" in
  match d with
  | SdBool b -> if b then "b1" else "b0"
  | SdInt (k, z) -> "I" ^ ikind_str k ^ ":" ^ dec_of_z z
  | SdF32 b -> "F32:" ^ hex_of_z b
  | SdF64 b -> "F64:" ^ hex_of_z b
  | SdChar c -> "C" ^ hex_of_n c
  | SdStr s -> "S" ^ tok_of_cps s
  | SdUnit -> "U"
  | SdUnitStruct n -> "US:" ^ tok_of_cps n
  | SdNone -> "None"
  | SdSome x -> "Some " ^ enc_sd x
  | SdNewtypeStruct (n, x) -> "NS:" ^ tok_of_cps n ^ " " ^ enc_sd x
  | SdSeq l -> "Q" ^ list l
  | SdTuple l -> "T" ^ list l
  | SdTupleStruct (n, l) -> "TS:" ^ tok_of_cps n ^ " " ^ list l
  | SdMap l ->
    let parts = List.sort compare (List.map (fun (k, v) -> (enc_sd k, enc_sd v)) l) in
    "M{" ^ Stdlib.String.concat "" (List.map (fun (k, v) -> " " ^ k ^ " " ^ v) parts) ^ " }"
  | SdStruct (n, l) -> "ST:" ^ tok_of_cps n ^ " " ^ fields l
  | SdUnitVariant (n, v) -> "UV:" ^ tok_of_cps n ^ ":" ^ tok_of_cps v
  | SdNewtypeVariant (n, v, x) -> "NV:" ^ tok_of_cps n ^ ":" ^ tok_of_cps v ^ " " ^ enc_sd x
  | SdTupleVariant (n, v, l) -> "TV:" ^ tok_of_cps n ^ ":" ^ tok_of_cps v ^ " " ^ list l
  | SdStructVariant (n, v, l) -> "SV:" ^ tok_of_cps n ^ ":" ^ tok_of_cps v ^ " " ^ fields l

(* canonical value: integer spellings exactly, other numbers as the double they read as *)
let rec enc_cvalue (v : value) : str =
  match v with
  | VNull -> "n"
  | VBool true -> "t"
  | VBool false -> "f"
  | VNum s ->
    (match num_event s with
     | EvU z | EvI z -> "I" ^ dec_of_z z
     | EvF b -> "F" ^ hex_of_z b)
  | VStr s -> "$" ^ tok_of_cps s
  | VArr l -> "[" ^ Stdlib.String.concat "" (List.map (fun x -> " " ^ enc_cvalue x) l) ^ " ]"
  | VObj l ->
    "{" ^ Stdlib.String.concat "" (List.map (fun (k, x) -> " $" ^ tok_of_cps k ^ " " ^ enc_cvalue x) l) ^ " }"

let rec enc_sj (j : tsj) : str =
  match j with
  | TjNull -> "n"
  | TjBool true -> "t"
  | TjBool false -> "f"
  | TjNum (SJPos z) | TjNum (SJNeg z) -> "I" ^ dec_of_z z
  | TjNum (SJFloat b) -> "F" ^ hex_of_z b
  | TjStr s -> "$" ^ tok_of_cps s
  | TjArr l -> "[" ^ Stdlib.String.concat "" (List.map (fun x -> " " ^ enc_sj x) l) ^ " ]"
  | TjObj l ->
    "{" ^ Stdlib.String.concat "" (List.map (fun (k, x) -> " $" ^ tok_of_cps k ^ " " ^ enc_sj x) l) ^ " }"

let fuel = nat_of_int 100000


let b01 b = if b then "1" else "0"

let run (toks : str list) : str * str =
  match toks with
  | _root :: _seed :: "|" :: "E{" :: r ->
    let (env, r1) = dec_defs r in
    (match r1 with
     | "|" :: r2 ->
       let (t, r3) = dec_ty r2 in
       (match r3 with
        | "|" :: r4 ->
          let (d, rest) = dec_sd r4 in
          tab64 := []; tab32 := []; tabsj := [];
          (* float table, then optionally `| X <value>` *)
          let rec split_bar acc = function
            | "|" :: "X" :: r -> (List.rev acc, Some r)
            | x :: r -> split_bar (x :: acc) r
            | [] -> (List.rev acc, None) in
          let (rest, xval) = split_bar [] rest in
          (match rest with
           | "|" :: ["-"] -> ()
           | "|" :: ents ->
             List.iter (fun e ->
                 match Stdlib.String.split_on_char ':' e with
                 | [k; b; c] ->
                   let entry = (z_of_n (n_of_hex b), cps_of_tok c) in
                   (match k with
                    | "f64" -> tab64 := entry :: !tab64
                    | "f32" -> tab32 := entry :: !tab32
                    | "sj" -> tabsj := entry :: !tabsj
                    | _ -> raise (Bad_case "float table kind"))
                 | _ -> raise (Bad_case "float table entry")) ents
           | _ -> raise (Bad_case "float table"));
          let ht = has_type env d t in
          let fin = finite_floats d in
          let dom = ht && fin in
          let kc = known_class d in
          let same a b = enc_sd (norm a) = enc_sd (norm b) in
          (* to_value, from_value *)
                    let sv = to_value_m d in
          let (ser_s, de_s, rt) =
            match sv with
            | Ok v ->
              (match from_value_m env fuel t v with
               | Ok back -> (enc_cvalue v, enc_sd back, same back d)
               | Err _ -> (enc_cvalue v, "E", false)
               | Panic _ -> (enc_cvalue v, "PANIC", false)
               | OutOfFuel -> (enc_cvalue v, "FUEL", false))
            | Err SNonStringKey -> ("EK", "-", false)
            | Err SMalformed -> ("EM", "-", false)
            | Err SCustom -> ("EC", "-", false)
            | Panic _ -> ("PANIC", "-", false)
            | OutOfFuel -> ("FUEL", "-", false) in
          (* serde_json *)
          let sh32s = ref false in
          let (sj_s, sh, sh32, via_s, vrt) =
            match ser_sj d with
            | Ok j ->
              let (sh, sh32) =
                match sv with
                | Ok v ->
                  sh32s := shape_eqb (shape32 v) (shape32_sj j);
                  (shape_eqb (shape_m false v) (shape_of_sj false j),
                   shape_eqb (shape_m true v) (shape_of_sj true j))
                | _ -> (false, false) in
              (match from_value_m env fuel t (from_sj_m j) with
               | Ok back -> (enc_sj j, sh, sh32, enc_sd back, same back d)
               | Err _ -> (enc_sj j, sh, sh32, "E", false)
               | Panic _ -> (enc_sj j, sh, sh32, "PANIC", false)
               | OutOfFuel -> (enc_sj j, sh, sh32, "FUEL", false))
            | _ -> ("E", false, false, "-", false) in
          let sh32s = !sh32s in
          (* premise of C16_shape32 / C16_shape32_model on the f64 leaves: spelling and double
             have the same nearest binary32 (both readings) *)
          let l64 =
            f64_leaves_agree32 fmt64_m d
            && List.for_all (fun b -> nkey_eqb (num_key true (fmt64_m b)) (key_of_float true b)) (f64_leaves d) in
          (* the float hypotheses of the theorems, on every recorded spelling *)
          let hyp =
            List.for_all (fun (b, s) ->
                de_f64 (num_event s) = f64_norm b
                && nkey_eqb (num_key false s) (key_of_f64 b)) !tab64
            && List.for_all (fun (b, s) ->
                de_f32 s = f32_norm b
                && sf32_bits (sgl s) = b
                && (match List.assoc_opt (f64_of_f32 b) !tabsj with
                    | Some sj -> de_f32 sj = b
                    | None -> false)) !tab32
            && List.for_all (fun (b, s) -> num_event s = EvF b) !tabsj in
          let model =
            Printf.sprintf "dom=%s hyp=%s | ser %s | de %s | rt=%s | sj %s | sh=%s sh32=%s | via %s | vrt=%s"
              (b01 dom) (b01 hyp) ser_s de_s (b01 rt) sj_s (b01 sh) (b01 sh32) via_s (b01 vrt) in
          (* the property, on its domain; elsewhere it says nothing (the model's own answer) *)
          let want c x = if c then true else x in
          let model =
            match xval with
            | None -> model
            | Some xt ->
              let (xv, xrest) = dec_value xt in
              if xrest <> [] then raise (Bad_case "X value");
              model ^ " | dx " ^
              (match from_value_m env fuel t xv with
               | Ok back -> enc_sd back
               | Err _ -> "E"
               | Panic _ -> "PANIC"
               | OutOfFuel -> "FUEL") in
          let spec =
            Printf.sprintf "rt=%s sh=%s sh32=%s vrt=%s K=%s L64=%s"
              (b01 (want dom rt)) (b01 (want (dom && no_f32 d) sh)) (b01 (want (dom && l64) sh32s))
              (b01 (want dom vrt)) (b01 kc) (b01 l64) in
          (model, spec)
        | _ -> raise (Bad_case "ty |"))
     | _ -> raise (Bad_case "env |"))
  | _ -> raise (Bad_case "c16 line")
