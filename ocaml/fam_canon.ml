(* C09 / C10: canonicalization; the number conversion is the executable RFC 8785 reference *)
open Model
open Glue

exception Not_ijson
let num_canon (n : n list) : n list =
  match canon_number n with Some t -> t | None -> raise Not_ijson

let canon v = canonicalize num_canon v
let canon_text v = match compact_print (canon v) with Some t -> tok_of_cps t | None -> "MODEL-PANIC"


(* canonicalize, edit the root object (list semantics of Spec/Multimap), canonicalize again *)
(* a number spelling, or `o<number spelling>`: the unsorted object {"z": n, "a": [n]} *)
let edit_val (n : str) : value =
  if Stdlib.String.length n > 0 && n.[0] = 'o' then
    let x = VNum (cps_of_tok (Stdlib.String.sub n 1 (Stdlib.String.length n - 1))) in
    VObj [(s2l_ascii "z", x); (s2l_ascii "a", VArr [x])]
  else VNum (cps_of_tok n)

let apply_edit (es : (n list * value) list) (op : str) : (n list * value) list =
  match Stdlib.String.split_on_char ':' op with
  | ["pf"; k; n] -> fst (m_push_front es (cps_of_tok k, edit_val n))
  | ["pb"; k; n] -> fst (m_push es (cps_of_tok k, edit_val n))
  | ["in"; k; n] -> fst (m_insert es (cps_of_tok k) (edit_val n))
  | ["if"; k; n] -> fst (m_insert_front es (cps_of_tok k) (edit_val n))
  | ["rm"; k] -> fst (m_remove es (cps_of_tok k))
  | ["ra"; i] -> fst (m_remove_at es (nat_of_int (int_of_string i)))
  | ["st"] -> (match sort { entries = es; buckets = [] } with
               | Some o -> o.entries
               | None -> raise (Bad_case "sort"))
  | ["cl"] -> es
  | ["cn"] -> (match canon (VObj es) with VObj l -> l | _ -> es)
  | _ -> raise (Bad_case "edit")

let ke toks =
  match toks with
  | "ke" :: "|" :: r ->
    let (v, r1) = dec_value r in
    (match r1 with
     | "|" :: ops ->
       let v1 = canon v in
       let v2 = (match v1 with VObj es -> VObj (List.fold_left apply_edit es ops) | x -> x) in
       let text = canon_text v2 in
       (Printf.sprintf "%s index=1 edited=%s" text (value_str v2),
        Printf.sprintf "%s index=1 edited=%s" (match jcs v2 with Some t -> tok_of_cps t | None -> "NOT-IJSON") (value_str v2))
     | _ -> raise (Bad_case "ke"))
  | _ -> raise (Bad_case "ke")


(* two documents: parse both with the model parser, canonicalize, print *)
let kd toks =
  match toks with
  | ["kd"; "|"; a; "|"; b] ->
    let canon_doc h = match parse_str (cps_of_tok h) with
      | Ok (v, _) -> Some (canon_text v)
      | _ -> None in
    (match canon_doc a, canon_doc b with
     | Some x, Some y -> (Printf.sprintf "same=%s a=%s" (tok_of_bool (x = y)) x, "")
     | _ -> ("REJECTED", ""))
  | _ -> raise (Bad_case "kd")

let c09 toks =
  try
    match toks with
    | "ke" :: _ -> ke toks
    | ["kn"; h] ->
      let n = cps_of_tok h in
      (tok_of_cps (num_canon n), (match canon_number n with Some t -> tok_of_cps t | None -> "NOT-IJSON"))
    | "k" :: "|" :: vt ->
      let (v, _) = dec_value vt in
      (canon_text v, (match jcs v with Some t -> tok_of_cps t | None -> "NOT-IJSON"))
    | _ -> raise (Bad_case "c09")
  with Not_ijson -> ("NOT-IJSON", "NOT-IJSON")

let c10 toks =
  try
    match toks with
    | "ke" :: _ -> ke toks
    | "kd" :: _ -> kd toks
    | "k" :: "|" :: vt ->
      let (v, _) = dec_value vt in
      let once = canon v in
      let twice = canon once in
      (Printf.sprintf "idem=%s objentry=1 index=1 canon=%s" (tok_of_bool (value_eqb once twice)) (value_str once), "")
    | "kk" :: "|" :: r ->
      let (a, r1) = dec_value r in
      (match r1 with
       | "|" :: r2 ->
         let (b, _) = dec_value r2 in
         let ta = canon_text a and tb = canon_text b in
         (Printf.sprintf "same=%s a=%s" (tok_of_bool (ta = tb)) ta, "")
       | _ -> raise (Bad_case "kk"))
    | _ -> raise (Bad_case "c10")
  with Not_ijson -> ("NOT-IJSON", "")
