(* C09 / C10: canonicalization; the number conversion is the executable RFC 8785 reference *)
open Model
open Glue

exception Not_ijson
let num_canon (n : n list) : n list =
  match canon_number n with Some t -> t | None -> raise Not_ijson

let canon v = canonicalize num_canon v
let canon_text v = match compact_print (canon v) with Some t -> tok_of_cps t | None -> "MODEL-PANIC"

let c09 toks =
  try
    match toks with
    | ["kn"; h] ->
      let n = cps_of_tok h in
      (tok_of_cps (num_canon n), (match canon_number n with Some t -> tok_of_cps t | None -> "NOT-IJSON"))
    | "k" :: "|" :: vt ->
      let (v, _) = dec_value vt in
      (canon_text v, (match jcs v with Some t -> tok_of_cps t | None -> "NOT-IJSON"))
    | _ -> raise (Bad_case "c09")
  with Not_ijson -> ("NOT-IJSON", "NOT-IJSON")

let c10 toks =
  try
    match toks with
    | "k" :: "|" :: vt ->
      let (v, _) = dec_value vt in
      let once = canon v in
      let twice = canon once in
      (Printf.sprintf "idem=%s objentry=1 index=1 canon=%s" (tok_of_bool (value_eqb once twice)) (value_str once), "")
    | "kk" :: "|" :: r ->
      let (a, r1) = dec_value r in
      (match r1 with
       | "|" :: r2 ->
         let (b, _) = dec_value r2 in
         let ta = canon_text a and tb = canon_text b in
         (Printf.sprintf "same=%s a=%s" (tok_of_bool (ta = tb)) ta, "")
       | _ -> raise (Bad_case "kk"))
    | _ -> raise (Bad_case "c10")
  with Not_ijson -> ("NOT-IJSON", "")
