(* the deep-nesting documents of harness/src/c03.rs, as code point lists *)
open Glue
let deep_doc (shape : str) (d : int) =
  let b = Buffer.create (d * 8) in
  let rep n s = for _ = 1 to n do Buffer.add_string b s done in
  (match shape with
   | "arr" | "arr_open" | "arr_garbage" | "arr_sibling" ->
     if shape = "arr_sibling" then Buffer.add_char b '[';
     rep d "[";
     if shape <> "arr_open" then rep d "]";
     if shape = "arr_garbage" then Buffer.add_char b 'x';
     if shape = "arr_sibling" then Buffer.add_string b ",]"
   | "obj" | "obj_open" | "obj_garbage" ->
     rep d "{\"a\":"; Buffer.add_char b '1';
     if shape <> "obj_open" then rep d "}";
     if shape = "obj_garbage" then Buffer.add_char b 'x'
   | "mixed" | "mixed_open" ->
     for i = 0 to d - 1 do Buffer.add_string b (if i mod 2 = 0 then "[" else "{\"k\": ") done;
     Buffer.add_string b "null";
     if shape = "mixed" then
       for i = d - 1 downto 0 do Buffer.add_string b (if i mod 2 = 0 then " ]" else "}") done
   | "wide_deep" -> rep d "[1,"; Buffer.add_string b "[]"; rep d ",2]"
   (* long rather than deep: one run of d characters of a kind *)
   | "ws_run" -> rep d " "; Buffer.add_string b "[1"; rep d "\n"; Buffer.add_string b ",\t2"; rep d "\r"; Buffer.add_string b "]"; rep d "\t"
   | "ws_run_open" -> Buffer.add_string b "{\"k\""; rep d " "
   | "long_string" -> Buffer.add_string b "[\""; rep d "a"; Buffer.add_string b "\",\""; rep d "\\n"; Buffer.add_string b "\"]"
   | "long_string_open" -> Buffer.add_string b "\""; rep d "\\u00e9"
   | "long_number" -> Buffer.add_string b "[-1"; rep d "0"; Buffer.add_string b "."; rep d "5"; Buffer.add_string b "e-1"; rep d "7"; Buffer.add_string b "]"
   | "long_number_bad" -> Buffer.add_string b "1"; rep d "0"; Buffer.add_string b "."
   | "wide_arr" -> Buffer.add_string b "[0"; rep d ",0"; Buffer.add_string b "]"
   | "hi_run" -> Buffer.add_string b "\""; rep d "\\ud800"; Buffer.add_string b "\""
   | "lo_run" -> Buffer.add_string b "[\""; rep d "\\udc00"; Buffer.add_string b "\"]"
   | "pair_run" -> Buffer.add_string b "\""; rep d "\\ud83d\\ude00"; Buffer.add_string b "\""
   | "hi_run_key" -> Buffer.add_string b "{\""; rep d "\\udbff"; Buffer.add_string b "x\":0}"
   | "wide_obj" -> Buffer.add_string b "{\"a\":0"; rep d ",\"a\":0"; Buffer.add_string b "}"
   | _ -> Buffer.add_string b "null");
  s2l_ascii (Buffer.contents b)
