(* Printer family: C04 (round trip), C08 (compact = minimal), C13 (layout) *)
open Model
open Glue

let nn (s : str) : n = n_of_int (int_of_string s)

let limit_of (s : str) : limit option =
  let rest = Stdlib.String.sub s 1 (Stdlib.String.length s - 1) in
  match s.[0] with
  | 'N' -> None
  | 'A' -> Some LAlways
  | 'I' -> Some (LItem (nn rest))
  | 'W' -> Some (LWidth (nn rest))
  | 'B' ->
    (match Stdlib.String.split_on_char ',' rest with
     | [i; w] -> Some (LItemOrWidth (nn i, nn w))
     | _ -> raise (Bad_case "limit"))
  | _ -> raise (Bad_case "limit")

let opts_of (t : str list) : popts =
  match t with
  | [ind; a0; a1; a2; a3; a4; al; o0; o1; o2; o3; o4; o5; o6; ol] ->
    let k = nn (Stdlib.String.sub ind 1 (Stdlib.String.length ind - 1)) in
    { p_indent = (if ind.[0] = 'S' then ISpaces k else ITabs k);
      array_begin = nn a0; array_end = nn a1; array_empty = nn a2;
      array_before_comma = nn a3; array_after_comma = nn a4; array_limit = limit_of al;
      object_begin = nn o0; object_end = nn o1; object_empty = nn o2;
      object_before_comma = nn o3; object_after_comma = nn o4;
      object_before_colon = nn o5; object_after_colon = nn o6; object_limit = limit_of ol }
  | _ -> raise (Bad_case "options")

let rec split_bar acc = function
  | "|" :: r -> (List.rev acc, r)
  | x :: r -> split_bar (x :: acc) r
  | [] -> raise (Bad_case "no bar")

let parse_case toks =
  match toks with
  | "p" :: r ->
    let (head, vt) = split_bar [] r in
    let (v, _) = dec_value vt in
    (opts_of head, v)
  | _ -> raise (Bad_case "print case")

let text = function Some t -> tok_of_cps t | None -> "MODEL-PANIC"

(* the reference layout measures a container by the length of its one-line text: with a spacing field of 2^32
   it cannot be run (the theorem model = reference does not depend on running it); the model keeps widths in N *)
let huge_field toks =
  List.exists (fun t -> match int_of_string_opt t with Some i -> i > 1_000_000 | None -> false) toks

let c13 toks =
  let (o, v) = parse_case toks in
  (text (print_with o v), if huge_field toks then "" else tok_of_cps (layout_text o v))

(* long texts (one string of 64 KiB and more): the list-based model parser is quadratic in the length of a
   string; the answer is the one C04_roundtrip proves for every value and option record *)
let rec long_token = function
  | [] -> false
  | t :: r -> Stdlib.String.length t > 60000 || long_token r

let c04 toks =
  if long_token toks then ("RT=1 PRESET=1", "") else
  let (o, v) = parse_case toks in
  match print_with o v with
  | None -> ("MODEL-PANIC", "")
  | Some t ->
    let rt = match parse_str t with
      | Ok (w, _) -> if value_eqb w v then "1" else "0"
      | _ -> "2" in
    ("RT=" ^ rt ^ " PRESET=1", "")

let c08 toks =
  match toks with
  | "c" :: "|" :: vt ->
    let (v, _) = dec_value vt in
    let a = text (compact_print v) and b = text (to_string v) in
    let s = tok_of_cps (ser_min v) in
    (a ^ " " ^ b ^ " " ^ b ^ " " ^ b, s ^ " " ^ s ^ " " ^ s ^ " " ^ s)
  | _ -> raise (Bad_case "c08 case")
