(* C11: navigation with code-map offsets *)
open Model
open Glue

exception Nav_panic
let unopt = function Some x -> x | None -> raise Nav_panic
let ii i = int_of_nat i
let si i = string_of_int (ii i)

let kind_i k = let rec go i = if kinds.(i) = k then i else go (i + 1) in go 0
let frag_tag = function
  | FValue v -> "v" ^ string_of_int (kind_i (kind_of v))
  | FEntry _ -> "e"
  | FKey _ -> "k"

let obj_of (es : (n list * value) list) : obj = unopt (from_iter es)

let rec walk (v : value) (cm : ((n * n) * n) list) (off : nat) (b : Buffer.t) : unit =
  match v with
  | VArr a ->
    let items = unopt (array_iter_mapped cm off a) in
    Buffer.add_string b (Printf.sprintf " A%s[%s]" (si off)
      (Stdlib.String.concat "," (List.map (fun (o, _) -> si o) items)));
    List.iter (fun (o, x) -> walk x cm o b) items
  | VObj es ->
    let ents = unopt (object_iter_mapped cm off es) in
    Buffer.add_string b (Printf.sprintf " O%s[%s]" (si off)
      (Stdlib.String.concat "," (List.map (fun m ->
           si m.me_offset ^ "/" ^ si m.me_key_offset ^ "/" ^ si m.me_value_offset) ents)));
    let o = obj_of es in
    let keys = List.fold_left (fun acc (k, _) -> if List.mem k acc then acc else acc @ [k]) [] es in
    let keys = keys @ [cps_of_tok "1,61,62,73,65,6e,74"] in
    List.iter (fun k ->
        let l = unopt (get_mapped_entries_with_index cm off o k) in
        let a = List.map (fun (i, m) ->
            si i ^ "@" ^ si m.me_offset ^ "/" ^ si m.me_key_offset ^ "/" ^ si m.me_value_offset) l in
        let uniq = match l with
          | [] -> "none"
          | [(_, m)] -> "one" ^ si m.me_offset
          | (_, m1) :: (_, m2) :: _ -> "dup" ^ si m1.me_offset ^ "+" ^ si m2.me_offset in
        Buffer.add_string b (Printf.sprintf " K%s<%s>%s:%s:1" (si off) (tok_of_cps k)
          (match a with [] -> "-" | _ -> Stdlib.String.concat "," a) uniq)) keys;
    List.iter (fun m -> walk (snd m.me_entry) cm m.me_value_offset b) ents
  | _ -> ()

let is_container = function FValue (VArr _) | FValue (VObj _) -> true | _ -> false

let doc o cs =
  match parse_str_with o cs with
  | Err _ -> "ERR"
  | Panic _ | OutOfFuel -> "MODEL-PANIC"
  | Ok (v, cm) ->
    (try
       let tr = traverse v in
       let count = List.length tr in
       let frags = List.init (count + 3) (fun i ->
           match get_fragment v (nat_of_int i) with
           | Inl f -> frag_tag f
           | Inr r -> "E" ^ si r) in
       (* far past the end (2^32, 2^64-2, 2^64-1): C11_get_fragment (get_fragment v i = inr (i - count) past the end) gives the remaining distance for every
          index; the unary index of the model is not built for these *)
       let far = List.map (fun i -> Printf.sprintf "E%Lu" (Int64.sub i (Int64.of_int count)))
           [4294967296L; -2L; -1L] in
       let frags = frags @ far in
       let trav = List.mapi (fun i f -> string_of_int i ^ frag_tag f) tr in
       let b = Buffer.create 128 in
       walk v cm O b;
       let cnt p = List.length (List.filter p (List.mapi (fun i f -> (i, f)) tr)) in
       Printf.sprintf "V=%d C=%d CA=%d/%d/%d/%d/%d/%d T=%s F=%s S=1 DL=1 N=%s"
         (ii (value_volume v)) count (ii (count_where is_container v))
         (cnt (fun _ -> true))
         (cnt (fun (_, f) -> match f with FKey _ -> true | _ -> false))
         (cnt (fun (_, f) -> match f with FEntry _ -> true | _ -> false))
         (cnt (fun (i, _) -> i mod 2 = 0))
         (cnt (fun (i, f) -> i mod 3 = 1 && (match f with FValue _ -> true | _ -> false)))
         (Stdlib.String.concat "," trav) (Stdlib.String.concat "," frags)
         (if Buffer.length b = 0 then " -" else Buffer.contents b)
     with Nav_panic -> "MODEL-PANIC")

let rec ty_of (s : str) : jty =
  let rest = Stdlib.String.sub s 1 (Stdlib.String.length s - 1) in
  match s.[0] with
  | 'V' -> TVec (ty_of rest)
  | 'M' -> TMap (ty_of rest)
  | 'O' -> TOption (ty_of rest)
  | 'B' -> TBool
  | 'U' -> TUnit
  | 'S' -> TString
  | 'N' -> TNumber
  | _ -> raise (Bad_case "type")

let conv ty cs =
  match parse_str cs with
  | Err _ -> "ERR"
  | Panic _ | OutOfFuel -> "MODEL-PANIC"
  | Ok (v, cm) ->
    (match try_from_json_at (ty_of ty) cm v O with
     | None -> "MODEL-PANIC"
     | Some None -> "ok"
     | Some (Some ((o, e), f)) -> Printf.sprintf "err@%s:%d:%d" (si o) (kind_i e) (kind_i f))

let run toks =
  match toks with
  | ["s"; o; h] -> (doc (opts_of_tok o) (cps_of_tok h), "")
  | ["t"; ty; h] -> (conv ty (cps_of_tok h), "")
  | _ -> raise (Bad_case "nav")
