(* C20: model and executable spec of KindSet on one case line *)
open Model
open Glue

let steps_of s = List.init (String.length s) (fun i -> s.[i] = 'f')

let steps_str (ys, rest) =
  String.concat "," (List.map (fun (y, n) -> tok_of_okind y ^ ":" ^ string_of_int (int_of_n n)) ys)
  ^ "|" ^ tok_of_kinds rest

let sample_value = function
  | 0 -> VNull
  | 1 -> VBool true
  | 2 -> VNum (s2l_ascii "7")
  | 3 -> VStr (s2l_ascii "x")
  | 4 -> VArr [VNull]
  | _ -> VObj []

(* returns (model observable, spec observable or "") *)
let run (toks : str list) : str * str =
  let set t = n_of_int (int_of_string t) in
  let bits s = string_of_int (int_of_n s) in
  (* the set denoted by a spec-level member test *)
  let of_pred (p : kind -> bool) =
    bits (Array.fold_left (fun a k -> if p k then ks_or a (ks_from k) else a) ks_none kinds) in
  match toks with
  | [("or" | "ora"); a; b] ->
    (bits (ks_or (set a) (set b)), of_pred (fun k -> mem (set a) k || mem (set b) k))
  | [("and" | "anda"); a; b] ->
    (bits (ks_and (set a) (set b)), of_pred (fun k -> mem (set a) k && mem (set b) k))
  | [("ork" | "orak"); a; k] ->
    (bits (ks_or_kind (set a) (kind_of_tok k)), of_pred (fun x -> mem (set a) x || x = kind_of_tok k))
  | [("andk" | "andak"); a; k] ->
    (bits (ks_and_kind (set a) (kind_of_tok k)), of_pred (fun x -> mem (set a) x && x = kind_of_tok k))
  | ["kor"; k; a] ->
    (bits (kind_or_ks (kind_of_tok k) (set a)), of_pred (fun x -> mem (set a) x || x = kind_of_tok k))
  | ["kand"; k; a] ->
    (bits (kind_and_ks (kind_of_tok k) (set a)), of_pred (fun x -> mem (set a) x && x = kind_of_tok k))
  | ["kkor"; k1; k2] ->
    (bits (kind_or (kind_of_tok k1) (kind_of_tok k2)), of_pred (fun x -> x = kind_of_tok k1 || x = kind_of_tok k2))
  | ["kkand"; k1; k2] ->
    (bits (kind_and (kind_of_tok k1) (kind_of_tok k2)), of_pred (fun x -> x = kind_of_tok k1 && x = kind_of_tok k2))
  | [("from" | "const"); k] -> (bits (ks_from (kind_of_tok k)), of_pred (fun x -> x = kind_of_tok k))
  | ["all"] -> (bits ks_all, of_pred (fun _ -> true))
  | [("none" | "default")] -> (bits ks_none, of_pred (fun _ -> false))
  | ["len"; a] -> (string_of_int (int_of_n (ks_len (set a))), string_of_int (List.length (members (set a))))
  | ["empty"; a] -> (tok_of_bool (ks_is_empty (set a)), tok_of_bool (members (set a) = []))
  | [("iter" | "intoiter" | "refiter"); a] -> (tok_of_kinds (ks_iter (set a)), tok_of_kinds (members (set a)))
  | ["iterrev"; a] -> (tok_of_kinds (ks_iter_rev (set a)), tok_of_kinds (List.rev (members (set a))))
  | ["steps"; a; s] ->
    let (ys, s') = run_steps (steps_of s) (set a) in
    (steps_str (ys, ks_iter s'), steps_str (deque_run (steps_of s) (members (set a))))
  | ["display"; a] -> (tok_of_cps (ks_display (set a)), tok_of_cps (comma_join (members (set a))))
  | ["disj"; a] -> (tok_of_cps (ks_disjunction (set a)), tok_of_cps (render_spec (s2l_ascii "or") (members (set a))))
  | ["conj"; a] -> (tok_of_cps (ks_conjunction (set a)), tok_of_cps (render_spec (s2l_ascii "and") (members (set a))))
  | ["kindname"; k] -> (tok_of_cps (kind_name (kind_of_tok k)), tok_of_cps (kind_name_spec (kind_of_tok k)))
  | ["vkind"; i] ->
    let v = sample_value (int_of_string i) in
    (tok_of_kind (kind_of v), i)
  | ["iskind"; i; k] ->
    let v = sample_value (int_of_string i) in
    (tok_of_bool (is_kind v (kind_of_tok k)), tok_of_bool (i = k))
  | _ -> raise (Bad_case (String.concat " " toks))
