//! C03: totality, single pass, stack independent of depth.
//! Case lines: `s|b <o> <hex>` (outcome class + pull discipline of a counting iterator) and
//! `d <shape> <depth> <o> <entry>` (deep nesting in a child process, 64 KiB thread stack).
use crate::common::*;
use crate::parse::{opts, parse_case, Input};
use json_syntax::{Parse, Value};
use std::cell::Cell;
use std::rc::Rc;

struct Counting<I> {
    inner: I,
    calls: Rc<Cell<usize>>,
    after_err: Rc<Cell<bool>>,
    erred: bool,
    /// what `size_hint` reports as upper bound (a legal, arbitrarily loose bound)
    upper: Option<usize>,
}
impl<I: Iterator<Item = Result<char, ()>>> Iterator for Counting<I> {
    type Item = Result<char, ()>;
    fn next(&mut self) -> Option<Self::Item> {
        self.calls.set(self.calls.get() + 1);
        if self.erred {
            self.after_err.set(true);
        }
        let x = self.inner.next();
        if let Some(Err(())) = x {
            self.erred = true;
        }
        x
    }
    fn size_hint(&self) -> (usize, Option<usize>) {
        (0, self.upper)
    }
}

/// A character source with a chosen `size_hint` upper bound.
struct Hinted<I>(I, Option<usize>);
impl<I: Iterator<Item = char>> Iterator for Hinted<I> {
    type Item = char;
    fn next(&mut self) -> Option<char> {
        self.0.next()
    }
    fn size_hint(&self) -> (usize, Option<usize>) {
        (0, self.1)
    }
}

fn class<T, E>(r: &Result<T, E>) -> &'static str {
    if r.is_ok() {
        "OK"
    } else {
        "ERR"
    }
}

pub fn eval(line: &str) -> String {
    if line.starts_with("d ") || line.starts_with("dd ") {
        return eval_deep(line);
    }
    let line = line.to_string();
    guarded(move || match parse_case(&line) {
        Some((o, Input::Text(s))) => {
            let r = Value::parse_str_with(&s, opts(o));
            let c1 = class(&r);
            let tc = match &r {
                Ok((v, cm)) => format!("{}/{}", v.traverse().count(), cm.len()),
                Err(_) => "-".into(),
            };
            if let Ok((v, _)) = r {
                drop_deep(v);
            }
            // counting iterator: characters, then optionally one stream error
            let n = s.chars().count();
            let calls = Rc::new(Cell::new(0));
            let after = Rc::new(Cell::new(false));
            let it = Counting { inner: s.chars().map(Ok::<char, ()>), calls: calls.clone(), after_err: after.clone(), erred: false, upper: None };
            let r2 = Value::parse_utf8_with(it, opts(o));
            let mut c2 = class(&r2);
            if let Ok((v, _)) = r2 {
                drop_deep(v);
            }
            // sources whose size_hint gives a huge (legal) upper bound, through the fallible and the infallible entry points
            for upper in [Some(usize::MAX), Some(1usize << 40), Some(0)] {
                let it = Counting { inner: s.chars().map(Ok::<char, ()>), calls: Rc::new(Cell::new(0)), after_err: Rc::new(Cell::new(false)), erred: false, upper: if upper == Some(0) { Some(n) } else { upper } };
                let r = Value::parse_utf8_with(it, opts(o));
                if class(&r) != c2 {
                    c2 = "SIZE-HINT-CHANGES-OUTCOME";
                }
                if let Ok((v, _)) = r {
                    drop_deep(v);
                }
                let r = Value::parse_utf8_infallible_with(Hinted(s.chars(), upper), opts(o));
                if class(&r) != c2 {
                    c2 = "SIZE-HINT-CHANGES-OUTCOME";
                }
                if let Ok((v, _)) = r {
                    drop_deep(v);
                }
            }
            // sources whose characters declare a length no encoding has (nothing at all; 2^32): position
            // arithmetic may neither fail nor change the outcome
            for len in [0usize, 1 << 32] {
                let r = Value::parse_infallible_with(s.chars().map(|c| decoded_char::DecodedChar::new(c, len)), opts(o));
                if class(&r) != c2 {
                    c2 = "DECLARED-LENGTH-CHANGES-OUTCOME";
                }
                if let Ok((v, _)) = r {
                    drop_deep(v);
                }
                let r = Value::parse_with(s.chars().map(|c| Ok::<_, ()>(decoded_char::DecodedChar::new(c, len))), opts(o));
                if class(&r) != c2 {
                    c2 = "DECLARED-LENGTH-CHANGES-OUTCOME";
                }
                if let Ok((v, _)) = r {
                    drop_deep(v);
                }
            }
            // the string parser is generic in the inline capacity of its buffer: every instantiation (none,
            // 1, 3, 32, 256 bytes inline) decodes what the crate's own 16-byte one decodes
            if s.starts_with('"') {
                use smallstr::SmallString;
                let base = json_syntax::String::parse_str_with(&s, opts(o)).map(|(x, _)| x.as_str().to_string()).map_err(|_| ());
                let all = [
                    SmallString::<[u8; 0]>::parse_str_with(&s, opts(o)).map(|(x, _)| x.as_str().to_string()).map_err(|_| ()),
                    SmallString::<[u8; 1]>::parse_str_with(&s, opts(o)).map(|(x, _)| x.as_str().to_string()).map_err(|_| ()),
                    SmallString::<[u8; 3]>::parse_str_with(&s, opts(o)).map(|(x, _)| x.as_str().to_string()).map_err(|_| ()),
                    SmallString::<[u8; 32]>::parse_str_with(&s, opts(o)).map(|(x, _)| x.as_str().to_string()).map_err(|_| ()),
                    SmallString::<[u8; 256]>::parse_str_with(&s, opts(o)).map(|(x, _)| x.as_str().to_string()).map_err(|_| ()),
                ];
                if all.iter().any(|x| *x != base) {
                    c2 = "STRING-INSTANTIATION-CHANGES-OUTCOME";
                }
            }
            let pulls = if calls.get() <= n + 4 && !after.get() { "ok".to_string() } else { format!("BAD({}/{})", calls.get(), n) };
            // the same text cut in the middle by a stream error: never pulled past the error
            let calls3 = Rc::new(Cell::new(0));
            let after3 = Rc::new(Cell::new(false));
            let cut = n / 2;
            let it3 = Counting {
                inner: s.chars().take(cut).map(Ok::<char, ()>).chain(std::iter::once(Err(()))).chain(s.chars().skip(cut).map(Ok::<char, ()>)),
                calls: calls3.clone(),
                after_err: after3.clone(),
                erred: false,
                upper: Some(usize::MAX),
            };
            let r3 = Value::parse_utf8_with(it3, opts(o));
            let pulls3 = if calls3.get() <= cut + 1 && !after3.get() { "ok".to_string() } else { format!("BAD({}/{})", calls3.get(), cut) };
            if let Ok((v, _)) = r3 {
                drop_deep(v);
            }
            format!("{c1} {c2} T={tc} pulls={pulls} cut={pulls3}")
        }
        Some((o, Input::Bytes(b))) => {
            let r = Value::parse_slice_with(&b, opts(o));
            let c = class(&r);
            let tc = match &r {
                Ok((v, cm)) => format!("{}/{}", v.traverse().count(), cm.len()),
                Err(_) => "-".into(),
            };
            if let Ok((v, _)) = r {
                drop_deep(v);
            }
            format!("{c} T={tc}")
        }
        None => format!("BADCASE {line}"),
    })
}

pub use crate::deep::{deep_child, deep_doc};

fn eval_deep(line: &str) -> String {
    let t = toks(line);
    if t.len() != 5 {
        return format!("BADCASE {line}");
    }
    // `d`: this (optimised) binary; `dd`: the same child compiled with opt-level 0 (harness-deep)
    let out = if t[0] == "dd" {
        match std::env::var("VERIF_DEEP_BIN") {
            Ok(bin) => std::process::Command::new(bin).args([t[1], t[2], t[3], t[4]]).output(),
            Err(_) => return "NO-DEEP-BIN".into(),
        }
    } else {
        let exe = std::env::current_exe().unwrap();
        std::process::Command::new(exe).args(["c03", "deepchild", t[1], t[2], t[3], t[4]]).output()
    };
    match out {
        Ok(o) if o.status.success() => String::from_utf8_lossy(&o.stdout).trim().to_string(),
        Ok(o) => format!("ABORT({})", o.status.code().map(|c| c.to_string()).unwrap_or_else(|| "signal".into())),
        Err(e) => format!("SPAWN-FAILED({e})"),
    }
}

pub fn generate(args: &Args, out: &mut Out) {
    let full = args.thorough();
    // 1. the shared parse suite under all four option records (outcome class only) and random bytes
    crate::parse::suite(args, out, &[0, 1, 2, 3], 0);
    let mut rng = Rng::new(args.seed ^ 0xC03);
    let nb = if full { 200000 } else { 20000 };
    for _ in 0..nb {
        let mut r = rng.fork();
        let n = r.range(0, 24);
        let pool: &[u8] = b"[]{},:\"\\ \n0123456789-+.eEtrufalsn\x00\x1f\x7f\x80\xbf\xc0\xc2\xe0\xed\xef\xf0\xf4\xf5\xff";
        let b: Vec<u8> = (0..n).map(|_| if r.chance(3, 4) { *r.pick(pool) } else { r.below(256) as u8 }).collect();
        out.case_str(&format!("b {} {}", r.below(4), hex_bytes(&b)));
    }
    // 2. deep nesting in child processes
    let depths: &[usize] = if full { &[1000, 10000, 100000, 1000000, 2000000] } else { &[1000, 100000, 1000000] };
    // long (not deep) documents: a run of d whitespace characters, string characters, escapes,
    // digits, array items, entries with one key -- optimised and unoptimised child
    for shape in ["ws_run", "ws_run_open", "long_string", "long_string_open", "long_number", "long_number_bad", "wide_arr", "wide_obj"] {
        let lens: &[usize] = if full { &[1, 100, 1000, 100000, 1000000] } else { &[1, 1000, 100000] };
        for &d in lens {
            out.case(|| format!("d {shape} {d} 0 str"));
            out.case(|| format!("dd {shape} {d} 0 str"));
            if d == 1000 {
                out.case(|| format!("d {shape} {d} 3 slice"));
                out.case(|| format!("dd {shape} {d} 3 slice"));
            }
        }
    }
    // one string made of d escapes that the lenient options treat specially: a scanner that handles a
    // run of unpaired surrogates by recursion costs a frame per escape
    for shape in ["hi_run", "lo_run", "pair_run", "hi_run_key"] {
        let lens: &[usize] = if full { &[1, 2, 1000, 100000, 1000000] } else { &[1, 2, 1000, 100000] };
        for &d in lens {
            for o in [0u32, 1, 2, 3] {
                if d > 1000 && o == 0 {
                    continue;
                }
                out.case(|| format!("d {shape} {d} {o} str"));
                out.case(|| format!("dd {shape} {d} {o} str"));
                if d == 1000 {
                    out.case(|| format!("d {shape} {d} {o} slice"));
                }
            }
        }
    }
    let shapes = ["arr", "arr_open", "obj", "obj_open", "mixed", "mixed_open", "wide_deep", "arr_garbage", "obj_garbage", "arr_sibling"];
    for shape in shapes {
        for &d in depths {
            for o in [0u32, 3] {
                for entry in ["str", "slice"] {
                    if !full && (o == 3 && entry == "slice") {
                        continue;
                    }
                    out.case(|| format!("d {shape} {d} {o} {entry}"));
                }
            }
        }
        // the unoptimised child: a recursion over the depth that the optimiser would turn into a
        // loop (a tail call) still costs a frame per level there
        let garbage0 = matches!(shape, "arr_garbage" | "obj_garbage" | "arr_sibling");
        let deep0: &[usize] = if garbage0 { &[64, 100, 1000] } else if full { &[1000, 100000, 1000000] } else { &[1000, 100000] };
        for &d in deep0 {
            out.case(|| format!("dd {shape} {d} 0 str"));
            if !garbage0 && d == 100000 {
                out.case(|| format!("dd {shape} {d} 3 slice"));
            }
        }
        // small depths (must all pass).  For the three closed-then-error shapes the recorded
        // finding (recursive drop glue on the error path) starts at a depth that depends on the
        // frame sizes the compiler chose (64 KiB / ~70 B for arrays, / ~140 B for objects: it
        // moved from above to below 500 between two builds of the same sources), so nothing
        // between 100 and 1000 is asked of them
        let garbage = matches!(shape, "arr_garbage" | "obj_garbage" | "arr_sibling");
        for d in [1usize, 2, 64, 100, 500] {
            if garbage && d > 100 {
                continue;
            }
            out.case(|| format!("d {shape} {d} 0 str"));
        }
    }
}
