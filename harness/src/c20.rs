//! C20: the complete finite domain of KindSet.
use crate::common::*;
use json_syntax::{Kind, KindSet, Value};

const KINDS: [Kind; 6] = [
    Kind::Null,
    Kind::Boolean,
    Kind::Number,
    Kind::String,
    Kind::Array,
    Kind::Object,
];

fn kidx(k: Kind) -> usize {
    KINDS.iter().position(|x| *x == k).unwrap()
}

/// The raw representation, read from the derived Debug output `KindSet(n)`.
fn bits(s: KindSet) -> String {
    let d = format!("{:?}", s);
    d.trim_start_matches("KindSet(").trim_end_matches(')').to_string()
}

/// Builds the set whose members are the bits of `b` (0..64), using only `|=` of a
/// singleton into the set under construction; checked against the Debug representation.
fn set(t: &str) -> KindSet {
    let b: u32 = t.parse().unwrap();
    let mut s = KindSet::none();
    for (i, k) in KINDS.iter().enumerate() {
        if b & (1 << i) != 0 {
            s |= *k;
        }
    }
    s
}

fn kind(t: &str) -> Kind {
    KINDS[t.parse::<usize>().unwrap()]
}

fn kinds_str(it: impl Iterator<Item = Kind>) -> String {
    let v: Vec<String> = it.map(|k| kidx(k).to_string()).collect();
    if v.is_empty() {
        "-".into()
    } else {
        v.join(",")
    }
}

fn sample_value(i: usize) -> Value {
    match i {
        0 => Value::Null,
        1 => Value::Boolean(true),
        2 => Value::Number(7u32.into()),
        3 => Value::String("x".into()),
        4 => Value::Array(vec![Value::Null]),
        _ => Value::Object(Default::default()),
    }
}

pub fn eval(line: &str) -> String {
    let line = line.to_string();
    guarded(move || eval_inner(&line))
}

fn eval_inner(line: &str) -> String {
    let t = toks(line);
    match t.as_slice() {
        ["or", a, b] => bits(set(a) | set(b)),
        ["and", a, b] => bits(set(a) & set(b)),
        ["ora", a, b] => {
            let mut x = set(a);
            x |= set(b);
            bits(x)
        }
        ["anda", a, b] => {
            let mut x = set(a);
            x &= set(b);
            bits(x)
        }
        ["ork", a, k] => bits(set(a) | kind(k)),
        ["andk", a, k] => bits(set(a) & kind(k)),
        ["orak", a, k] => {
            let mut x = set(a);
            x |= kind(k);
            bits(x)
        }
        ["andak", a, k] => {
            let mut x = set(a);
            x &= kind(k);
            bits(x)
        }
        ["kor", k, a] => bits(kind(k) | set(a)),
        ["kand", k, a] => bits(kind(k) & set(a)),
        ["kkor", k1, k2] => bits(kind(k1) | kind(k2)),
        ["kkand", k1, k2] => bits(kind(k1) & kind(k2)),
        ["from", k] => bits(KindSet::from(kind(k))),
        ["const", k] => bits(
            [
                KindSet::NULL,
                KindSet::BOOLEAN,
                KindSet::NUMBER,
                KindSet::STRING,
                KindSet::ARRAY,
                KindSet::OBJECT,
            ][k.parse::<usize>().unwrap()],
        ),
        ["all"] => bits(KindSet::all()),
        ["none"] => bits(KindSet::none()),
        ["default"] => bits(KindSet::default()),
        ["len", a] => set(a).len().to_string(),
        ["empty", a] => (set(a).is_empty() as u8).to_string(),
        ["iter", a] => {
            // the other ways of consuming the iterator (nth, skip, step_by, last, count, rev,
            // nth_back, rfold, both ends) see the same members; len() is exact at every step
            let s = set(a);
            let mut ok = styles_agree(&|| s.iter(), &|k| kidx(k))
                && styles_agree(&|| s.into_iter(), &|k| kidx(k))
                && styles_agree(&|| (&s).into_iter(), &|k| kidx(k))
                && styles_agree_back(&|| s.iter(), &|k| kidx(k));
            let mut it = s.iter();
            let mut left = s.len();
            ok &= it.len() == left;
            while it.next().is_some() {
                left -= 1;
                ok &= it.len() == left && it.size_hint() == (left, Some(left));
            }
            ok &= it.next().is_none() && it.next_back().is_none();
            // min / max / last / count / position / find / any / all, called as trait methods
            let members: Vec<usize> = s.iter().map(kidx).collect();
            ok &= Iterator::max_by_key(s.iter(), |k| kidx(*k)).map(kidx) == members.iter().copied().max()
                && Iterator::min_by_key(s.iter(), |k| kidx(*k)).map(kidx) == members.iter().copied().min()
                && Iterator::max(s.iter().map(kidx)) == members.iter().copied().max()
                && Iterator::last(s.iter()).map(kidx) == members.last().copied()
                && Iterator::count(s.iter()) == members.len()
                && Iterator::position(&mut s.iter(), |k| Some(kidx(k)) == members.last().copied()) == members.len().checked_sub(1)
                && Iterator::fold(s.iter(), 0usize, |a, k| a * 7 + kidx(k)) == members.iter().fold(0usize, |a, k| a * 7 + k)
                && s.iter().rev().map(kidx).collect::<Vec<_>>() == members.iter().rev().copied().collect::<Vec<_>>();
            ok &= kind_iter_extremes(s.iter()) == (members.iter().copied().min(), members.iter().copied().max());
            // backward through internal iteration (rfold and what is built on it), whole and after one
            // item was taken from either end
            let backward = |it: json_syntax::kind::KindSetIter, want: &[usize]| -> bool {
                let rev: Vec<usize> = want.iter().rev().copied().collect();
                let f = |a: usize, k: usize| a * 7 + k + 1;
                let mut seen = vec![];
                it.clone().rev().for_each(|k| seen.push(kidx(k)));
                let mut seen2 = vec![];
                let _ = it.clone().try_rfold((), |(), k| {
                    seen2.push(kidx(k));
                    Some(())
                });
                DoubleEndedIterator::rfold(it.clone(), 0usize, |a, k| f(a, kidx(k))) == rev.iter().fold(0usize, |a, k| f(a, *k))
                    && it.clone().rev().fold(0usize, |a, k| f(a, kidx(k))) == rev.iter().fold(0usize, |a, k| f(a, *k))
                    && it.clone().rev().last().map(kidx) == want.first().copied()
                    && it.clone().rev().map(kidx).max() == want.iter().copied().max()
                    && it.clone().rev().count() == want.len()
                    && it.clone().rev().nth(1).map(kidx) == rev.get(1).copied()
                    && it.clone().rfind(|k| kidx(*k) % 2 == 0).map(kidx) == rev.iter().copied().find(|k| k % 2 == 0)
                    && it.clone().rev().map(|k| kidx(k).to_string()).collect::<String>() == rev.iter().map(|k| k.to_string()).collect::<String>()
                    && it.clone().rev().rev().fold(0usize, |a, k| f(a, kidx(k))) == want.iter().fold(0usize, |a, k| f(a, *k))
                    && it.clone().fold(0usize, |a, k| f(a, kidx(k))) == want.iter().fold(0usize, |a, k| f(a, *k))
                    && seen == rev
                    && seen2 == rev
            };
            // nth / nth_back with every count up to two past the end, from the whole iterator and after one item
            // was taken from either end: the answer, and what is left afterwards (size and members, both ends)
            let jumps = |it: json_syntax::kind::KindSetIter, want: &[usize]| -> bool {
                let mut ok = true;
                for n in 0..=want.len() + 2 {
                    let mut a = it.clone();
                    let mut v: std::collections::VecDeque<usize> = want.iter().copied().collect();
                    let got = a.nth_back(n).map(kidx);
                    let exp = if n < v.len() {
                        v.truncate(v.len() - n);
                        v.pop_back()
                    } else {
                        v.clear();
                        None
                    };
                    ok &= got == exp && a.len() == v.len() && a.size_hint() == (v.len(), Some(v.len()))
                        && a.clone().map(kidx).collect::<Vec<_>>() == v.iter().copied().collect::<Vec<_>>()
                        && a.next_back().map(kidx) == v.back().copied();
                    let mut a = it.clone();
                    let mut v: std::collections::VecDeque<usize> = want.iter().copied().collect();
                    let got = a.nth(n).map(kidx);
                    let exp = if n < v.len() {
                        v.drain(..n);
                        v.pop_front()
                    } else {
                        v.clear();
                        None
                    };
                    ok &= got == exp && a.len() == v.len() && a.clone().rev().map(kidx).collect::<Vec<_>>() == v.iter().rev().copied().collect::<Vec<_>>()
                        && a.next().map(kidx) == v.front().copied();
                    let mut r = it.clone().rev();
                    let w: Vec<usize> = want.iter().rev().copied().collect();
                    ok &= r.nth(n).map(kidx) == w.get(n).copied() && r.len() == w.len().saturating_sub(n + 1)
                        && it.clone().rev().skip(n).map(kidx).collect::<Vec<_>>() == w.iter().skip(n).copied().collect::<Vec<_>>();
                }
                ok
            };
            ok &= jumps(s.iter(), &members);
            if members.len() >= 2 {
                let mut it = s.iter();
                it.next();
                ok &= jumps(it.clone(), &members[1..]);
                it.next_back();
                ok &= jumps(it, &members[1..members.len() - 1]);
            }
            ok &= backward(s.iter(), &members);
            if members.len() >= 2 {
                let mut it = s.iter();
                it.next();
                ok &= backward(it.clone(), &members[1..]);
                it.next_back();
                ok &= backward(it, &members[1..members.len() - 1]);
            }
            format!("{}{}", kinds_str(s.iter()), if ok { "" } else { " ITERATOR-STYLES-DISAGREE" })
        }
        ["intoiter", a] => kinds_str(set(a).into_iter()),
        ["refiter", a] => kinds_str((&set(a)).into_iter()),
        ["iterrev", a] => kinds_str(set(a).iter().rev()),
        ["display", a] => hex_str(&set(a).to_string()),
        ["disj", a] => hex_str(&set(a).as_disjunction().to_string()),
        ["conj", a] => hex_str(&set(a).as_conjunction().to_string()),
        ["steps", a, steps] => {
            let mut it = set(a).iter();
            let mut parts = vec![];
            for c in steps.chars() {
                let y = if c == 'f' { it.next() } else { it.next_back() };
                let (lo, hi) = it.size_hint();
                let exact = if Some(lo) == hi && it.len() == lo {
                    lo.to_string()
                } else {
                    format!("inexact({lo},{hi:?})")
                };
                parts.push(format!(
                    "{}:{}",
                    y.map(|k| kidx(k).to_string()).unwrap_or("-".into()),
                    exact
                ));
            }
            format!("{}|{}", parts.join(","), kinds_str(it))
        }
        ["kindname", k] => hex_str(&kind(k).to_string()),
        ["vkind", i] => kidx(sample_value(i.parse().unwrap()).kind()).to_string(),
        ["iskind", i, k] => (sample_value(i.parse().unwrap()).is_kind(kind(k)) as u8).to_string(),
        _ => format!("BADCASE {line}"),
    }
}

/// `Iterator::min` / `Iterator::max` reached through a generic function (an inherent-looking call
/// on the concrete type may be ambiguous when the iterator itself is `Ord`).
fn kind_iter_extremes<I: Iterator<Item = Kind> + Clone>(it: I) -> (Option<usize>, Option<usize>) {
    (it.clone().min().map(kidx), it.max().map(kidx))
}

pub fn generate(args: &Args, out: &mut Out) {
    for a in 0..64u32 {
        for b in 0..64u32 {
            for op in ["or", "and", "ora", "anda"] {
                out.case(|| format!("{op} {a} {b}"));
            }
        }
        for ki in 0..6 {
            for op in ["ork", "andk", "orak", "andak"] {
                out.case(|| format!("{op} {a} {ki}"));
            }
            out.case(|| format!("kor {ki} {a}"));
            out.case(|| format!("kand {ki} {a}"));
        }
        for op in [
            "len", "empty", "iter", "intoiter", "refiter", "iterrev", "display", "disj", "conj",
        ] {
            out.case(|| format!("{op} {a}"));
        }
        let maxlen = if args.thorough() { 10 } else { 7 };
        for n in 1..=maxlen {
            for script in 0..(1u32 << n) {
                out.case(|| {
                    let steps: String =
                        (0..n).map(|i| if script & (1 << i) != 0 { 'f' } else { 'b' }).collect();
                    format!("steps {a} {steps}")
                });
            }
        }
    }
    for i in 0..6 {
        out.case(|| format!("from {i}"));
        out.case(|| format!("const {i}"));
        out.case(|| format!("kindname {i}"));
        out.case(|| format!("vkind {i}"));
        for j in 0..6 {
            out.case(|| format!("kkor {i} {j}"));
            out.case(|| format!("kkand {i} {j}"));
            out.case(|| format!("iskind {i} {j}"));
        }
    }
    out.case(|| "all".into());
    out.case(|| "none".into());
    out.case(|| "default".into());
}
