//! Printer family (C04 round trip, C08 compact/minimal, C13 layout).
//! Case lines: `p <15 option tokens> | <value tokens>` and `c | <value tokens>`.
use crate::common::*;
use json_syntax::print::{Indent, Limit, Options};
use json_syntax::{Parse, Print, Value};

#[derive(Clone, Debug)]
pub struct O {
    pub indent: (char, u8),
    pub a: [usize; 5],
    pub al: Option<Limit>,
    pub o: [usize; 7],
    pub ol: Option<Limit>,
}

impl O {
    pub fn to_options(&self) -> Options {
        let mut p = Options::compact();
        p.indent = if self.indent.0 == 'S' { Indent::Spaces(self.indent.1) } else { Indent::Tabs(self.indent.1) };
        p.array_begin = self.a[0];
        p.array_end = self.a[1];
        p.array_empty = self.a[2];
        p.array_before_comma = self.a[3];
        p.array_after_comma = self.a[4];
        p.array_limit = self.al;
        p.object_begin = self.o[0];
        p.object_end = self.o[1];
        p.object_empty = self.o[2];
        p.object_before_comma = self.o[3];
        p.object_after_comma = self.o[4];
        p.object_before_colon = self.o[5];
        p.object_after_colon = self.o[6];
        p.object_limit = self.ol;
        p
    }
    pub fn from_options(p: &Options) -> O {
        O {
            indent: match p.indent {
                Indent::Spaces(n) => ('S', n),
                Indent::Tabs(n) => ('T', n),
            },
            a: [p.array_begin, p.array_end, p.array_empty, p.array_before_comma, p.array_after_comma],
            al: p.array_limit,
            o: [
                p.object_begin,
                p.object_end,
                p.object_empty,
                p.object_before_comma,
                p.object_after_comma,
                p.object_before_colon,
                p.object_after_colon,
            ],
            ol: p.object_limit,
        }
    }
    pub fn tokens(&self) -> String {
        let lim = |l: &Option<Limit>| match l {
            None => "N".to_string(),
            Some(Limit::Always) => "A".to_string(),
            Some(Limit::Item(i)) => format!("I{i}"),
            Some(Limit::Width(w)) => format!("W{w}"),
            Some(Limit::ItemOrWidth(i, w)) => format!("B{i},{w}"),
        };
        let mut v = vec![format!("{}{}", self.indent.0, self.indent.1)];
        v.extend(self.a.iter().map(|x| x.to_string()));
        v.push(lim(&self.al));
        v.extend(self.o.iter().map(|x| x.to_string()));
        v.push(lim(&self.ol));
        v.join(" ")
    }
    pub fn parse(t: &[&str]) -> O {
        let lim = |s: &str| -> Option<Limit> {
            match s.chars().next().unwrap() {
                'N' => None,
                'A' => Some(Limit::Always),
                'I' => Some(Limit::Item(s[1..].parse().unwrap())),
                'W' => Some(Limit::Width(s[1..].parse().unwrap())),
                'B' => {
                    let (i, w) = s[1..].split_once(',').unwrap();
                    Some(Limit::ItemOrWidth(i.parse().unwrap(), w.parse().unwrap()))
                }
                _ => panic!("limit"),
            }
        };
        let n = |s: &str| s.parse::<usize>().unwrap();
        O {
            indent: (t[0].chars().next().unwrap(), t[0][1..].parse().unwrap()),
            a: [n(t[1]), n(t[2]), n(t[3]), n(t[4]), n(t[5])],
            al: lim(t[6]),
            o: [n(t[7]), n(t[8]), n(t[9]), n(t[10]), n(t[11]), n(t[12]), n(t[13])],
            ol: lim(t[14]),
        }
    }
}

/// Decodes the value of a case; an undecodable case (only produced by the shrinker) is BADCASE.
fn decode_case(line: &str) -> Option<(Option<O>, Value)> {
    let line = line.to_string();
    std::panic::catch_unwind(move || {
        let t = toks(&line);
        let (head, vt) = split_case(&t);
        let o = if head.len() > 1 { Some(O::parse(&head[1..])) } else { None };
        let (v, rest) = dec_value(vt);
        assert!(rest.is_empty());
        (o, v)
    })
    .ok()
}

fn split_case<'a>(t: &'a [&'a str]) -> (&'a [&'a str], &'a [&'a str]) {
    let bar = t.iter().position(|x| *x == "|").expect("bar");
    (&t[..bar], &t[bar + 1..])
}

/// Prints into a sink that refuses to grow beyond 64 MiB (an option record may declare 2^32 spaces that a
/// correct layout never emits; a printer that does emit them is stopped here instead of filling the memory).
fn printed(v: &Value, o: &O) -> String {
    struct Capped(String);
    impl std::fmt::Write for Capped {
        fn write_str(&mut self, s: &str) -> std::fmt::Result {
            if self.0.len() + s.len() > (1 << 26) {
                return Err(std::fmt::Error);
            }
            self.0.push_str(s);
            Ok(())
        }
    }
    use std::fmt::Write as _;
    let mut sink = Capped(String::new());
    match write!(sink, "{}", v.print_with(o.to_options())) {
        Ok(()) => sink.0,
        Err(_) => "OUTPUT-BEYOND-64-MiB".into(),
    }
}

// ------------------------------------------------------------------ C13 / C04

/// Printing is a function of (value, options): it may not depend on what the same thread
/// printed before.  Before every observed print another value is printed under options whose
/// limits expand every container, and under the compact preset (a printer that kept layout
/// state between calls would be caught by the next observation).
fn disturb() {
    thread_local! {
        static NOISE: Value = Value::parse_str("[[1,[2]],{\"a\":[3,{\"b\":[]}],\"c\":{}}]").unwrap().0;
    }
    NOISE.with(|v| {
        let mut o = Options::pretty();
        o.array_limit = Some(json_syntax::print::Limit::Always);
        o.object_limit = Some(json_syntax::print::Limit::Always);
        let a = v.print_with(o.clone()).to_string();
        let b = v.compact_print().to_string();
        let c = v.pretty_print().to_string();
        // ... and a print that FAILS part-way (a sink that refuses after a few bytes): whatever
        // the printer had prepared for it must not leak into the next print
        struct Limited(usize);
        impl std::fmt::Write for Limited {
            fn write_str(&mut self, s: &str) -> std::fmt::Result {
                if s.len() > self.0 {
                    return Err(std::fmt::Error);
                }
                self.0 -= s.len();
                Ok(())
            }
        }
        use std::fmt::Write as _;
        let mut sink = Limited(9);
        let d = write!(sink, "{}", v.print_with(o)).is_err();
        let mut sink = Limited(3);
        let e = write!(sink, "{}", v.compact_print()).is_err();
        std::hint::black_box((a, b, c, d, e));
    });
}

pub fn eval_c13(line: &str) -> String {
    let Some((Some(o), v)) = decode_case(line) else { return format!("BADCASE {line}") };
    guarded(move || {
        disturb();
        let first = printed(&v, &o);
        disturb();
        let second = printed(&v, &o);
        // formatter flags do not reach the pieces
        let flagged = if first.len() < (1 << 20) && !first.starts_with("OUTPUT-BEYOND") { format!("{:>9.2}", v.print_with(o.to_options())) } else { first.clone() };
        if first == second && flagged == first { hex_str(&first) } else { format!("UNSTABLE {} / {}", hex_str(&first), hex_str(&second)) }
    })
}

pub fn eval_c04(line: &str) -> String {
    let Some((Some(o), v)) = decode_case(line) else { return format!("BADCASE {line}") };
    guarded(move || {
        disturb();
        let text = printed(&v, &o);
        let mut rt = match Value::parse_str(&text) {
            Ok((w, _)) => (w == v) as u8,
            Err(_) => 2,
        };
        // the printed text is as readable through the byte entry point
        if rt == 1 {
            rt = match Value::parse_slice(text.as_bytes()) {
                Ok((w, _)) => if w == v { 1 } else { 3 },
                Err(_) => 4,
            };
        }
        // the presets' dedicated methods must agree with print_with(preset)
        let preset_ok = {
            let po = o.to_options();
            if po == Options::pretty() {
                v.pretty_print().to_string() == text
            } else if po == Options::compact() {
                v.compact_print().to_string() == text
            } else if po == Options::inline() {
                v.inline_print().to_string() == text
            } else {
                true
            }
        };
        format!("RT={} PRESET={}", rt, preset_ok as u8)
    })
}

/// The same value with every object rebuilt through another sequence of operations.
fn rebuilt(v: &Value, route: usize) -> Value {
    use json_syntax::object::Entry;
    match v {
        Value::Array(a) => Value::Array(a.iter().map(|x| rebuilt(x, route)).collect()),
        Value::Object(o) => {
            let es: Vec<Entry> = o.iter().map(|e| Entry::new(e.key.clone(), rebuilt(&e.value, route))).collect();
            let mut n = json_syntax::Object::new();
            match route {
                0 => {
                    for e in es.into_iter().rev() {
                        n.push_front(e.key, e.value);
                    }
                }
                1 => {
                    for e in es.into_iter().rev() {
                        n.push_entry_front(e);
                    }
                }
                2 => {
                    // all but the first at the back, then the first in front
                    let mut it = es.into_iter();
                    let first = it.next();
                    for e in it {
                        n.push_entry(e);
                    }
                    if let Some(e) = first {
                        n.push_front(e.key, e.value);
                    }
                }
                3 => n.extend(es),
                _ => n = es.into_iter().map(|e| (e.key, e.value)).collect(),
            }
            Value::Object(n)
        }
        other => other.clone(),
    }
}

// ------------------------------------------------------------------ C08
pub fn eval_c08(line: &str) -> String {
    let Some((_, v)) = decode_case(line) else { return format!("BADCASE {line}") };
    guarded(move || {
        disturb();
        let a = v.compact_print().to_string();
        disturb();
        let b = v.to_string();
        let c = format!("{}", v);
        let d: String = String::from(v.clone());
        // Display under formatter flags is still the compact text (nothing padded, nothing
        // "alternate"); folded into the third column so that the line format is unchanged
        let flags_ok = format!("{:#}", v) == c && format!("{:>12}", v) == c && format!("{:<3.1}", v) == c && format!("{}", &v) == c;
        let c = if flags_ok { c } else { format!("FLAGS-CHANGE-DISPLAY {c}") };
        // the text is a function of the value, not of how its objects were put together: the same entries
        // reached through front pushes in reverse, insert_front, push_entry(_front), extend, FromIterator
        let routes_ok = (0..5).all(|route| rebuilt(&v, route).compact_print().to_string() == a);
        let c = if routes_ok { c } else { format!("CONSTRUCTION-ROUTE-CHANGES-TEXT {c}") };
        format!("{} {} {} {}", hex_str(&a), hex_str(&b), hex_str(&c), hex_str(&d))
    })
}

// =================================================================== generators
const LEAVES: [&str; 9] = ["n", "t", "f", "#30", "#2d,31,2e,35,65,2b,32", "$-", "$61", "$22,a,e9", "$1f600"];

/// All values of depth <= `depth` with at most `width` children per container.
fn small_values(depth: usize, width: usize) -> Vec<String> {
    let mut cur: Vec<String> = LEAVES.iter().map(|s| s.to_string()).collect();
    cur.push("[ ]".into());
    cur.push("{ }".into());
    for _ in 0..depth {
        let mut next = cur.clone();
        // arrays and objects of 1..=width children drawn from a thinned list of `cur`
        let pool: Vec<&String> = cur.iter().step_by((cur.len() / 12).max(1)).collect();
        for w in 1..=width {
            let total = pool.len().pow(w as u32);
            for code in 0..total {
                let mut c = code;
                let mut kids = vec![];
                for _ in 0..w {
                    kids.push(pool[c % pool.len()].clone());
                    c /= pool.len();
                }
                next.push(format!("[ {} ]", kids.join(" ")));
                let keys = ["$6b", "$-", "$6b"];
                let ents: Vec<String> = kids.iter().enumerate().map(|(i, k)| format!("{} {}", keys[i % 3], k)).collect();
                next.push(format!("{{ {} }}", ents.join(" ")));
            }
        }
        next.sort();
        next.dedup();
        cur = next;
    }
    cur
}

pub fn gen_value(r: &mut Rng, depth: usize, out: &mut String) {
    let leaf = depth == 0 || r.chance(2, 5);
    if leaf {
        match r.below(7) {
            0 => out.push('n'),
            1 => out.push('t'),
            2 => out.push('f'),
            3 | 4 => {
                out.push('$');
                out.push_str(&gen_cps(r));
            }
            _ => {
                let mut s = String::new();
                crate::parse::gen_number(r, &mut s);
                out.push('#');
                out.push_str(&hex_str(&s));
            }
        }
    } else if r.chance(1, 2) {
        out.push('[');
        for _ in 0..r.below(4) {
            out.push(' ');
            gen_value(r, depth - 1, out);
        }
        out.push_str(" ]");
    } else {
        out.push('{');
        for _ in 0..r.below(4) {
            out.push_str(" $");
            if r.chance(1, 3) {
                out.push_str(*r.pick(&["6b", "-", "61"]));
            } else {
                out.push_str(&gen_cps(r));
            }
            out.push(' ');
            gen_value(r, depth - 1, out);
        }
        out.push_str(" }");
    }
}

/// Strings from controls, quotes, backslashes, U+2028, non-BMP, noncharacters.
pub fn gen_cps(r: &mut Rng) -> String {
    let n = if r.chance(1, 8) { r.range(6, 20) } else { r.below(4) };
    let pool: [u32; 40] = [
        0, 1, 8, 9, 0xa, 0xb, 0xc, 0xd, 0x1a, 0x1f, 0x20, 0x22, 0x2f, 0x5c, 0x61, 0x7f, 0x80, 0x85, 0xa0, 0xad, 0xe9, 0x61c, 0x200b,
        0x200e, 0x2028, 0x2029, 0xd7ff, 0xe000, 0xfdd0, 0xfeff, 0xfffd, 0xfffe, 0xffff, 0x10000, 0x1f600, 0xe0001, 0xfffff, 0x100000,
        0x10fffe, 0x10ffff,
    ];
    let v: Vec<u32> = (0..n)
        .map(|_| match r.below(16) {
            0..=3 => 0x61 + r.below(26) as u32,
            4 => loop {
                // any scalar value
                let c = r.below(0x110000) as u32;
                if !(0xd800..0xe000).contains(&c) {
                    break c;
                }
            },
            _ => *r.pick(&pool),
        })
        .collect();
    hex_cps(v.into_iter())
}

fn gen_limit(r: &mut Rng) -> Option<Limit> {
    match r.below(6) {
        0 => None,
        1 => Some(Limit::Always),
        2 => Some(Limit::Item(r.below(4))),
        3 => Some(Limit::Width(r.below(40))),
        _ => Some(Limit::ItemOrWidth(r.below(4), r.below(40))),
    }
}

fn gen_opts(r: &mut Rng) -> O {
    let mut a = [0usize; 5];
    let mut o = [0usize; 7];
    // mostly 0..3; one record in five draws some fields from larger sizes (around 8, 16, 32, 64)
    let big = r.chance(1, 5);
    const BIG: [usize; 14] = [4, 5, 7, 8, 9, 15, 16, 17, 24, 31, 32, 33, 64, 65];
    for x in a.iter_mut().chain(o.iter_mut()) {
        *x = if big && r.chance(1, 3) { BIG[r.below(BIG.len())] } else { r.below(4) };
    }
    let indent = if big && r.chance(1, 2) {
        (if r.chance(1, 2) { 'S' } else { 'T' }, [7u8, 8, 9, 16, 255][r.below(5)])
    } else if r.chance(2, 3) {
        ('S', r.below(5) as u8)
    } else {
        ('T', r.below(3) as u8)
    };
    O {
        indent,
        a,
        al: gen_limit(r),
        o,
        ol: gen_limit(r),
    }
}

fn presets() -> Vec<O> {
    vec![
        O::from_options(&Options::pretty()),
        O::from_options(&Options::compact()),
        O::from_options(&Options::inline()),
    ]
}

/// Option records whose limits straddle the actual one-line width and item count of `v`.
fn straddling(v: &Value, base: &O) -> Vec<O> {
    let mut nolimit = base.clone();
    nolimit.al = None;
    nolimit.ol = None;
    let w = printed(v, &nolimit).chars().count();
    let n = match v {
        Value::Array(a) => a.len(),
        Value::Object(o) => o.len(),
        _ => 0,
    };
    let mut out = vec![];
    for dw in [-1i64, 0, 1] {
        let ww = (w as i64 + dw).max(0) as usize;
        for dn in [-1i64, 0, 1] {
            let nn = (n as i64 + dn).max(0) as usize;
            for which in 0..3 {
                let l = match which {
                    0 => Limit::Width(ww),
                    1 => Limit::Item(nn),
                    _ => Limit::ItemOrWidth(nn, ww),
                };
                let mut o = base.clone();
                o.al = Some(l);
                o.ol = Some(l);
                out.push(o);
            }
        }
    }
    out
}

pub fn generate_layout(args: &Args, out: &mut Out) {
    generate_layout_with(args, out, true)
}

/// C04 runs the list-based model parser on every printed text (quadratic in the length of a
/// container or string): it gets the same suite without the very wide values.
/// Printed texts longer than 64 KiB in which a 2-, 3- or 4-byte character lies across byte offset 65536
/// (and 131072) in every alignment: one long string, so that the text is cheap for the model parser.
fn long_texts(out: &mut Out, full: bool) {
    let ps = presets();
    for block in [65536usize, 131072] {
        if block > 65536 && !full {
            continue;
        }
        for c in [0xe9u32, 0x20ac, 0x1f600] {
            for k in (block - 6)..=(block + 1) {
                // compact: `["` is two bytes, so the character starts at byte k
                let mut cps: Vec<String> = (0..k - 2).map(|i| format!("{:x}", 0x61 + i % 26)).collect();
                cps.push(format!("{:x}", c));
                cps.push("7a".into());
                out.case_str(&format!("p {} | [ ${} #31,2e,35,65,2b,33 ]", ps[1].tokens(), cps.join(",")));
            }
        }
    }
}

pub fn generate_c04(args: &Args, out: &mut Out) {
    long_texts(out, args.thorough());
    generate_layout_with(args, out, false)
}

fn generate_layout_with(args: &Args, out: &mut Out, very_wide: bool) {
    let mut rng = Rng::new(args.seed);
    let full = args.thorough();
    let small = small_values(2, 2);
    // 1. small values x presets x seeded custom records
    let n_custom = if full { 24 } else { 6 };
    for (vi, v) in small.iter().enumerate() {
        let mut r = rng.fork();
        let mut os = presets();
        for _ in 0..n_custom {
            os.push(gen_opts(&mut r));
        }
        for o in &os {
            out.case_str(&format!("p {} | {}", o.tokens(), v));
        }
        // limits straddling the actual width / item count (a sample of the small values)
        if vi % (if full { 3 } else { 17 }) == 0 {
            let t: Vec<&str> = toks(v);
            let (val, _) = dec_value(&t);
            let base = gen_opts(&mut r);
            for o in straddling(&val, &base) {
                out.case_str(&format!("p {} | {}", o.tokens(), v));
            }
            for o in straddling(&val, &presets()[0]) {
                out.case_str(&format!("p {} | {}", o.tokens(), v));
            }
        }
    }
    // 2. every numeric field independently 0..3 around each preset (one field at a time and pairs)
    let probe_values = [
        "[ ]",
        "{ }",
        "[ #31 #32 ]",
        "{ $61 #31 $62 [ ] }",
        "[ [ #31 #32 ] { $6b n $6b { } } $22 ]",
        "{ $6b [ #31 [ ] { } ] $- { $61 t } }",
    ];
    for base in presets() {
        for f1 in 0..12 {
            for x in [0usize, 1, 2, 3, 8, 16] {
                for f2 in f1..12 {
                    for y in [0usize, 3] {
                        let mut o = base.clone();
                        let set = |o: &mut O, f: usize, x: usize| {
                            if f < 5 {
                                o.a[f] = x
                            } else {
                                o.o[f - 5] = x
                            }
                        };
                        set(&mut o, f1, x);
                        if f2 != f1 {
                            set(&mut o, f2, y);
                        }
                        for lim in [None, Some(Limit::Width(12)), Some(Limit::Item(1)), Some(Limit::Always)] {
                            let mut o2 = o.clone();
                            o2.al = lim;
                            o2.ol = lim;
                            for v in probe_values {
                                out.case_str(&format!("p {} | {}", o2.tokens(), v));
                            }
                        }
                    }
                }
            }
        }
    }
    // 2b. every character class as a one-character string and key (pretty and compact presets)
    {
        let mut cs: Vec<u32> = (0..0x100).collect();
        for b in [0x7ffu32, 0x800, 0x2028, 0x2029, 0xd7ff, 0xe000, 0xfeff, 0xfffd, 0xffff, 0x10000, 0x10ffff] {
            for d in 0..3u32 {
                let c = (b + d).saturating_sub(1).min(0x10ffff);
                if !(0xd800..0xe000).contains(&c) {
                    cs.push(c);
                }
            }
        }
        for _ in 0..(if full { 20000 } else { 1000 }) {
            let c = rng.below(0x110000) as u32;
            if !(0xd800..0xe000).contains(&c) {
                cs.push(c);
            }
        }
        let ps = presets();
        for (i, c) in cs.into_iter().enumerate() {
            out.case(|| format!("p {} | {{ ${:x} [ ${:x},61 ] }}", ps[i % 2].tokens(), c, c));
        }
    }
    // 2c. very wide values under the limit-free presets and under a width limit beyond 16 bits
    if very_wide {
        let ps = presets();
        let mut wide = ps[2].clone();
        wide.al = Some(Limit::Width(1 << 20));
        wide.ol = Some(Limit::ItemOrWidth(1 << 20, 1 << 20));
        for (i, v) in big_values(false).into_iter().enumerate() {
            out.case_str(&format!("p {} | {}", ps[1 + i % 2].tokens(), v));
            if i % 2 == 0 {
                out.case_str(&format!("p {} | {}", wide.tokens(), v));
            }
        }
    }
    // 2d. one spacing field at and beyond what fits 8 and 16 bits, under no limit and under width limits
    // around the resulting width; and fields of 2^32 and more under a limit that expands the container,
    // the one layout in which begin / end / after-comma / empty spacing is never printed
    if very_wide {
        let ps = presets();
        let vals = ["[ #31 #32 ]", "{ $61 #31 $62 [ ] }", "[ [ ] { } ]", "{ $6b { $6b [ #31 ] } }"];
        for base in [&ps[0], &ps[2]] {
            for field in 0..12usize {
                for x in [255usize, 256, 257, 300, 511, 512, 65535, 65536, 65537] {
                    if x > 600 && !(full || field % 3 == 0) {
                        continue;
                    }
                    for (vi, v) in vals.iter().enumerate() {
                        if x > 600 && vi > 1 {
                            continue;
                        }
                        let mut o = base.clone();
                        if field < 5 {
                            o.a[field] = x;
                        } else {
                            o.o[field - 5] = x;
                        }
                        o.al = None;
                        o.ol = None;
                        out.case_str(&format!("p {} | {}", o.tokens(), v));
                        o.al = Some(Limit::Width(x + 12));
                        o.ol = Some(Limit::ItemOrWidth(3, x + 20));
                        out.case_str(&format!("p {} | {}", o.tokens(), v));
                    }
                }
            }
            for (field, is_obj) in [(0usize, false), (1, false), (4, false), (2, false), (0, true), (1, true), (2, true), (4, true)] {
                for x in [1usize << 32, (1 << 32) + 3, (1 << 33) + 80, 1 << 40] {
                    for v in vals {
                        let mut o = base.clone();
                        if is_obj {
                            o.o[field] = x;
                        } else {
                            o.a[field] = x;
                        }
                        for (al, ol) in [
                            (Some(Limit::Width(80)), Some(Limit::Width(80))),
                            (Some(Limit::ItemOrWidth(9, 3)), Some(Limit::ItemOrWidth(9, 90))),
                            (if is_obj { None } else { Some(Limit::Width(7)) }, if is_obj { Some(Limit::Width(7)) } else { None }),
                        ] {
                            o.al = al;
                            o.ol = ol;
                            out.case_str(&format!("p {} | {}", o.tokens(), v));
                        }
                    }
                }
            }
        }
    }
    // 3. random value x random options, with straddling limits for every fifth
    let n = if full { 300000 } else { 12000 };
    for k in 0..n {
        let mut r = rng.fork();
        let mut v = String::new();
        let d = r.range(0, 5);
        gen_value(&mut r, d, &mut v);
        let o = if k % 7 == 0 { presets()[k / 7 % 3].clone() } else { gen_opts(&mut r) };
        out.case_str(&format!("p {} | {}", o.tokens(), v));
        if k % 5 == 0 {
            let t: Vec<&str> = toks(&v);
            let (val, _) = dec_value(&t);
            let all = straddling(&val, &o);
            let pick = r.below(all.len());
            out.case_str(&format!("p {} | {}", all[pick].tokens(), v));
        }
    }
}

/// Values whose one-line form is far wider than 64 KiB (and than any 16- or 32-bit width a
/// printer might keep): a long array of numbers, one very long string, an object of many entries
/// under one key, the same one level down.
fn big_values(full: bool) -> Vec<String> {
    let n = if full { 70000 } else { 35000 };
    let mut v = vec![];
    let nums: Vec<String> = (0..n).map(|i| format!("#{:x}", 0x30 + i % 10)).collect();
    v.push(format!("[ {} ]", nums.join(" ")));
    let long: Vec<String> = (0..(n * 2 + 5536)).map(|i| format!("{:x}", if i % 997 == 0 { 0xe9 } else { 0x61 + i % 26 })).collect();
    v.push(format!("[ ${} ]", long.join(",")));
    v.push(format!("{{ $6b [ ${} #31 ] }}", long.join(",")));
    let ents: Vec<String> = (0..n / 2).map(|i| format!("$6b #{:x}", 0x30 + i % 10)).collect();
    v.push(format!("{{ {} }}", ents.join(" ")));
    v.push(format!("[ [ {} ] n ]", nums[..n / 2].join(" ")));
    v
}

pub fn generate_c08(args: &Args, out: &mut Out) {
    let mut rng = Rng::new(args.seed);
    let full = args.thorough();
    for v in big_values(full) {
        out.case_str(&format!("c | {v}"));
    }
    // every scalar value (thorough) or boundaries + samples (quick) as a one-character string and key
    let scalars: Vec<u32> = if full {
        (0..0x110000u32).filter(|c| !(0xd800..0xe000).contains(c)).collect()
    } else {
        let mut v: Vec<u32> = (0..0x180).collect();
        for b in [0x7ffu32, 0x800, 0x2028, 0x2029, 0xd7ff, 0xe000, 0xfffd, 0xffff, 0x10000, 0x10ffff] {
            for d in 0..5u32 {
                let c = (b + d).saturating_sub(2).min(0x10ffff);
                if !(0xd800..0xe000).contains(&c) {
                    v.push(c);
                }
            }
        }
        for _ in 0..6000 {
            let c = rng.below(0x110000) as u32;
            if !(0xd800..0xe000).contains(&c) {
                v.push(c);
            }
        }
        v
    };
    for c in scalars {
        out.case(|| format!("c | ${:x}", c));
        out.case(|| format!("c | {{ ${:x} n }}", c));
    }
    for v in small_values(2, 2) {
        out.case_str(&format!("c | {v}"));
    }
    let n = if full { 200000 } else { 20000 };
    for _ in 0..n {
        let mut r = rng.fork();
        let mut v = String::new();
        let d = r.range(0, 6);
        gen_value(&mut r, d, &mut v);
        out.case_str(&format!("c | {v}"));
    }
}
