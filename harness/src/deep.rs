//! Deep-nesting child: shared by the harness (optimised build) and by harness-deep (the same
//! code compiled with opt-level 0, where a recursion that the optimiser would turn into a loop
//! still costs a stack frame per level).  No dependency on the rest of the harness.
use json_syntax::parse::Options;
use json_syntax::{Parse, Value};

fn opts(o: u32) -> Options {
    Options { accept_truncated_surrogate_pair: o & 1 != 0, accept_invalid_codepoints: o & 2 != 0 }
}

/// Dismantles a value iteratively (the derived drop glue recurses).
fn drop_deep(v: Value) {
    let mut stack = vec![v];
    while let Some(x) = stack.pop() {
        match x {
            Value::Array(a) => stack.extend(a),
            Value::Object(o) => stack.extend(o.into_iter().map(|e| e.value)),
            _ => (),
        }
    }
}

pub fn deep_doc(shape: &str, d: usize) -> String {
    let mut s = String::with_capacity(d * 8);
    match shape {
        "arr" | "arr_open" | "arr_garbage" | "arr_sibling" => {
            for _ in 0..d {
                s.push('[');
            }
            if shape != "arr_open" {
                for _ in 0..d {
                    s.push(']');
                }
            }
            if shape == "arr_garbage" {
                s.push('x');
            }
            if shape == "arr_sibling" {
                s = format!("[{s},]");
            }
        }
        "obj" | "obj_open" | "obj_garbage" => {
            for _ in 0..d {
                s.push_str("{\"a\":");
            }
            s.push('1');
            if shape != "obj_open" {
                for _ in 0..d {
                    s.push('}');
                }
            }
            if shape == "obj_garbage" {
                s.push('x');
            }
        }
        "mixed" | "mixed_open" => {
            for i in 0..d {
                s.push_str(if i % 2 == 0 { "[" } else { "{\"k\": " });
            }
            s.push_str("null");
            if shape == "mixed" {
                for i in (0..d).rev() {
                    s.push_str(if i % 2 == 0 { " ]" } else { "}" });
                }
            }
        }
        "wide_deep" => {
            // siblings before and after the deep spine: [1,[1,[1, ... ,2],2],2]
            for _ in 0..d {
                s.push_str("[1,");
            }
            s.push_str("[]");
            for _ in 0..d {
                s.push_str(",2]");
            }
        }
        // long rather than deep: one run of d characters of a kind
        "ws_run" => {
            let rep = |s: &mut String, t: &str| (0..d).for_each(|_| s.push_str(t));
            rep(&mut s, " ");
            s.push_str("[1");
            rep(&mut s, "\n");
            s.push_str(",\t2");
            rep(&mut s, "\r");
            s.push(']');
            rep(&mut s, "\t");
        }
        "ws_run_open" => {
            s.push_str("{\"k\"");
            (0..d).for_each(|_| s.push(' '));
        }
        "long_string" => {
            s.push_str("[\"");
            (0..d).for_each(|_| s.push('a'));
            s.push_str("\",\"");
            (0..d).for_each(|_| s.push_str("\\n"));
            s.push_str("\"]");
        }
        "long_string_open" => {
            s.push('"');
            (0..d).for_each(|_| s.push_str("\\u00e9"));
        }
        "long_number" => {
            s.push_str("[-1");
            (0..d).for_each(|_| s.push('0'));
            s.push('.');
            (0..d).for_each(|_| s.push('5'));
            s.push_str("e-1");
            (0..d).for_each(|_| s.push('7'));
            s.push(']');
        }
        "long_number_bad" => {
            s.push('1');
            (0..d).for_each(|_| s.push('0'));
            s.push('.');
        }
        "wide_arr" => {
            s.push_str("[0");
            (0..d).for_each(|_| s.push_str(",0"));
            s.push(']');
        }
        // one string holding d consecutive escapes of a kind: unpaired high surrogates (accepted
        // only with accept_truncated_surrogate_pair), lone low surrogates (only with
        // accept_invalid_codepoints), well-formed pairs; as a value and as a key
        "hi_run" => {
            s.push('"');
            (0..d).for_each(|_| s.push_str("\\ud800"));
            s.push('"');
        }
        "lo_run" => {
            s.push_str("[\"");
            (0..d).for_each(|_| s.push_str("\\udc00"));
            s.push_str("\"]");
        }
        "pair_run" => {
            s.push('"');
            (0..d).for_each(|_| s.push_str("\\ud83d\\ude00"));
            s.push('"');
        }
        "hi_run_key" => {
            s.push_str("{\"");
            (0..d).for_each(|_| s.push_str("\\udbff"));
            s.push_str("x\":0}");
        }
        "wide_obj" => {
            s.push_str("{\"a\":0");
            (0..d).for_each(|_| s.push_str(",\"a\":0"));
            s.push('}');
        }
        _ => s.push_str("null"),
    }
    s
}

/// Runs in the CHILD: parse inside a thread with a 64 KiB stack; prints the outcome.
pub fn deep_child(shape: &str, d: usize, o: u32, entry: &str) {
    let doc = deep_doc(shape, d);
    let entry = entry.to_string();
    let h = std::thread::Builder::new()
        .stack_size(64 * 1024)
        .spawn(move || {
            let r = if entry == "str" { Value::parse_str_with(&doc, opts(o)) } else { Value::parse_slice_with(doc.as_bytes(), opts(o)) };
            match r {
                Ok((v, cm)) => {
                    let n = v.traverse().count();
                    // the same walk through the other standard ways of consuming an iterator
                    // (they consult size_hint, fold, or skip): all must see the same fragments
                    let hint = v.traverse().size_hint();
                    let collected = v.traverse().collect::<Vec<_>>().len();
                    let mut ext = Vec::new();
                    ext.extend(v.traverse());
                    let folded = v.traverse().fold(0usize, |a, _| a + 1);
                    let skipped = {
                        let mut it = v.traverse();
                        if n > 2 { it.nth(n - 2).is_some() as usize + it.count() } else { 2 }
                    };
                    let last = v.traverse().last().is_some();
                    let mut looped = 0usize;
                    for _ in v.traverse() {
                        looped += 1;
                    }
                    let agree = collected == n
                        && ext.len() == n
                        && folded == n
                        && looped == n
                        && skipped == 2
                        && last == (n > 0)
                        && hint.0 <= n
                        && hint.1.map_or(true, |h| h >= n)
                        && v.volume() <= n
                        && v.count(|_, _| true) == n;
                    drop(ext);
                    let s = if agree { format!("OK {}/{}", n, cm.len()) } else { format!("TRAVERSE-DISAGREES {}/{}", n, cm.len()) };
                    drop_deep(v);
                    s
                }
                Err(_) => "ERR".to_string(),
            }
        })
        .unwrap();
    match h.join() {
        Ok(s) => println!("{s}"),
        Err(_) => println!("PANIC"),
    }
}

