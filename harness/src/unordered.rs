//! C15: unordered equality.  Case lines: `u | <value a> | <value b>`.
use crate::common::*;
use json_syntax::{BorrowUnordered, Unordered, UnorderedPartialEq, Value};

fn decode(line: &str) -> Option<(Value, Value)> {
    let line = line.to_string();
    std::panic::catch_unwind(move || {
        let t = toks(&line);
        assert_eq!(t[0], "u");
        assert_eq!(t[1], "|");
        let (a, r) = dec_value(&t[2..]);
        assert_eq!(r[0], "|");
        let (b, r2) = dec_value(&r[1..]);
        assert!(r2.is_empty());
        (a, b)
    })
    .ok()
}

/// The entry points below `Value`: `Object::unordered_eq`, `Vec<Value>::unordered_eq`,
/// `Vec<Object>`, `Meta<_, _>` and the `Unordered` wrappers of those answer what the `Value`
/// entry point answers for the same two operands (both directions).
fn lower_entry_points_agree(a: &Value, b: &Value, ab: bool, ba: bool) -> bool {
    use locspan::Meta;
    let mut ok = Meta(a.clone(), 7u8).unordered_eq(&Meta(b.clone(), 7u8)) == ab
        && !Meta(a.clone(), 7u8).unordered_eq(&Meta(a.clone(), 8u8))
        && vec![a.clone(), b.clone()].unordered_eq(&vec![b.clone(), a.clone()]) == (ab && ba);
    match (a, b) {
        (Value::Object(x), Value::Object(y)) => {
            ok &= x.unordered_eq(y) == ab
                && y.unordered_eq(x) == ba
                && (x.as_unordered() == y.as_unordered()) == ab
                && (Unordered(y.clone()) == Unordered(x.clone())) == ba
                && vec![x.clone()].unordered_eq(&vec![y.clone()]) == ab
                && x.unordered_eq(x);
        }
        (Value::Array(x), Value::Array(y)) => {
            ok &= x.unordered_eq(y) == ab && y.unordered_eq(x) == ba && (x.as_unordered() == y.as_unordered()) == ab;
        }
        _ => (),
    }
    ok
}

/// `uh <nkeys> <ops> / <ops>`: two objects built by operation histories (the operation language
/// of the object family), compared at the `Object` and at the `Value` level.
fn eval_hist(line: &str) -> String {
    let line = line.to_string();
    guarded(move || {
        let t = toks(&line);
        let Some(slash) = t.iter().position(|x| *x == "/") else { return format!("BADCASE {line}") };
        crate::object::set_universe(t[1]);
        let mut o1 = json_syntax::Object::new();
        for op in &t[2..slash] {
            crate::object::apply(&mut o1, op);
        }
        let mut o2 = json_syntax::Object::new();
        for op in &t[slash + 1..] {
            crate::object::apply(&mut o2, op);
        }
        let (a, b) = (Value::Object(o1), Value::Object(o2));
        let ab = a.unordered_eq(&b);
        let ba = b.unordered_eq(&a);
        let low = lower_entry_points_agree(&a, &b, ab, ba);
        format!("ab={} ba={} low={} refl={} eq={}", ab as u8, ba as u8, low as u8, a.unordered_eq(&a) as u8, (a == b) as u8)
    })
}

pub fn eval(line: &str) -> String {
    if line.starts_with("uh ") {
        return eval_hist(line);
    }
    let Some((a, b)) = decode(line) else { return format!("BADCASE {line}") };
    guarded(move || {
        let ab = a.unordered_eq(&b);
        let ba = b.unordered_eq(&a);
        let w1 = if lower_entry_points_agree(&a, &b, ab, ba) { ((a.as_unordered() == b.as_unordered()) as u8).to_string() } else { "LOWER-ENTRY-POINTS-DISAGREE".to_string() };
        let w2 = Unordered(a.clone()) == Unordered(b.clone());
        let aa = a.unordered_eq(&a);
        let eq = a == b;
        format!("ab={} ba={} asu={} wrap={} refl={} eq={}", ab as u8, ba as u8, w1, w2 as u8, aa as u8, eq as u8)
    })
}

fn leaves() -> Vec<String> {
    vec!["n".into(), "#31".into(), "$61".into(), "{ }".into(), "[ ]".into(), "{ $61 n }".into(), "{ $61 n $62 #31 }".into(), "{ $62 #31 $61 n }".into(), "[ n ]".into()]
}

fn permutations(n: usize) -> Vec<Vec<usize>> {
    if n == 0 {
        return vec![vec![]];
    }
    let mut out = vec![];
    for p in permutations(n - 1) {
        for i in 0..n {
            let mut q = p.clone();
            q.insert(i, n - 1);
            out.push(q);
        }
    }
    out
}

fn obj(es: &[(usize, usize)], keys: &[&str], vals: &[String]) -> String {
    if es.is_empty() {
        return "{ }".into();
    }
    let parts: Vec<String> = es.iter().map(|(k, v)| format!("{} {}", keys[*k], vals[*v])).collect();
    format!("{{ {} }}", parts.join(" "))
}

fn shuffle_value(r: &mut Rng, v: &Value) -> Value {
    match v {
        Value::Array(a) => Value::Array(a.iter().map(|x| shuffle_value(r, x)).collect()),
        Value::Object(o) => {
            let mut es: Vec<json_syntax::object::Entry> =
                o.iter().map(|e| json_syntax::object::Entry::new(e.key.clone(), shuffle_value(r, &e.value))).collect();
            for i in (1..es.len()).rev() {
                let j = r.below(i + 1);
                es.swap(i, j);
            }
            Value::Object(json_syntax::Object::from_vec(es))
        }
        other => other.clone(),
    }
}

/// Changes one leaf (or one key, or drops/duplicates one entry) somewhere in the value.
fn mutate_value(r: &mut Rng, v: &Value) -> Value {
    match v {
        Value::Array(a) if !a.is_empty() => {
            let i = r.below(a.len());
            let mut b = a.clone();
            b[i] = mutate_value(r, &a[i]);
            Value::Array(b)
        }
        Value::Object(o) if !o.is_empty() => {
            let i = r.below(o.len());
            let mut es: Vec<json_syntax::object::Entry> = o.iter().cloned().collect();
            match r.below(4) {
                0 => es[i].key = "zz".into(),
                1 => {
                    // replace an entry by a copy of another one: same length, different multiset
                    let j = r.below(es.len());
                    es[i] = es[j].clone();
                }
                _ => es[i].value = mutate_value(r, &es[i].value),
            }
            Value::Object(json_syntax::Object::from_vec(es))
        }
        Value::Null => Value::Boolean(true),
        Value::Boolean(b) => Value::Boolean(!b),
        Value::Number(_) => Value::Number(77u32.into()),
        Value::String(_) => Value::String("mutated".into()),
        Value::Array(_) => Value::Array(vec![Value::Null]),
        Value::Object(_) => Value::Null,
    }
}


/// Replaces one node (chosen at random, at any depth) by a value of ANOTHER kind that resembles
/// it: empty array <-> empty object, a string <-> the one-element array of it, a number <-> its
/// spelling as a string, null <-> false, true <-> "true", an object <-> the array of its values.
/// Unordered equality must tell kinds apart everywhere.
fn kind_swap(r: &mut Rng, v: &Value) -> Value {
    let descend = match v {
        Value::Array(a) => !a.is_empty() && r.chance(2, 3),
        Value::Object(o) => !o.is_empty() && r.chance(2, 3),
        _ => false,
    };
    if descend {
        match v {
            Value::Array(a) => {
                let i = r.below(a.len());
                let mut b = a.clone();
                b[i] = kind_swap(r, &a[i]);
                return Value::Array(b);
            }
            Value::Object(o) => {
                let i = r.below(o.len());
                let mut es: Vec<json_syntax::object::Entry> = o.iter().cloned().collect();
                es[i].value = kind_swap(r, &es[i].value);
                return Value::Object(json_syntax::Object::from_vec(es));
            }
            _ => unreachable!(),
        }
    }
    match v {
        Value::Array(a) if a.is_empty() => Value::Object(json_syntax::Object::new()),
        Value::Object(o) if o.is_empty() => Value::Array(vec![]),
        Value::Array(a) => Value::Object(json_syntax::Object::from_vec(
            a.iter().enumerate().map(|(i, x)| json_syntax::object::Entry::new(i.to_string().as_str().into(), x.clone())).collect(),
        )),
        Value::Object(o) => Value::Array(o.iter().map(|e| e.value.clone()).collect()),
        Value::String(s) => Value::Array(vec![Value::String(s.clone())]),
        Value::Number(n) => Value::String(n.as_str().into()),
        Value::Null => Value::Boolean(false),
        Value::Boolean(true) => Value::String("true".into()),
        Value::Boolean(false) => Value::Null,
    }
}

pub fn generate(args: &Args, out: &mut Out) {
    let mut rng = Rng::new(args.seed);
    let full = args.thorough();
    let keys = ["$61", "$62"];
    let vals = leaves();
    // (thorough: 7 values, length <= 3 -> 2,744 objects of length 3, 7.5 million ordered pairs;
    // 9 values and length 4 would be 10^10 pairs)
    let nv = if full { 7 } else { 5 };
    let maxlen = 3;
    // all objects with <= maxlen entries over 2 keys x nv values
    let mut objs: Vec<Vec<(usize, usize)>> = vec![vec![]];
    let mut frontier: Vec<Vec<(usize, usize)>> = vec![vec![]];
    for _ in 0..maxlen {
        let mut next = vec![];
        for o in &frontier {
            for k in 0..2 {
                for v in 0..nv {
                    let mut o2 = o.clone();
                    o2.push((k, v));
                    next.push(o2);
                }
            }
        }
        objs.extend(next.iter().cloned());
        frontier = next;
    }
    // every pair of small scalar-or-empty values of any kinds, bare and one level down
    let tiny = ["n", "t", "f", "#30", "$-", "$30", "[ ]", "{ }", "[ [ ] ]", "[ { } ]", "{ $- [ ] }", "{ $- { } }"];
    for a in tiny {
        for b in tiny {
            out.case(|| format!("u | {a} | {b}"));
            out.case(|| format!("u | [ {a} n ] | [ {b} n ]"));
            out.case(|| format!("u | {{ $6b {a} $6a t }} | {{ $6a t $6b {b} }}"));
        }
    }
    // every pair of equal length (different lengths are trivially unequal: sample those)
    for a in &objs {
        for b in &objs {
            if a.len() == b.len() || (a.len() + 1 == b.len() && a.len() < 2) {
                out.case(|| format!("u | {} | {}", obj(a, &keys, &vals), obj(b, &keys, &vals)));
            }
        }
    }
    // every permutation of each object against itself
    for a in &objs {
        for p in permutations(a.len()) {
            out.case(|| {
                let b: Vec<(usize, usize)> = p.iter().map(|i| a[*i]).collect();
                format!("u | {} | {}", obj(a, &keys, &vals), obj(&b, &keys, &vals))
            });
        }
    }
    // wide objects (around 8, 16, 32, 64, 128 entries; duplicates of early keys with different and
    // with equal values): against themselves, shuffled, with one value changed, with the values of
    // two duplicates exchanged, with one entry dropped and another doubled
    let widths: &[usize] = if full { &[7, 8, 9, 15, 16, 17, 31, 32, 33, 34, 48, 63, 64, 65, 66, 100, 127, 128, 129] } else { &[8, 9, 16, 17, 32, 33, 40, 64, 65, 129] };
    for &w in widths {
        for variant in 0..(if full { 6 } else { 3 }) {
            let mut r = rng.fork();
            let mut es: Vec<(String, String)> = vec![];
            for i in 0..w {
                let k = if variant > 0 && i > 0 && r.chance(1, 5) { format!("$6b,{:x}", 0x30 + r.below(i) % 10) } else { format!("$6b,{:x},{:x}", 0x30 + i / 10 % 10 + (i / 100) * 0x10, 0x30 + i % 10) };
                let v = match r.below(4) {
                    0 => "n".to_string(),
                    1 => format!("#{:x}", 0x30 + r.below(10)),
                    2 => "{ $61 n $62 [ ] }".to_string(),
                    _ => format!("[ #{:x} ]", 0x30 + i % 10),
                };
                es.push((k, v));
            }
            let show = |es: &[(String, String)]| format!("{{ {} }}", es.iter().map(|(k, v)| format!("{k} {v}")).collect::<Vec<_>>().join(" "));
            let a = show(&es);
            out.case_str(&format!("u | {a} | {a}"));
            let mut sh = es.clone();
            for i in (1..sh.len()).rev() {
                let j = r.below(i + 1);
                sh.swap(i, j);
            }
            out.case_str(&format!("u | {a} | {}", show(&sh)));
            let mut rev = es.clone();
            rev.reverse();
            out.case_str(&format!("u | {a} | {}", show(&rev)));
            // one value changed, at the front, in the middle, at the very end
            for at in [0, w / 2, w - 1] {
                let mut m = sh.clone();
                let pos = m.iter().position(|e| e == &es[at]).unwrap();
                m[pos].1 = "f".into();
                out.case_str(&format!("u | {a} | {}", show(&m)));
            }
            // last entry replaced by a copy of the first (same length, multiplicities differ)
            let mut m = es.clone();
            m[w - 1] = m[0].clone();
            out.case_str(&format!("u | {a} | {}", show(&m)));
            out.case_str(&format!("u | {} | {a}", show(&m)));
        }
    }
    // objects built by operation histories (push / push_front / insert / insert_front / remove /
    // sort / clone ...): a history against itself, against a rotation of its pushes, against
    // the same history with one more operation, against an unrelated one
    for _ in 0..(if full { 40000 } else { 3000 }) {
        let mut r = rng.fork();
        let nk = 4;
        let mk = |r: &mut Rng, n: usize| -> Vec<String> {
            (0..n)
                .map(|_| {
                    let k = r.below(nk);
                    let v = r.below(3);
                    match r.below(12) {
                        0..=3 => format!("push:{k}:{v}"),
                        4 | 5 => format!("pushf:{k}:{v}"),
                        6 => format!("pushef:{k}:{v}"),
                        7 => format!("ins:{k}:{v}:*"),
                        8 => format!("insf:{k}:{v}:0"),
                        9 => format!("rm:{k}:1"),
                        10 => format!("rmat:{}", r.below(5)),
                        _ => (*r.pick(&["sort", "clone", "clonefrom", "take"])).to_string(),
                    }
                })
                .collect()
        };
        let n1 = r.range(1, 8);
        let h1 = mk(&mut r, n1);
        let mut h2 = h1.clone();
        match r.below(4) {
            0 => h2.rotate_left(1),
            1 => h2.reverse(),
            2 => {
                let extra = mk(&mut r, 1);
                h2.extend(extra);
            }
            _ => {
                let n2 = r.range(1, 8);
                h2 = mk(&mut r, n2);
            }
        }
        out.case_str(&format!("uh {nk} {} / {}", h1.join(" "), h2.join(" ")));
        // one key many times (values differ), a neighbour key, then removals at positions: against the
        // object holding the surviving entries in push order
        if r.chance(1, 3) {
            let m = r.range(3, 8);
            let mut ops: Vec<String> = (0..m).map(|i| format!("push:0:{}", i % 3)).collect();
            ops.insert(r.below(m), format!("push:1:{}", r.below(3)));
            ops.push(format!("push:1:{}", r.below(3)));
            let mut alive: Vec<String> = ops.clone();
            for _ in 0..r.range(1, 4) {
                if alive.len() > 1 {
                    let at = r.below(alive.len());
                    ops.push(format!("rmat:{at}"));
                    alive.remove(at);
                }
            }
            out.case_str(&format!("uh {nk} {} / {}", ops.join(" "), alive.join(" ")));
            alive.reverse();
            out.case_str(&format!("uh {nk} {} / {}", ops.join(" "), alive.join(" ")));
        }
        // front pushes only against back pushes of the same entries in reverse
        if r.chance(1, 4) {
            let es: Vec<(usize, usize)> = (0..r.range(1, 6)).map(|_| (r.below(2), r.below(2))).collect();
            let f: Vec<String> = es.iter().map(|(k, v)| format!("pushf:{k}:{v}")).collect();
            let b: Vec<String> = es.iter().rev().map(|(k, v)| format!("push:{k}:{v}")).collect();
            out.case_str(&format!("uh {nk} {} / {}", f.join(" "), b.join(" ")));
            let b2: Vec<String> = es.iter().map(|(k, v)| format!("push:{k}:{v}")).collect();
            out.case_str(&format!("uh {nk} {} / {}", f.join(" "), b2.join(" ")));
        }
    }
    // grow / drain: an object that held 29..130 distinct keys and is cut down by removals at positions
    // (a key index that shrinks or re-hashes on the way has to keep answering), against the surviving
    // entries pushed afresh, in order and reversed; observed at several points of the drain
    for _ in 0..(if full { 3000 } else { 250 }) {
        let mut r = rng.fork();
        let nk = *r.pick(&[29usize, 30, 40, 57, 58, 70, 130]);
        let mut ops: Vec<String> = (0..nk).map(|i| format!("push:{}:{}", i, r.below(3))).collect();
        let mut alive = ops.clone();
        let floor = r.below(17);
        while alive.len() > floor {
            let at = if r.chance(1, 6) { alive.len() - 1 } else { r.below(alive.len()) };
            ops.push(format!("rmat:{at}"));
            alive.remove(at);
            if alive.len() <= 18 && (alive.len() >= 14 || r.chance(1, 3)) || r.chance(1, 25) {
                let mut other = alive.clone();
                if r.chance(1, 2) {
                    other.reverse();
                }
                out.case_str(&format!("uh {nk} {} / {}", ops.join(" "), other.join(" ")));
                out.case_str(&format!("uh {nk} {} / {}", other.join(" "), ops.join(" ")));
            }
        }
    }
    // the second key universe (names ordered differently by code points and by UTF-16 units): one side
    // sorted or canonicalized after it was built, against the same entries in another order
    for _ in 0..(if full { 6000 } else { 600 }) {
        let mut r = rng.fork();
        let nk = 11usize;
        let es: Vec<String> = (0..r.range(2, 8)).map(|_| format!("push:{}:{}", r.below(nk), r.below(2))).collect();
        let mut h1 = es.clone();
        h1.push((*r.pick(&["canon", "canon", "sort"])).to_string());
        let mut h2 = es.clone();
        match r.below(3) {
            0 => h2.reverse(),
            1 => h2.rotate_left(1),
            _ => (),
        }
        out.case_str(&format!("uh {nk} {} / {}", h1.join(" "), h2.join(" ")));
        out.case_str(&format!("uh {nk} {} / {}", h2.join(" "), h1.join(" ")));
        out.case_str(&format!("uh {nk} {} / {}", h1.join(" "), h1.join(" ")));
        h2.push("canon".into());
        h2.push(format!("push:{}:{}", r.below(nk), r.below(2)));
        let mut h3 = h1.clone();
        h3.push(h2.last().unwrap().clone());
        out.case_str(&format!("uh {nk} {} / {}", h3.join(" "), h2.join(" ")));
    }
    // random large values: shuffled copies (must be equal) and single mutations (usually differ)
    let n = if full { 200000 } else { 15000 };
    for _ in 0..n {
        let mut r = rng.fork();
        let mut s = String::new();
        let d = r.range(1, 5);
        crate::print::gen_value(&mut r, d, &mut s);
        let t: Vec<&str> = toks(&s);
        let (v, _) = dec_value(&t);
        let sh = shuffle_value(&mut r, &v);
        out.case_str(&format!("u | {} | {}", s, value_str(&sh)));
        let m = mutate_value(&mut r, &sh);
        out.case_str(&format!("u | {} | {}", s, value_str(&m)));
        let k = kind_swap(&mut r, &sh);
        out.case_str(&format!("u | {} | {}", s, value_str(&k)));
    }
}
