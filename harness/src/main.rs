//! Correspondence harness: runs the implementation in /repo on generated cases.
//! `harness <family> gen --tier T --seed S --shard i --nshards n --out DIR` writes
//! `DIR/cases.<i>.txt` (one case per line, the input of the extracted Coq model) and
//! `DIR/impl.<i>.txt` (the implementation's observable, one line per case);
//! `harness <family> eval` maps case lines on stdin to implementation results on stdout
//! (used for replay and shrinking).  A case line alone determines what is run.
mod common;
mod c20;

use common::Args;

fn main() {
    let args = Args::parse();
    common::quiet_panics();
    let (gen, eval): (fn(&Args, &mut common::Out), fn(&str) -> String) = match args.family.as_str() {
        "c20" => (c20::generate, c20::eval),
        other => {
            eprintln!("unknown family {other}");
            std::process::exit(2);
        }
    };
    match args.mode.as_str() {
        "gen" => {
            let mut out = common::Out::new(&args, eval);
            gen(&args, &mut out);
            out.finish();
        }
        "eval" => common::eval_stdin(eval),
        other => {
            eprintln!("unknown mode {other}");
            std::process::exit(2);
        }
    }
}
