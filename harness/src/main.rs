//! Correspondence harness: runs the implementation in /repo on generated cases.
//! `harness <family> gen --tier T --seed S --shard i --nshards n --out DIR` writes
//! `DIR/cases.<i>.txt` (one case per line, the input of the extracted Coq model) and
//! `DIR/impl.<i>.txt` (the implementation's observable, one line per case);
//! `harness <family> eval` maps case lines on stdin to implementation results on stdout
//! (used for replay and shrinking).  A case line alone determines what is run.
mod common;
mod c20;
mod parse;
mod print;
mod unordered;
mod object;
mod nav;
mod compare;
mod c03;
mod deep;
mod canon;
mod c19;
mod serde_typed;
mod serde_value;

use common::Args;

fn main() {
    let args = Args::parse();
    common::quiet_panics();
    let (gen, eval): (fn(&Args, &mut common::Out), fn(&str) -> String) = match args.family.as_str() {
        "c20" => (c20::generate, c20::eval),
        "c01" => (parse::generate_c01, parse::eval_c01),
        "c02" => (parse::generate_c02, parse::eval_c02),
        "c05" => (parse::generate_c05, parse::eval_c05),
        "c07" => (parse::generate_c07, parse::eval_c07),
        "c12" => (parse::generate_c12, parse::eval_c12),
        "c04" => (print::generate_c04, print::eval_c04),
        "c13" => (print::generate_layout, print::eval_c13),
        "c08" => (print::generate_c08, print::eval_c08),
        "c15" => (unordered::generate, unordered::eval),
        "c06" => (object::generate, object::eval),
        "c11" => (nav::generate, nav::eval),
        "c14" => (compare::generate, compare::eval),
        "c03" => (c03::generate, c03::eval),
        "c09" => (canon::generate_c09, canon::eval_c09),
        "c10" => (canon::generate_c10, canon::eval_c10),
        "c17" => (serde_value::generate_c17, serde_value::eval_c17),
        "c18" => (serde_value::generate_c18, serde_value::eval_c18),
        "c19" => (c19::generate, c19::eval),
        "c16" => (serde_typed::generate, serde_typed::eval),
        other => {
            eprintln!("unknown family {other}");
            std::process::exit(2);
        }
    };
    match args.mode.as_str() {
        "deepchild" => {
            let e = &args.extra;
            c03::deep_child(&e[0], e[1].parse().unwrap(), e[2].parse().unwrap(), &e[3]);
        }
        // C19 runs compiled batches of generated programs
        "gen" if args.family == "c19" => c19::gen_batch(&args),
        "eval" if args.family == "c19" => c19::eval_batch(),
        "gen" => {
            let mut out = common::Out::new(&args, eval);
            gen(&args, &mut out);
            out.finish();
        }
        "eval" => common::eval_stdin(eval),
        other => {
            eprintln!("unknown mode {other}");
            std::process::exit(2);
        }
    }
}
