//! C14: equality, ordering, hashing.  Case lines: `m | a | b | c` (value triples) and
//! `hh <nkeys> <ops...> / <ops...>` (two operation histories).
use crate::common::*;
use json_syntax::{Object, Value};
use std::cmp::Ordering;
use std::hash::{Hash, Hasher};

/// A Hasher that records the writes it receives.
#[derive(Default)]
struct Log(Vec<String>);
impl Hasher for Log {
    fn finish(&self) -> u64 {
        0
    }
    fn write(&mut self, bytes: &[u8]) {
        self.0.push(format!("B{}", hex_bytes(bytes)));
    }
    fn write_u8(&mut self, i: u8) {
        self.0.push(format!("U{:x}", i));
    }
    fn write_usize(&mut self, i: usize) {
        self.0.push(format!("L{}", i));
    }
    fn write_isize(&mut self, i: isize) {
        self.0.push(format!("D{}", i));
    }
}

fn stream<T: Hash>(v: &T) -> String {
    let mut l = Log::default();
    v.hash(&mut l);
    l.0.join(".")
}

fn sip<T: Hash>(v: &T) -> u64 {
    let mut h = std::collections::hash_map::DefaultHasher::new();
    v.hash(&mut h);
    h.finish()
}

fn ord(o: Ordering) -> char {
    match o {
        Ordering::Less => 'L',
        Ordering::Equal => 'E',
        Ordering::Greater => 'G',
    }
}

fn decode3(line: &str) -> Option<(Value, Value, Value)> {
    let line = line.to_string();
    std::panic::catch_unwind(move || {
        let t = toks(&line);
        assert_eq!(t[0], "m");
        assert_eq!(t[1], "|");
        let (a, r) = dec_value(&t[2..]);
        assert_eq!(r[0], "|");
        let (b, r) = dec_value(&r[1..]);
        assert_eq!(r[0], "|");
        let (c, r) = dec_value(&r[1..]);
        assert!(r.is_empty());
        (a, b, c)
    })
    .ok()
}

fn pair_obs<T: Ord + Hash + Clone>(a: &T, b: &T) -> String {
    let pc = match a.partial_cmp(b) {
        Some(o) => ord(o),
        None => '?',
    };
    let ops = [a < b, a <= b, a > b, a >= b, a != b];
    format!(
        "{}{}{}{}{}{}",
        (a == b) as u8,
        ord(a.cmp(b)),
        pc,
        ops.iter().map(|x| if *x { '1' } else { '0' }).collect::<String>(),
        (sip(a) == sip(b)) as u8,
        (stream(a) == stream(b)) as u8
    )
}

/// The observation on two values; when both are objects (arrays) the same operators applied to the `Object`s
/// (`Vec<Value>`s, entry slices) themselves must answer alike -- `Value`'s derived impls reach `Object::eq` and
/// `Object::cmp` only, never a hand-written `ne`, `lt`, `partial_cmp` .. of the inner type.
fn pv(a: &Value, b: &Value) -> String {
    let top = pair_obs(a, b);
    let inner = match (a, b) {
        (Value::Object(x), Value::Object(y)) => {
            let es = pair_obs(&x.entries().to_vec(), &y.entries().to_vec());
            let o = pair_obs(x, y);
            if o[..9] == es[..9] { Some(o) } else { Some(format!("{o}/entries:{es}")) }
        }
        (Value::Array(x), Value::Array(y)) => Some(pair_obs(x, y)),
        _ => None,
    };
    match inner {
        Some(i) if i[..9] != top[..9] => format!("{top}!INNER:{i}"),
        _ => top,
    }
}

pub fn eval(line: &str) -> String {
    if line.starts_with("hh ") {
        return eval_hist(line);
    }
    let Some((a, b, c)) = decode3(line) else { return format!("BADCASE {line}") };
    guarded(move || {
        let cl = a.clone();
        // `clone_from` into destinations of other shapes and sizes gives what `clone` gives
        let mut cf_ok = true;
        for dest in [&b, &c, &a, &Value::Null] {
            let mut x = dest.clone();
            x.clone_from(&a);
            cf_ok &= pair_obs(&a, &x) == pair_obs(&a, &cl) && stream(&x) == stream(&a) && value_str(&x) == value_str(&a);
            if let (Value::Object(oa), Value::Object(ox)) = (&a, &x) {
                cf_ok &= crate::object::index_consistent(ox) && oa.len() == ox.len();
            }
        }
        format!(
            "ab={} ba={} bc={} ac={} aa={} clone={} S={}{}",
            pv(&a, &b),
            pv(&b, &a),
            pv(&b, &c),
            pv(&a, &c),
            pv(&a, &a),
            pv(&a, &cl),
            stream(&a),
            if cf_ok { "" } else { " CLONE-FROM-DIFFERS" }
        )
    })
}

fn eval_hist(line: &str) -> String {
    let line = line.to_string();
    guarded(move || {
        let t = toks(&line);
        let slash = t.iter().position(|x| *x == "/").unwrap();
        let mut o1 = Object::new();
        for op in &t[2..slash] {
            crate::object::apply(&mut o1, op);
        }
        let mut o2 = Object::new();
        for op in &t[slash + 1..] {
            crate::object::apply(&mut o2, op);
        }
        let v1 = Value::Object(o1.clone());
        let v2 = Value::Object(o2.clone());
        let mut cf_ok = true;
        {
            let mut x = o2.clone();
            x.clone_from(&o1);
            cf_ok &= pair_obs(&o1, &x) == pair_obs(&o1, &o1.clone()) && crate::object::entries_str(&x) == crate::object::entries_str(&o1) && crate::object::index_consistent(&x);
            let mut y = v2.clone();
            y.clone_from(&v1);
            cf_ok &= pair_obs(&v1, &y) == pair_obs(&v1, &v1.clone());
        }
        format!(
            "E1={} E2={} obj={} val={} clone={} buckets_differ={}{}",
            crate::object::entries_str(&o1),
            crate::object::entries_str(&o2),
            pair_obs(&o1, &o2),
            pair_obs(&v1, &v2),
            pair_obs(&o1, &o1.clone()),
            (crate::object::buckets_str(&o1) != crate::object::buckets_str(&o2)) as u8,
            if cf_ok { "" } else { " CLONE-FROM-DIFFERS" }
        )
    })
}

/// A near copy: differs in one leaf, one key, one position, or one length.
fn near_copy(r: &mut Rng, v: &Value) -> Value {
    match v {
        Value::Array(a) if !a.is_empty() && r.chance(3, 4) => {
            let mut b = a.clone();
            // regrouping across a nesting boundary ([[1,2],3] vs [[1],2,3])
            if r.chance(1, 5) {
                if let Some(i) = b.iter().position(|x| matches!(x, Value::Array(_))) {
                    if let Value::Array(inner) = &a[i] {
                        let mut inner = inner.clone();
                        if i + 1 < b.len() && r.chance(1, 2) {
                            let moved = b.remove(i + 1);
                            inner.push(moved);
                        } else if let Some(moved) = inner.pop() {
                            b.insert(i + 1, moved);
                        }
                        b[i] = Value::Array(inner);
                        return Value::Array(b);
                    }
                }
            }
            match r.below(4) {
                0 => {
                    b.pop();
                }
                1 => {
                    let i = r.below(b.len());
                    let j = r.below(b.len());
                    b.swap(i, j);
                }
                2 => b.push(Value::Null),
                _ => {
                    let i = r.below(b.len());
                    b[i] = near_copy(r, &a[i]);
                }
            }
            Value::Array(b)
        }
        Value::Object(o) if !o.is_empty() && r.chance(3, 4) => {
            let mut es: Vec<json_syntax::object::Entry> = o.iter().cloned().collect();
            // regrouping: the same flattened sequence of keys and leaves, one entry moved across a
            // nesting boundary ({"a":{"b":1,"c":2}} vs {"a":{"b":1},"c":2})
            if r.chance(1, 4) {
                if let Some(i) = es.iter().position(|e| matches!(&e.value, Value::Object(_))) {
                    if let Value::Object(inner) = &es[i].value {
                        let mut inner_es: Vec<json_syntax::object::Entry> = inner.iter().cloned().collect();
                        if i + 1 < es.len() && r.chance(1, 2) {
                            let moved = es.remove(i + 1);
                            inner_es.push(moved);
                        } else if let Some(moved) = inner_es.pop() {
                            es.insert(i + 1, moved);
                        }
                        es[i].value = Value::Object(Object::from_vec(inner_es));
                        return Value::Object(Object::from_vec(es));
                    }
                }
            }
            match r.below(5) {
                0 => {
                    es.pop();
                }
                1 => {
                    let i = r.below(es.len());
                    let j = r.below(es.len());
                    es.swap(i, j);
                }
                2 => {
                    let i = r.below(es.len());
                    let mut k = es[i].key.as_str().to_string();
                    if r.chance(1, 2) {
                        k.push('\u{10000}')
                    } else {
                        k.push('\u{e000}')
                    }
                    es[i].key = k.as_str().into();
                }
                3 => {
                    // empty, number-like and mixed keys (orders on which numeric and lexical collation differ)
                    let i = r.below(es.len());
                    es[i].key = (*r.pick(&["", "9", "10", "1a", "01", "-1", "1e1", "A", "a"])).into();
                }
                _ => {
                    let i = r.below(es.len());
                    es[i].value = near_copy(r, &es[i].value);
                }
            }
            Value::Object(Object::from_vec(es))
        }
        Value::String(s) => {
            let mut t = s.as_str().to_string();
            match r.below(5) {
                4 if t.chars().any(|c| c.is_ascii_alphabetic()) => {
                    // the same text up to the case of one ASCII letter
                    let at: Vec<usize> = t.char_indices().filter(|(_, c)| c.is_ascii_alphabetic()).map(|(i, _)| i).collect();
                    let i = at[r.below(at.len())];
                    let c = t[i..].chars().next().unwrap();
                    let flipped = if c.is_ascii_lowercase() { c.to_ascii_uppercase() } else { c.to_ascii_lowercase() };
                    t.replace_range(i..i + 1, &flipped.to_string());
                }
                0 => t.push('\u{10000}'),
                1 => t.push('\u{ffff}'),
                2 => {
                    t.pop();
                }
                _ => t.insert(0, '\u{7f}'),
            }
            Value::String(t.as_str().into())
        }
        Value::Number(n) => {
            let mut t = n.as_str().to_string();
            // another spelling of the same quantity is another value: the case of the exponent marker, an
            // explicit sign or zero in the exponent, a fraction of zero, an exponent of zero
            match r.below(6) {
                0 | 1 if t.contains(['e', 'E']) => {
                    t = if r.chance(2, 3) {
                        t.chars().map(|c| if c == 'e' { 'E' } else if c == 'E' { 'e' } else { c }).collect()
                    } else if t.contains("e+") || t.contains("E+") {
                        t.replace('+', "")
                    } else {
                        t.replace('e', "e0").replace('E', "E0")
                    };
                }
                0 => t.push_str("e0"),
                1 => t.push_str("E0"),
                2 if !t.contains(['.', 'e', 'E']) => t.push_str(".0"),
                _ => t.push('0'),
            }
            match json_syntax::NumberBuf::new(t.into_bytes().into()) {
                Ok(m) if r.chance(1, 2) => Value::Number(m),
                _ => Value::Number(9u32.into()),
            }
        }
        Value::Null => Value::Boolean(false),
        Value::Boolean(b) => {
            if r.chance(1, 2) {
                Value::Boolean(!b)
            } else {
                Value::Null
            }
        }
        Value::Array(_) => Value::Object(Object::new()),
        Value::Object(_) => Value::Array(vec![]),
    }
}

pub fn generate(args: &Args, out: &mut Out) {
    let mut rng = Rng::new(args.seed);
    let full = args.thorough();
    // 1. all triples over a small set of values spanning every variant and the string order corner cases
    let small = [
        "n", "f", "t", "#30", "#31", "#31,30", "#2d,31", "$-", "$61", "$61,62", "$e000", "$10000", "$ffff", "$7f", "$80",
        "[ ]", "[ n ]", "[ n n ]", "[ [ ] ]", "{ }", "{ $61 n }", "{ $61 t }", "{ $62 n }", "{ $61 n $61 n }",
        "{ $e000 n }", "{ $10000 n }", "{ $61 { $62 n $63 n } }", "{ $61 { $62 n } $63 n }", "{ $61 { } $62 n }", "{ $61 { $62 n } }", "[ [ n n ] ]", "[ [ n ] n ]",
        "{ $39 n }", "{ $31,30 n }", "{ $31,61 n }", "$39", "$31,30", "$31,61", "#39",
        "#31,65,35", "#31,45,35", "#31,65,2b,35", "$41", "{ $41 n }", "[ #31,45,35 ]",
    ];
    let lim = if full { small.len() } else { 16 };
    for a in &small[..small.len()] {
        for b in &small[..small.len()] {
            for c in small.iter().take(lim) {
                out.case(|| format!("m | {a} | {b} | {c}"));
            }
        }
    }
    // 2. random values with near copies
    let n = if full { 300000 } else { 15000 };
    for _ in 0..n {
        let mut r = rng.fork();
        let mut s = String::new();
        let d = r.range(0, 4);
        crate::print::gen_value(&mut r, d, &mut s);
        let t: Vec<&str> = toks(&s);
        let (a, _) = dec_value(&t);
        let b = near_copy(&mut r, &a);
        let c = if r.chance(1, 2) { near_copy(&mut r, &b) } else { near_copy(&mut r, &a) };
        out.case_str(&format!("m | {} | {} | {}", s, value_str(&b), value_str(&c)));
    }
    // 3. pairs of histories reaching the same entries by different routes
    let nh = if full { 30000 } else { 2500 };
    for _ in 0..nh {
        let mut r = rng.fork();
        let nk = 5;
        let mut ops: Vec<String> = vec![];
        for _ in 0..r.range(1, 14) {
            let k = r.below(nk);
            let v = r.below(4);
            ops.push(match r.below(10) {
                0..=3 => format!("push:{k}:{v}"),
                4 => format!("pushf:{k}:{v}"),
                5 => format!("ins:{k}:{v}:*"),
                6 => format!("insf:{k}:{v}:0"),
                7 => format!("rm:{k}:1"),
                8 => format!("rmat:{}", r.below(6)),
                _ => "sort".into(),
            });
        }
        // route 2: rebuild the final entries in one go
        let ops2 = ops.clone();
        let o = match std::panic::catch_unwind(move || {
            let mut o = Object::new();
            for op in &ops2 {
                crate::object::apply(&mut o, op);
            }
            o
        }) {
            Ok(o) => o,
            Err(_) => {
                // only on a broken tree: let the guarded evaluation of this history report it
                out.case_str(&format!("hh {nk} {} / {}", ops.join(" "), ops.join(" ")));
                continue;
            }
        };
        let pairs: Vec<String> = o
            .iter()
            .map(|e| format!("{}={}", e.key.as_str().trim_start_matches('k').parse::<usize>().unwrap(), match &e.value {
                Value::Number(n) => n.as_str().to_string(),
                _ => "0".into(),
            }))
            .collect();
        let l = if pairs.is_empty() { "-".to_string() } else { pairs.join(",") };
        out.case_str(&format!("hh {nk} {} / fromvec:{l}", ops.join(" ")));
        // route 3: push in reverse to the front
        let rev: Vec<String> = pairs.iter().rev().map(|p| format!("pushf:{}", p.replace('=', ":"))).collect();
        out.case_str(&format!("hh {nk} {} / reset {}", ops.join(" "), rev.join(" ")));
        // and against a different history (usually different entries)
        out.case_str(&format!("hh {nk} {} / {} push:0:0", ops.join(" "), ops.join(" ")));
    }
}
