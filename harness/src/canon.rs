//! C09 / C10: RFC 8785 canonicalization.  Case lines: `k | <value>` (canonical bytes),
//! `kk | <value a> | <value b>` (two spellings of one document), `kn <hex number>` (one number).
use crate::common::*;
use json_syntax::{Object, Parse, Print, Value};

fn decode1(line: &str) -> Option<Value> {
    let line = line.to_string();
    std::panic::catch_unwind(move || {
        let t = toks(&line);
        assert_eq!(t[1], "|");
        let (a, r) = dec_value(&t[2..]);
        assert!(r.is_empty());
        a
    })
    .ok()
}
fn decode2(line: &str) -> Option<(Value, Value)> {
    let line = line.to_string();
    std::panic::catch_unwind(move || {
        let t = toks(&line);
        assert_eq!(t[1], "|");
        let (a, r) = dec_value(&t[2..]);
        assert_eq!(r[0], "|");
        let (b, r2) = dec_value(&r[1..]);
        assert!(r2.is_empty());
        (a, b)
    })
    .ok()
}

fn canon_text(v: &Value) -> String {
    let mut c = v.clone();
    c.canonicalize();
    c.compact_print().to_string()
}

/// After canonicalization every object must still answer key queries as a scan would, and
/// its index buckets must be consistent (positions of each key, ascending).
fn index_ok(v: &Value) -> bool {
    match v {
        Value::Array(a) => a.iter().all(index_ok),
        Value::Object(o) => {
            let es = o.entries();
            let mut ok = true;
            for e in es {
                let k = e.key.as_str();
                let scan: Vec<usize> = es.iter().enumerate().filter(|(_, x)| x.key.as_str() == k).map(|(i, _)| i).collect();
                let idx: Vec<usize> = o.indexes_of(k).collect();
                ok &= scan == idx;
                ok &= o.get(k).count() == scan.len();
                ok &= o.index_of(k) == scan.first().copied();
            }
            ok &= !o.contains_key("\u{1}absent");
            let mut dump = o.verif_index_dump();
            dump.sort();
            let mut seen = vec![false; es.len()];
            for (rep, other) in dump {
                let mut prev = rep;
                if rep >= es.len() {
                    return false;
                }
                seen[rep] = true;
                for i in other {
                    ok &= i > prev && i < es.len() && es[i].key == es[rep].key;
                    if i < es.len() {
                        seen[i] = true;
                    }
                    prev = i;
                }
            }
            ok && seen.iter().all(|x| *x) && es.iter().all(|e| index_ok(&e.value))
        }
        _ => true,
    }
}


/// `ke | <object value> | <ops>`: canonicalize, edit the root object, canonicalize again.
/// ops (space separated): `pf:<hexkey>:<hexnum>` push_front, `pb:` push, `in:` insert,
/// `if:` insert_front, `rm:<hexkey>` remove, `ra:<i>` remove_at, `st` sort, `cl` clone-and-replace,
/// `cn` canonicalize in between.  A value's canonical form may not depend on its history.
fn apply_edit(o: &mut Object, op: &str) {
    let p: Vec<&str> = op.split(':').collect();
    // a number spelling, or `o<number spelling>`: the unsorted object {"z": n, "a": [n]} holding it twice
    let num = |h: &str| {
        let n = |h: &str| Value::Number(json_syntax::NumberBuf::new(parse_hex_string(h).into_bytes().into()).unwrap());
        match h.strip_prefix('o') {
            Some(h) => {
                let mut inner = Object::new();
                inner.push("z".into(), n(h));
                inner.push("a".into(), Value::Array(vec![n(h)]));
                Value::Object(inner)
            }
            None => n(h),
        }
    };
    match p[0] {
        "pf" => {
            o.push_front(parse_hex_string(p[1]).as_str().into(), num(p[2]));
        }
        "pb" => {
            o.push(parse_hex_string(p[1]).as_str().into(), num(p[2]));
        }
        "in" => {
            if let Some(it) = o.insert(parse_hex_string(p[1]).as_str().into(), num(p[2])) {
                drop(it);
            }
        }
        "if" => {
            drop(o.insert_front(parse_hex_string(p[1]).as_str().into(), num(p[2])));
        }
        "rm" => {
            let k = parse_hex_string(p[1]);
            drop(o.remove(k.as_str()));
        }
        "ra" => {
            o.remove_at(p[1].parse().unwrap());
        }
        "st" => o.sort(),
        "cl" => {
            let c = o.clone();
            *o = c;
        }
        "cn" => o.canonicalize(),
        _ => panic!("bad edit"),
    }
}

fn eval_ke(line: &str) -> String {
    let line = line.to_string();
    let dec = std::panic::catch_unwind(move || {
        let t = toks(&line);
        assert_eq!(t[1], "|");
        let (a, r) = dec_value(&t[2..]);
        assert_eq!(r[0], "|");
        let ops: Vec<String> = r[1..].iter().map(|x| x.to_string()).collect();
        // malformed operations (a shrinking candidate) are a bad case, not an implementation fault
        for op in &ops {
            let p: Vec<&str> = op.split(':').collect();
            match p[0] {
                "pf" | "pb" | "in" | "if" => {
                    assert!(p.len() == 3);
                    assert!(json_syntax::NumberBuf::new(parse_hex_string(p[2].strip_prefix('o').unwrap_or(p[2])).into_bytes().into()).is_ok());
                }
                "rm" => assert!(p.len() == 2),
                "ra" => assert!(p.len() == 2 && p[1].parse::<usize>().is_ok()),
                "st" | "cl" | "cn" => assert!(p.len() == 1),
                _ => panic!("bad op"),
            }
        }
        (a, ops)
    });
    let Ok((v, ops)) = dec else { return "BADCASE ke".into() };
    guarded(move || {
        let mut v = v;
        v.canonicalize();
        if let Value::Object(o) = &mut v {
            for op in &ops {
                apply_edit(o, op);
            }
        }
        let edited = value_str(&v);
        v.canonicalize();
        format!("{} index={} edited={}", hex_str(&v.compact_print().to_string()), index_ok(&v) as u8, edited)
    })
}


// ---- documents: two spellings of one value (white space, escapes, order, number spelling) ----
/// Writes `v` as JSON text.  `fancy`: random white space, every string character written raw or
/// as a `\uXXXX` escape (a surrogate pair beyond the BMP) or as its short escape, upper/lower
/// case hex digits; otherwise the minimal raw spelling.
fn spell_string(r: &mut Rng, s: &str, fancy: bool, out: &mut String) {
    out.push('"');
    for c in s.chars() {
        let must = c == '"' || c == '\\' || (c as u32) < 0x20;
        let choice = if fancy { r.below(3) } else { 0 };
        let short = match c {
            '"' => Some("\\\""),
            '\\' => Some("\\\\"),
            '/' => Some("\\/"),
            '\u{8}' => Some("\\b"),
            '\u{c}' => Some("\\f"),
            '\n' => Some("\\n"),
            '\r' => Some("\\r"),
            '\t' => Some("\\t"),
            _ => None,
        };
        if (must || choice == 1) && short.is_some() && (must || c != '/' || fancy) && (choice != 2) {
            out.push_str(short.unwrap());
        } else if must || choice == 2 {
            let mut units = [0u16; 2];
            for u in c.encode_utf16(&mut units) {
                if fancy && r.chance(1, 2) {
                    out.push_str(&format!("\\u{:04X}", u));
                } else {
                    out.push_str(&format!("\\u{:04x}", u));
                }
            }
        } else {
            out.push(c);
        }
    }
    out.push('"');
}
fn ws(r: &mut Rng, fancy: bool, out: &mut String) {
    if fancy && r.chance(1, 2) {
        for _ in 0..r.range(1, 3) {
            out.push(*r.pick(&[' ', '\n', '\t', '\r']));
        }
    }
}
fn spell_value(r: &mut Rng, v: &Value, fancy: bool, out: &mut String) {
    match v {
        Value::Null => out.push_str("null"),
        Value::Boolean(b) => out.push_str(if *b { "true" } else { "false" }),
        Value::Number(n) => out.push_str(n.as_str()),
        Value::String(s) => spell_string(r, s, fancy, out),
        Value::Array(a) => {
            out.push('[');
            ws(r, fancy, out);
            for (i, x) in a.iter().enumerate() {
                if i > 0 {
                    out.push(',');
                    ws(r, fancy, out);
                }
                spell_value(r, x, fancy, out);
                ws(r, fancy, out);
            }
            out.push(']');
        }
        Value::Object(o) => {
            out.push('{');
            ws(r, fancy, out);
            for (i, e) in o.iter().enumerate() {
                if i > 0 {
                    out.push(',');
                    ws(r, fancy, out);
                }
                spell_string(r, e.key.as_str(), fancy, out);
                ws(r, fancy, out);
                out.push(':');
                ws(r, fancy, out);
                spell_value(r, &e.value, fancy, out);
                ws(r, fancy, out);
            }
            out.push('}');
        }
    }
}

/// `kd | <hex text a> | <hex text b>`: both documents are parsed, canonicalized and printed.
fn eval_kd(line: &str) -> String {
    let t = toks(line);
    if t.len() != 5 || t[1] != "|" || t[3] != "|" {
        return "BADCASE kd".into();
    }
    let (a, b) = (parse_hex_string(t[2]), parse_hex_string(t[4]));
    guarded(move || {
        let canon = |s: &str| -> Option<String> {
            let (mut v, _) = Value::parse_str(s).ok()?;
            v.canonicalize();
            Some(v.compact_print().to_string())
        };
        match (canon(&a), canon(&b)) {
            (Some(x), Some(y)) => format!("same={} a={}", (x == y) as u8, hex_str(&x)),
            _ => "REJECTED".into(),
        }
    })
}

pub fn eval_c09(line: &str) -> String {
    if line.starts_with("ke ") {
        return eval_ke(line);
    }
    if line.starts_with("kn ") {
        let t = toks(line);
        let s = parse_hex_string(t[1]);
        return guarded(move || match json_syntax::NumberBuf::new(s.clone().into_bytes().into()) {
            Ok(n) => {
                let mut v = Value::Number(n);
                v.canonicalize();
                hex_str(&v.compact_print().to_string())
            }
            Err(_) => "BADCASE invalid number".into(),
        });
    }
    let Some(v) = decode1(line) else { return format!("BADCASE {line}") };
    guarded(move || hex_str(&canon_text(&v)))
}

pub fn eval_c10(line: &str) -> String {
    if line.starts_with("ke ") {
        return eval_ke(line);
    }
    if line.starts_with("kd ") {
        return eval_kd(line);
    }
    if line.starts_with("k ") {
        let Some(v) = decode1(line) else { return format!("BADCASE {line}") };
        return guarded(move || {
            let mut once = v.clone();
            once.canonicalize();
            let mut twice = once.clone();
            twice.canonicalize();
            let mut ob = v.clone();
            if let Value::Object(o) = &mut ob {
                o.canonicalize(); // Object::canonicalize entry point
            } else {
                ob.canonicalize();
            }
            format!(
                "idem={} objentry={} index={} canon={}",
                (once == twice) as u8,
                (ob == once) as u8,
                index_ok(&once) as u8,
                value_str(&once)
            )
        });
    }
    let Some((a, b)) = decode2(line) else { return format!("BADCASE {line}") };
    guarded(move || {
        let ta = canon_text(&a);
        let tb = canon_text(&b);
        format!("same={} a={}", (ta == tb) as u8, hex_str(&ta))
    })
}

// ------------------------------------------------------------------ generators
/// Minimal non-negative big integer (base 10^9) for exact decimal expansions.
struct Big(Vec<u32>);
impl Big {
    fn from_u64(x: u64) -> Big {
        let mut v = vec![];
        let mut x = x;
        while x > 0 {
            v.push((x % 1_000_000_000) as u32);
            x /= 1_000_000_000;
        }
        Big(v)
    }
    fn mul_small(&mut self, k: u32) {
        let mut carry = 0u64;
        for d in self.0.iter_mut() {
            let t = *d as u64 * k as u64 + carry;
            *d = (t % 1_000_000_000) as u32;
            carry = t / 1_000_000_000;
        }
        if carry > 0 {
            self.0.push(carry as u32);
        }
    }
    fn to_decimal(&self) -> String {
        if self.0.is_empty() {
            return "0".into();
        }
        let mut s = format!("{}", self.0[self.0.len() - 1]);
        for d in self.0.iter().rev().skip(1) {
            s.push_str(&format!("{:09}", d));
        }
        s
    }
}
/// Keys longer than the inline capacity of a key (16 bytes) that agree on a long prefix, with the
/// difference at unit 16, 17, 32, 33, and with a supplementary-plane character straddling unit 16.
fn long_key_pool() -> Vec<String> {
    let mut v = vec![];
    for n in [7usize, 8, 15, 16, 17, 31, 32, 33] {
        let p: String = (0..n).map(|i| (b'a' + (i % 26) as u8) as char).collect();
        v.push(format!("{p}b"));
        v.push(format!("{p}a"));
        v.push(p.clone());
        v.push(format!("{p}\u{10000}"));
        v.push(format!("{p}\u{e000}"));
    }
    v.push("transaction_amount_net".into());
    v.push("transaction_amount_gross".into());
    v
}

fn key_pool() -> Vec<String> {
    // the region where UTF-16 and code point order disagree, plus ordinary keys
    ["", "a", "b", "aa", "A", "\u{e000}", "\u{ffff}", "\u{10000}", "\u{10ffff}", "\u{d7ff}", "\u{e000}\u{10000}", "\u{10000}a", "a\u{e000}", "a\u{1f600}", "\u{fffd}", "z", "é", "\u{20ac}", "1", "10", "\r", "\u{80}"]
        .iter()
        .map(|s| s.to_string())
        .collect()
}

pub fn gen_decimal(r: &mut Rng) -> String {
    let mut s = String::new();
    if r.chance(1, 4) {
        s.push('-');
    }
    match r.below(8) {
        0 => {
            // long significand
            let nd = r.range(17, 30);
            s.push((b'1' + r.below(9) as u8) as char);
            if r.chance(1, 2) {
                s.push('.');
            }
            for _ in 0..nd {
                s.push((b'0' + r.below(10) as u8) as char);
            }
            if s.ends_with('.') {
                s.push('0');
            }
            s.push_str(&format!("e{}", r.range(0, 600) as i64 - 320));
        }
        1 => {
            // around the notation thresholds
            let e = *r.pick(&[20i64, 21, 22, -5, -6, -7, -8, 0, 1]);
            let m = *r.pick(&["1", "9.999999999999999", "1.0000000000000002", "123456789", "5", "0.1"]);
            s.push_str(&format!("{m}e{e}"));
        }
        2 => {
            // subnormals and the ends of the range
            s.push_str(*r.pick(&["5e-324", "4.9e-324", "2.4703282292062328e-324", "2.47032822920623272e-324", "2.225073858507201e-308", "2.2250738585072014e-308", "1.7976931348623157e308", "1.7976931348623158e308", "1e-320", "3e-324"]));
        }
        3 => {
            // integers around 2^53 and beyond
            let base: u128 = *r.pick(&[9007199254740992u128, 9007199254740993, 18446744073709551615, 18446744073709551616, 1u128 << 100, 999999999999999999999, 1000000000000000000000, 1000000000000000000001]);
            s.push_str(&(base + r.below(4) as u128).to_string());
        }
        4 => {
            // halfway constructions: the exact midpoint between a double and its successor,
            // spelt exactly, or nudged by one unit in the last digit
            let bits = r.next() % 0x7fe0_0000_0000_0000;
            let ex = (bits >> 52) as i64;
            let fr = bits & ((1u64 << 52) - 1);
            let (m, e) = if ex == 0 { (fr, -1074i64) } else { (fr | (1u64 << 52), ex - 1075) };
            // midpoint = (2m + 1) * 2^(e - 1)
            let mut big = Big::from_u64(2 * m + 1);
            let e1 = e - 1;
            let mut e10 = 0i64;
            if e1 >= 0 {
                for _ in 0..e1 {
                    big.mul_small(2);
                }
            } else {
                for _ in 0..(-e1) {
                    big.mul_small(5);
                }
                e10 = e1;
            }
            let mut digits = big.to_decimal();
            match r.below(3) {
                0 => (),
                1 => {
                    digits.push('1');
                    e10 -= 1;
                }
                _ => {
                    // just below: decrement the last digit (it is never 0 for an odd multiple of a power of 5 or 2... keep safe)
                    let last = digits.pop().unwrap();
                    if last > '0' {
                        digits.push((last as u8 - 1) as char);
                        digits.push('9');
                        e10 -= 1;
                    } else {
                        digits.push(last);
                    }
                }
            }
            s.push_str(&digits);
            if e10 != 0 {
                s.push_str(&format!("e{e10}"));
            }
        }
        5 => {
            s.push_str(*r.pick(&["0", "0.0", "0e0", "0.000", "0E+5", "0e-400", "1e-400", "1E400"]));
        }
        _ => crate::parse::gen_number(r, &mut s),
    }
    // strip a leading "--"
    if s.starts_with("--") {
        s.remove(0);
    }
    s
}

/// A valid JSON number inside the IEEE-754 double range (the I-JSON domain).
fn valid_number(s: &str) -> bool {
    json_syntax::NumberBuf::new(s.as_bytes().to_vec().into()).is_ok() && s.parse::<f64>().map(|f| f.is_finite()).unwrap_or(false)
}

fn gen_ijson(r: &mut Rng, depth: usize, out: &mut String) {
    let leaf = depth == 0 || r.chance(2, 5);
    if leaf {
        match r.below(6) {
            0 => out.push('n'),
            1 => out.push(*r.pick(&['t', 'f'])),
            2 => {
                out.push('$');
                out.push_str(&crate::print::gen_cps(r));
            }
            _ => {
                let mut d = gen_decimal(r);
                if !valid_number(&d) {
                    d = "1".into();
                }
                // keep inside the double range (I-JSON)
                let f: f64 = d.parse().unwrap_or(0.0);
                if !f.is_finite() {
                    d = "1e308".into();
                }
                out.push('#');
                out.push_str(&hex_str(&d));
            }
        }
    } else if r.chance(1, 3) {
        out.push('[');
        for _ in 0..r.below(4) {
            out.push(' ');
            gen_ijson(r, depth - 1, out);
        }
        out.push_str(" ]");
    } else {
        out.push('{');
        let pool = key_pool();
        let mut used: Vec<usize> = vec![];
        for _ in 0..r.below(6) {
            let k = r.below(pool.len());
            if used.contains(&k) {
                continue;
            }
            used.push(k);
            out.push_str(" $");
            out.push_str(&hex_str(&pool[k]));
            out.push(' ');
            gen_ijson(r, depth - 1, out);
        }
        out.push_str(" }");
    }
}

fn permutations(n: usize) -> Vec<Vec<usize>> {
    if n == 0 {
        return vec![vec![]];
    }
    let mut out = vec![];
    for p in permutations(n - 1) {
        for i in 0..n {
            let mut q = p.clone();
            q.insert(i, n - 1);
            out.push(q);
        }
    }
    out
}

const RFC_NUMBERS: [&str; 30] = [
    "0", "-0", "5e-324", "-5e-324", "1.7976931348623157e308", "-1.7976931348623157e308", "9007199254740992", "-9007199254740992",
    "295147905179352830000", "9.999999999999997e22", "1e23", "1.0000000000000001e23", "999999999999999700000", "999999999999999900000",
    "1e21", "9.999999999999997e-7", "0.000001", "333333333.3333332", "333333333.33333325", "333333333.3333333", "333333333.3333334",
    "333333333.33333343", "-0.0000033333333333333333", "1424953923781206.2", "4.14673952822385274921803532e91", "0.00000000001",
    "1E30", "4.50", "2e-3", "0.000000000000000000000000001",
];


/// canonicalize / edit / canonicalize histories on objects (root object edited between two
/// canonicalizations; fresh keys for pushes so the value stays I-JSON)
fn gen_histories(out: &mut Out, rng: &mut Rng, n: usize) {
    let pool = key_pool();
    for _ in 0..n {
        let mut r = rng.fork();
        let m = r.range(0, 5);
        let mut ks: Vec<usize> = vec![];
        while ks.len() < m {
            let k = r.below(pool.len());
            if !ks.contains(&k) {
                ks.push(k);
            }
        }
        let ents: Vec<String> = ks
            .iter()
            .enumerate()
            .map(|(i, k)| {
                if i == 1 && r.chance(1, 3) {
                    format!("${} {{ $7a #31 $61 [ #32 ] }}", hex_str(&pool[*k]))
                } else {
                    format!("${} #{}", hex_str(&pool[*k]), hex_str(&format!("{}.0", i)))
                }
            })
            .collect();
        let obj = if ents.is_empty() { "{ }".to_string() } else { format!("{{ {} }}", ents.join(" ")) };
        let mut ops: Vec<String> = vec![];
        let mut fresh = 0usize;
        let mut len = m;
        for _ in 0..r.range(1, 5) {
            let existing = if ks.is_empty() { None } else { Some(hex_str(&pool[*r.pick(&ks)])) };
            let newkey = |fresh: &mut usize, r: &mut Rng| {
                *fresh += 1;
                // fresh keys that sort before, between and after the pool keys
                let c = *r.pick(&["", "0", "M", "z", "\u{e001}", "\u{10001}"]);
                hex_str(&format!("{c}n{fresh}"))
            };
            let op = match r.below(10) {
                0 | 1 | 2 => {
                    len += 1;
                    format!("pf:{}:{}{}", newkey(&mut fresh, &mut r), if r.chance(1, 4) { "o" } else { "" }, hex_str(*r.pick(&["7", "7.0", "70e-1"])))
                }
                3 | 4 => {
                    len += 1;
                    format!("pb:{}:{}", newkey(&mut fresh, &mut r), hex_str("1e1"))
                }
                5 => match &existing {
                    // replacing the value of an existing key by one that is not in canonical form
                    Some(k) => format!("in:{}:{}{}", k, if r.chance(1, 3) { "o" } else { "" }, hex_str(*r.pick(&["0.5", "1.0E2", "0.50", "1e1", "-0.0", "100"]))),
                    None => "st".into(),
                },
                6 => {
                    len += 1;
                    format!("if:{}:{}", newkey(&mut fresh, &mut r), hex_str("-0"))
                }
                7 => match &existing {
                    Some(k) => format!("rm:{}", k),
                    None => "cl".into(),
                },
                8 if len > 0 => {
                    len -= 1;
                    format!("ra:{}", r.below(len + 1))
                }
                _ => (*r.pick(&["cn", "st", "cl"])).to_string(),
            };
            ops.push(op);
        }
        out.case_str(&format!("ke | {} | {}", obj, ops.join(" ")));
    }
}

pub fn generate_c09(args: &Args, out: &mut Out) {
    let mut rng = Rng::new(args.seed);
    let full = args.thorough();
    gen_histories(out, &mut rng, if full { 3000 } else { 600 });
    for n in RFC_NUMBERS {
        out.case(|| format!("kn {}", hex_str(n)));
    }
    // numbers
    let nn = if full { 50000 } else { 5000 };
    for _ in 0..nn {
        let mut r = rng.fork();
        let d = gen_decimal(&mut r);
        if valid_number(&d) {
            out.case_str(&format!("kn {}", hex_str(&d)));
        }
    }
    // keys: every permutation of up to 5 members drawn from the critical pool
    let pool = key_pool();
    let sets = if full { 150 } else { 60 };
    for _ in 0..sets {
        let mut r = rng.fork();
        let n = r.range(2, if full { 5 } else { 4 });
        let mut ks: Vec<usize> = vec![];
        while ks.len() < n {
            let k = r.below(pool.len());
            if !ks.contains(&k) {
                ks.push(k);
            }
        }
        for p in permutations(n) {
            let ents: Vec<String> = p.iter().map(|i| format!("${} #{}", hex_str(&pool[ks[*i]]), hex_str(&i.to_string()))).collect();
            out.case_str(&format!("k | {{ {} }}", ents.join(" ")));
        }
    }
    // minimal escaping: every character up to U+00FF and the block boundaries, as a key and as a
    // string value (alone, and after/before an ordinary character)
    let mut cs: Vec<u32> = (0..0x100).collect();
    cs.extend([0x2028u32, 0x2029, 0xd7ff, 0xe000, 0xfeff, 0xfffd, 0xfffe, 0xffff, 0x10000, 0x1f600, 0x10ffff]);
    for c in cs {
        out.case(|| format!("k | {{ ${c:x} ${c:x} }}"));
        out.case(|| format!("k | [ $61,{c:x},62 ]"));
    }
    // long keys sharing a prefix, in every rotation of a few subsets
    {
        let lp = long_key_pool();
        for start in 0..lp.len() {
            for n in [2usize, 3, 5] {
                let ks: Vec<&String> = (0..n).map(|i| &lp[(start + i * 7) % lp.len()]).collect();
                let mut seen: Vec<&String> = vec![];
                let ents: Vec<String> = ks
                    .iter()
                    .filter(|k| {
                        if seen.contains(k) {
                            false
                        } else {
                            seen.push(k);
                            true
                        }
                    })
                    .enumerate()
                    .map(|(i, k)| format!("${} #{}", hex_str(k), hex_str(&i.to_string())))
                    .collect();
                out.case_str(&format!("k | {{ {} }}", ents.join(" ")));
            }
        }
    }
    // whole documents
    let nd = if full { 8000 } else { 1500 };
    for _ in 0..nd {
        let mut r = rng.fork();
        let mut s = String::new();
        let d = r.range(1, 5);
        gen_ijson(&mut r, d, &mut s);
        out.case_str(&format!("k | {s}"));
    }
}

/// An exact respelling of a decimal: exponent shifting, trailing zeros, E/e/+, leading zeros in the exponent.
fn respell(r: &mut Rng, d: &str) -> String {
    // split into sign, int, frac, exp
    let (neg, rest) = match d.strip_prefix('-') {
        Some(x) => (true, x),
        None => (false, d),
    };
    let (mant, exp) = match rest.find(['e', 'E']) {
        Some(i) => (&rest[..i], rest[i + 1..].parse::<i64>().unwrap_or(0)),
        None => (rest, 0),
    };
    let (ip, fp) = match mant.split_once('.') {
        Some((a, b)) => (a.to_string(), b.to_string()),
        None => (mant.to_string(), String::new()),
    };
    let mut digits = format!("{ip}{fp}");
    let mut e10 = exp - fp.len() as i64;
    // trailing zeros <-> exponent
    for _ in 0..r.below(4) {
        digits.push('0');
        e10 -= 1;
    }
    let digits = digits.trim_start_matches('0');
    let digits = if digits.is_empty() { "0" } else { digits };
    // place the decimal point somewhere
    let cut = r.range(1, digits.len());
    let (a, b) = digits.split_at(cut);
    let e_out = e10 + b.len() as i64;
    let mut s = String::new();
    if neg {
        s.push('-');
    }
    s.push_str(a);
    if !b.is_empty() {
        s.push('.');
        s.push_str(b);
    }
    if e_out != 0 || r.chance(1, 3) {
        s.push(*r.pick(&['e', 'E']));
        if e_out >= 0 && r.chance(1, 2) {
            s.push('+');
        }
        if e_out < 0 {
            s.push('-');
        }
        if r.chance(1, 4) {
            s.push('0');
        }
        s.push_str(&e_out.abs().to_string());
    }
    s
}

fn respell_value(r: &mut Rng, v: &Value) -> Value {
    match v {
        Value::Number(n) => {
            let s = respell(r, n.as_str());
            match json_syntax::NumberBuf::new(s.into_bytes().into()) {
                Ok(m) => Value::Number(m),
                Err(_) => v.clone(),
            }
        }
        Value::Array(a) => Value::Array(a.iter().map(|x| respell_value(r, x)).collect()),
        Value::Object(o) => {
            let mut es: Vec<json_syntax::object::Entry> =
                o.iter().map(|e| json_syntax::object::Entry::new(e.key.clone(), respell_value(r, &e.value))).collect();
            for i in (1..es.len()).rev() {
                let j = r.below(i + 1);
                es.swap(i, j);
            }
            Value::Object(Object::from_vec(es))
        }
        other => other.clone(),
    }
}

pub fn generate_c10(args: &Args, out: &mut Out) {
    let mut rng = Rng::new(args.seed ^ 0xC10);
    let full = args.thorough();
    gen_histories(out, &mut rng, if full { 3000 } else { 600 });
    // documents that differ only in white space, escapes, member order and number spelling
    for _ in 0..(if full { 4000 } else { 700 }) {
        let mut r = rng.fork();
        let mut s = String::new();
        let d = r.range(1, 4);
        gen_ijson(&mut r, d, &mut s);
        let t: Vec<&str> = toks(&s);
        let (v, _) = dec_value(&t);
        let w = respell_value(&mut r, &v);
        let (mut a, mut b) = (String::new(), String::new());
        spell_value(&mut r, &v, false, &mut a);
        spell_value(&mut r, &w, true, &mut b);
        out.case_str(&format!("kd | {} | {}", hex_str(&a), hex_str(&b)));
    }
    // every supplementary plane and the BMP edges as escaped vs raw member names and values
    for cp in [0x1_0000u32, 0x1_F600, 0x2_0000, 0x2_FFFF, 0x4_0000, 0x8_0000, 0xF_FFFF, 0x10_0000, 0x10_FFFF, 0xD7FF, 0xE000, 0xFFFF, 0x7F, 0x80, 0x2028] {
        let c = char::from_u32(cp).unwrap();
        let mut units = [0u16; 2];
        let esc: String = c.encode_utf16(&mut units).iter().map(|u| format!("\\u{:04x}", u)).collect();
        let a = format!("{{\"{c}\":\"{c}\",\"a\":1}}");
        let b = format!("{{ \"a\" : 1.0 , \"{esc}\" : \"{esc}\" }}");
        out.case_str(&format!("kd | {} | {}", hex_str(&a), hex_str(&b)));
    }
    let nd = if full { 6000 } else { 1000 };
    for _ in 0..nd {
        let mut r = rng.fork();
        let mut s = String::new();
        let d = r.range(1, 5);
        gen_ijson(&mut r, d, &mut s);
        out.case_str(&format!("k | {s}"));
        let t: Vec<&str> = toks(&s);
        let (v, _) = dec_value(&t);
        let w = respell_value(&mut r, &v);
        out.case_str(&format!("kk | {} | {}", s, value_str(&w)));
    }
    // every permutation of small objects, nested
    let pool = key_pool();
    for _ in 0..(if full { 120 } else { 40 }) {
        let mut r = rng.fork();
        let n = r.range(2, if full { 5 } else { 4 });
        let mut ks: Vec<usize> = vec![];
        while ks.len() < n {
            let k = r.below(pool.len());
            if !ks.contains(&k) {
                ks.push(k);
            }
        }
        let base: Vec<String> = (0..n).map(|i| format!("${} [ {{ $61 #31 $62 #32 }} #{} ]", hex_str(&pool[ks[i]]), hex_str(&format!("{}.50", i)))).collect();
        let a = format!("{{ {} }}", base.join(" "));
        for p in permutations(n) {
            let ents: Vec<String> = p.iter().map(|i| format!("${} [ {{ $62 #32 $61 #31 }} #{} ]", hex_str(&pool[ks[*i]]), hex_str(&format!("{}.5e0", i)))).collect();
            out.case_str(&format!("kk | {} | {{ {} }}", a, ents.join(" ")));
        }
    }
    // repeated member names (outside I-JSON, inside this property): same-named members are ordered by
    // their canonical values, so the values' source spelling and inner member order must not matter
    let dup_vals: Vec<String> = {
        let n = |s: &str| format!("#{}", hex_str(s));
        vec![
            n("0.2e2"), n("100"), n("20"), n("1.0E2"), n("2e1"), n("9"), n("0.9e1"), n("10.0"), n("-0"), n("0"),
            format!("{{ $7a {} $61 {} }}", n("1.50"), n("2")),
            format!("{{ $61 {} $7a {} }}", n("2.0"), n("15e-1")),
            format!("{{ $61 {} $61 {} }}", n("1e1"), n("9")),
            format!("[ {} ]", n("1e0")),
            format!("[ {} ]", n("0.5")),
            // values one of which is, once canonical, a proper beginning of the other
            "{ }".into(),
            format!("{{ $61 {} }}", n("1")),
            format!("{{ $62 {} $61 {} }}", n("2"), n("1.0")),
            format!("{{ $61 {} $62 {} $63 n }}", n("1e0"), n("2")),
            "[ ]".into(),
            format!("[ {} {} ]", n("1e0"), n("2")),
            format!("[ {} {} n ]", n("1"), n("2.0")),
            "n".into(),
            "$61".into(),
        ]
    };
    for _ in 0..(if full { 8000 } else { 1200 }) {
        let mut r = rng.fork();
        let names = ["$61", "$62", "$-", "$1f600"];
        let n = r.range(2, 6);
        let ents: Vec<String> = (0..n)
            .map(|_| {
                let m = 2 + r.below(3);
                format!("{} {}", names[r.below(m)], r.pick(&dup_vals))
            })
            .collect();
        let s = format!("{{ {} }}", ents.join(" "));
        let s = if r.chance(1, 4) { format!("[ {s} {{ $6b {s} }} ]") } else { s };
        out.case_str(&format!("k | {s}"));
        let t: Vec<&str> = toks(&s);
        let (v, _) = dec_value(&t);
        let w = respell_value(&mut r, &v);
        out.case_str(&format!("kk | {} | {}", s, value_str(&w)));
        let w2 = respell_value(&mut r, &w);
        out.case_str(&format!("kk | {} | {}", value_str(&w), value_str(&w2)));
    }
    // the same under 120..140 levels of arrays and one-member objects (a canonicalization that changes method
    // beyond some depth has to agree with itself above it)
    for _ in 0..(if full { 400 } else { 60 }) {
        let mut r = rng.fork();
        let n = r.range(2, 4);
        let ents: Vec<String> = (0..n).map(|_| format!("$61 {}", r.pick(&dup_vals))).collect();
        let mut s = format!("{{ {} $62 #{} }}", ents.join(" "), hex_str("1.50"));
        let depth = *r.pick(&[1usize, 100, 126, 127, 128, 129, 140]);
        for _ in 0..depth {
            s = if r.chance(1, 2) { format!("[ {s} ]") } else { format!("{{ $6b {s} }}") };
        }
        out.case_str(&format!("k | {s}"));
        let t: Vec<&str> = toks(&s);
        let (v, _) = dec_value(&t);
        let w = respell_value(&mut r, &v);
        out.case_str(&format!("kk | {} | {}", s, value_str(&w)));
        drop_deep(v);
        drop_deep(w);
    }
    // wide objects (33..90 members) with repeated names, against a shuffled copy
    for _ in 0..(if full { 1500 } else { 150 }) {
        let mut r = rng.fork();
        let n = *r.pick(&[31usize, 32, 33, 34, 40, 64, 65, 90]);
        let nk = r.range(3, n);
        let ents: Vec<String> = (0..n).map(|_| format!("${} #{}", hex_str(&format!("m{}", r.below(nk))), hex_str(&format!("{}", r.below(4))))).collect();
        let s = format!("{{ {} }}", ents.join(" "));
        out.case_str(&format!("k | {s}"));
        let t: Vec<&str> = toks(&s);
        let (v, _) = dec_value(&t);
        let w = respell_value(&mut r, &v);
        out.case_str(&format!("kk | {} | {}", s, value_str(&w)));
    }
    // numbers: exact respellings
    for _ in 0..(if full { 20000 } else { 2500 }) {
        let mut r = rng.fork();
        let d = gen_decimal(&mut r);
        if !valid_number(&d) {
            continue;
        }
        let e = respell(&mut r, &d);
        if valid_number(&e) {
            out.case_str(&format!("kk | #{} | #{}", hex_str(&d), hex_str(&e)));
        }
    }
}
