//! C06: object histories.  Case lines: `h <nkeys> <op> <op> ...`; the observation is the
//! result of every operation and, after the last one, the entries, the index buckets
//! (through the cfg(json_syntax_verif) hook) and every key-based query for every key of the
//! universe plus an absent key.
use crate::common::*;
use json_syntax::object::{Entry, Key};
use json_syntax::{Object, Value};
use std::collections::{BTreeSet, VecDeque};

/// Key names of the second universe (a case line whose key count is 11): names whose order
/// differs between code points (= UTF-8 bytes) and UTF-16 code units, the empty name, prefixes.
pub const EXOTIC: [&str; 11] =
    ["\u{ffff}", "\u{10000}", "\u{e000}a", "\u{10ffff}", "", "\u{e9}", "k", "k0", "\u{d7ff}\u{10000}", "\u{d7ff}\u{e000}", "\u{10000}\u{e000}"];
thread_local! {
    pub static EXOTIC_KEYS: std::cell::Cell<bool> = std::cell::Cell::new(false);
}
pub fn set_universe(nkeys: &str) {
    EXOTIC_KEYS.with(|f| f.set(nkeys == "11"));
}
pub fn key(i: usize) -> Key {
    if EXOTIC_KEYS.with(|f| f.get()) && i < EXOTIC.len() {
        return EXOTIC[i].into();
    }
    format!("k{:02}", i).as_str().into()
}
pub fn val(v: usize) -> Value {
    Value::Number((v as u32).into())
}
fn vstr(v: &Value) -> String {
    match v {
        Value::Number(n) => n.as_str().to_string(),
        other => format!("?{}", value_str(other)),
    }
}
fn kidx(k: &str) -> String {
    if EXOTIC_KEYS.with(|f| f.get()) {
        if let Some(i) = EXOTIC.iter().position(|x| *x == k) {
            return i.to_string();
        }
    }
    k.trim_start_matches('k').parse::<usize>().map(|i| i.to_string()).unwrap_or_else(|_| format!("?{k}"))
}
fn estr(e: &Entry) -> String {
    format!("{}:{}", kidx(e.key.as_str()), vstr(&e.value))
}
fn list<T>(it: impl Iterator<Item = T>, f: impl Fn(T) -> String) -> String {
    let v: Vec<String> = it.map(f).collect();
    if v.is_empty() {
        "-".into()
    } else {
        v.join(",")
    }
}
fn parse_pairs(s: &str) -> Vec<Entry> {
    if s == "-" {
        return vec![];
    }
    s.split(',')
        .map(|p| {
            let (k, v) = p.split_once('=').unwrap();
            Entry::new(key(k.parse().unwrap()), val(v.parse().unwrap()))
        })
        .collect()
}
fn pull(it: &mut dyn Iterator<Item = Entry>, n: &str) -> String {
    let mut out = vec![];
    if n == "*" {
        for e in it {
            out.push(estr(&e));
        }
    } else {
        for _ in 0..n.parse::<usize>().unwrap() {
            match it.next() {
                Some(e) => out.push(estr(&e)),
                None => {
                    out.push("end".into());
                    break;
                }
            }
        }
    }
    if out.is_empty() {
        "-".into()
    } else {
        out.join(",")
    }
}

/// Applies one operation; returns its observable result.
pub fn apply(obj: &mut Object, op: &str) -> String {
    let p: Vec<&str> = op.split(':').collect();
    let n = |i: usize| p[i].parse::<usize>().unwrap();
    match p[0] {
        "push" => (obj.push(key(n(1)), val(n(2))) as u8).to_string(),
        "pushe" => (obj.push_entry(Entry::new(key(n(1)), val(n(2)))) as u8).to_string(),
        "pushf" => (obj.push_front(key(n(1)), val(n(2))) as u8).to_string(),
        "pushef" => (obj.push_entry_front(Entry::new(key(n(1)), val(n(2)))) as u8).to_string(),
        "rmat" => match obj.remove_at(n(1)) {
            Some(e) => estr(&e),
            None => "none".into(),
        },
        "ins" => match obj.insert(key(n(1)), val(n(2))) {
            None => "none".into(),
            Some(mut it) => format!("some[{}]", pull(&mut it, p[3])),
        },
        "insf" => {
            let mut it = obj.insert_front(key(n(1)), val(n(2)));
            format!("[{}]", pull(&mut it, p[3]))
        }
        "rm" => {
            let k = key(n(1));
            let mut it = obj.remove(k.as_str());
            format!("[{}]", pull(&mut it, p[2]))
        }
        "rmu" => match obj.remove_unique(key(n(1)).as_str()) {
            Ok(None) => "none".into(),
            Ok(Some(e)) => format!("one {}", estr(&e)),
            Err(d) => format!("dup {} {}", estr(&d.0), estr(&d.1)),
        },
        "sort" => {
            obj.sort();
            "ok".into()
        }
        "canon" => {
            obj.canonicalize();
            "ok".into()
        }
        // an extension whose source panics after k entries, the caller recovering: whatever part of
        // the extension took place, entries and key index must agree; the appended part is then
        // taken off again, so that the history continues from the state before the extension
        "extpanic" => {
            let pairs = parse_pairs(p[1]);
            let k = n(2);
            let before: Vec<Entry> = obj.iter().cloned().collect();
            let src = pairs.clone().into_iter().enumerate().map(move |(i, e)| {
                if i == k {
                    panic!("source of the extension fails");
                }
                e
            });
            let r = std::panic::catch_unwind(std::panic::AssertUnwindSafe(|| obj.extend(src)));
            let now: Vec<Entry> = obj.iter().cloned().collect();
            let grown = now.len() >= before.len() && now[..before.len()] == before[..];
            let added = now.len().saturating_sub(before.len());
            let prefix = grown && added <= k.min(pairs.len()) && now[before.len()..] == pairs[..added];
            let consistent = index_consistent(obj);
            for _ in 0..added {
                obj.remove_at(obj.len() - 1);
            }
            match (r.is_err() == (k < pairs.len()), prefix, consistent) {
                (true, true, true) => "ok".into(),
                (false, _, _) => "PANIC-NOT-PROPAGATED".into(),
                (_, false, _) => "ENTRIES-NOT-A-PREFIX-OF-THE-EXTENSION".into(),
                _ => "INDEX-STALE-AFTER-FAILED-EXTENSION".into(),
            }
        }
        "goi" => vstr(obj.get_or_insert_with(key(n(1)).as_str(), || val(n(2)))),
        "gmoi" => {
            let r = obj.get_mut_or_insert_with(key(n(1)).as_str(), || val(n(2)));
            vstr(r)
        }
        "set" => match obj.get_mut(key(n(1)).as_str()).nth(n(2)) {
            Some(x) => {
                *x = val(n(3));
                "ok".into()
            }
            None => "none".into(),
        },
        "setu" => match obj.get_unique_mut(key(n(1)).as_str()) {
            Ok(Some(x)) => {
                *x = val(n(2));
                "ok".into()
            }
            Ok(None) => "none".into(),
            Err(d) => format!("dup {} {}", estr(d.0), estr(d.1)),
        },
        "setat" => match obj.iter_mut().nth(n(1)) {
            Some((_, x)) => {
                *x = val(n(2));
                "ok".into()
            }
            None => "none".into(),
        },
        "ext" => {
            obj.extend(parse_pairs(p[1]));
            "ok".into()
        }
        "extp" => {
            obj.extend(parse_pairs(p[1]).into_iter().map(|e| (e.key, e.value)));
            "ok".into()
        }
        "fromvec" => {
            *obj = Object::from_vec(parse_pairs(p[1]));
            "ok".into()
        }
        "fromvecf" => {
            *obj = Object::from(parse_pairs(p[1])); // From<Vec<Entry>>
            "ok".into()
        }
        "fromiterkv" => {
            *obj = parse_pairs(p[1]).into_iter().map(|e| (e.key, e.value)).collect(); // FromIterator<(Key, Value)>
            "ok".into()
        }
        "setatm" => {
            // IntoIterator for &mut Object
            let mut done = "none".to_string();
            for (i, (_, x)) in (&mut *obj).into_iter().enumerate() {
                if i == n(1) {
                    *x = val(n(2));
                    done = "ok".into();
                }
            }
            done
        }
        "fromiter" => {
            *obj = parse_pairs(p[1]).into_iter().collect();
            "ok".into()
        }
        "clone" => {
            *obj = obj.clone();
            "ok".into()
        }
        "clonefrom" => {
            // clone_from into an independently created object (its own hasher state, other entries)
            let mut other = Object::new();
            other.push(key(0), val(0));
            other.push(key(3), val(1));
            other.clone_from(obj);
            *obj = other;
            "ok".into()
        }
        "take" => {
            let t = std::mem::take(obj);
            *obj = t;
            "ok".into()
        }
        "reset" => {
            *obj = Object::new();
            "ok".into()
        }
        other => format!("BADOP({other})"),
    }
}

/// The key index answers exactly what a scan of the entries answers (every present key, one absent key).
pub fn index_consistent(obj: &Object) -> bool {
    let es: Vec<&Entry> = obj.iter().collect();
    for e in &es {
        let want: Vec<usize> = es.iter().enumerate().filter(|(_, x)| x.key == e.key).map(|(i, _)| i).collect();
        let got: Vec<usize> = obj.indexes_of(e.key.as_str()).collect();
        if want != got || obj.index_of(e.key.as_str()) != want.first().copied() {
            return false;
        }
    }
    obj.indexes_of("\u{1}absent").next().is_none() && obj.len() == es.len()
}

/// The mutable lookups (`get_mut`, `get_unique_mut`, also consumed by `nth`/`last`/`rev`-less
/// adaptors) reach exactly the entries the shared lookups report: same values in the same order,
/// and a write through the i-th yielded reference lands on the i-th matching entry.
pub fn mut_lookup_agrees(obj: &Object, k: &str) -> bool {
    let idx: Vec<usize> = obj.indexes_of(k).collect();
    let want: Vec<String> = obj.get(k).map(value_str).collect();
    let mut o = obj.clone();
    let got: Vec<String> = o.get_mut(k).map(|v| value_str(v)).collect();
    if got != want || o.get_mut(k).count() != idx.len() {
        return false;
    }
    for n in 0..idx.len() + 1 {
        let mut o = obj.clone();
        let mark = Value::String("\u{1}written".into());
        let hit = match o.get_mut(k).nth(n) {
            Some(v) => {
                *v = mark.clone();
                true
            }
            None => false,
        };
        if hit != (n < idx.len()) {
            return false;
        }
        for (i, (e, e0)) in o.iter().zip(obj.iter()).enumerate() {
            let expect_written = hit && i == idx[n.min(idx.len().saturating_sub(1))] && n < idx.len();
            if expect_written {
                if e.value != mark || e.key != e0.key {
                    return false;
                }
            } else if e != e0 {
                return false;
            }
        }
    }
    let mut o = obj.clone();
    let ok = match (o.get_unique_mut(k).map(|x| x.map(|v| value_str(v))), obj.get_unique(k)) {
        (Ok(None), Ok(None)) => true,
        (Ok(Some(a)), Ok(Some(b))) => a == value_str(b),
        (Err(d), Err(d0)) => d.0 == d0.0 && d.1 == d0.1,
        _ => false,
    };
    ok
}

pub fn entries_str(obj: &Object) -> String {
    list(obj.iter(), estr)
}

pub fn buckets_str(obj: &Object) -> String {
    let mut d = obj.verif_index_dump();
    d.sort();
    list(d.into_iter(), |(rep, other)| {
        let mut v = vec![rep.to_string()];
        v.extend(other.iter().map(|x| x.to_string()));
        v.join("+")
    })
}

pub fn queries_str(obj: &Object, nkeys: usize) -> String {
    let mut out = String::new();
    for i in 0..=nkeys {
        // index nkeys is the absent key
        let kk = if i == nkeys { Key::from("absent") } else { key(i) };
        let k = kk.as_str();
        let styles = styles_agree(&|| obj.get(k), &|v| v as *const Value)
            && styles_agree(&|| obj.get_entries(k), &|e| e as *const Entry)
            && styles_agree(&|| obj.get_with_index(k), &|(i, v)| (i, v as *const Value))
            && styles_agree(&|| obj.get_entries_with_index(k), &|(i, e)| (i, e as *const Entry))
            && styles_agree(&|| obj.indexes_of(k), &|i| i)
            && mut_lookup_agrees(obj, k);
        if !styles {
            out.push_str("ITERATOR-STYLES-DISAGREE ");
        }
        let uniq = match obj.get_unique(k) {
            Ok(None) => "none".to_string(),
            Ok(Some(v)) => format!("one:{}", vstr(v)),
            Err(d) => format!("dup:{}:{}", vstr(&d.0.value), vstr(&d.1.value)),
        };
        let uniqe = match obj.get_unique_entry(k) {
            Ok(None) => "none".to_string(),
            Ok(Some(e)) => format!("one:{}", estr(e)),
            Err(d) => format!("dup:{}:{}", estr(d.0), estr(d.1)),
        };
        out.push_str(&format!(
            "<{} c={} i={:?} r={:?} ix={} g={} e={} gi={} ei={} u={} ue={}>",
            i,
            obj.contains_key(k) as u8,
            obj.index_of(k),
            obj.redundant_index_of(k),
            list(obj.indexes_of(k), |x| x.to_string()),
            list(obj.get(k), vstr),
            list(obj.get_entries(k), estr),
            list(obj.get_with_index(k), |(j, v)| format!("{}@{}", vstr(v), j)),
            list(obj.get_entries_with_index(k), |(j, e)| format!("{}@{}", estr(e), j)),
            uniq,
            uniqe
        ));
    }
    out
}

pub fn eval(line: &str) -> String {
    let line = line.to_string();
    guarded(move || {
        let t = toks(&line);
        if t.len() < 2 || t[0] != "h" {
            return format!("BADCASE {line}");
        }
        let nkeys: usize = t[1].parse().unwrap();
        set_universe(t[1]);
        let mut obj = Object::new();
        let mut results = vec![];
        for op in &t[2..] {
            results.push(apply(&mut obj, op));
        }
        // first(), last(), the three ways of iterating and capacity agree with entries()
        let es = obj.entries();
        let views_ok = obj.first().map(|e| e as *const Entry) == es.first().map(|e| e as *const Entry)
            && obj.last().map(|e| e as *const Entry) == es.last().map(|e| e as *const Entry)
            && obj.iter().count() == es.len()
            && obj.iter().zip(es.iter()).all(|(a, b)| std::ptr::eq(a, b))
            && (&obj).into_iter().zip(es.iter()).all(|(a, b)| std::ptr::eq(a, b))
            && obj.clone().into_iter().zip(es.iter()).all(|(a, b)| a == *b)
            && obj.capacity() >= es.len();
        format!(
            "R={} L={},{}{} E={} Q={} B={}",
            if results.is_empty() { "-".to_string() } else { results.join("|") },
            obj.len(),
            obj.is_empty() as u8,
            if views_ok { "" } else { ",VIEWS-DISAGREE" },
            entries_str(&obj),
            queries_str(&obj, nkeys),
            buckets_str(&obj)
        )
    })
}

/// The operation instances tried from every state of the exhaustive exploration.
fn op_instances(nkeys: usize, nvals: usize, len: usize) -> Vec<String> {
    let mut ops = vec![];
    for k in 0..nkeys {
        for v in 0..nvals {
            ops.push(format!("push:{k}:{v}"));
            ops.push(format!("pushf:{k}:{v}"));
            if v == 0 {
                ops.push(format!("pushef:{k}:{v}"));
            }
            for n in ["0", "1", "*"] {
                ops.push(format!("ins:{k}:{v}:{n}"));
                ops.push(format!("insf:{k}:{v}:{n}"));
            }
            ops.push(format!("goi:{k}:{v}"));
        }
        for n in ["0", "1", "*"] {
            ops.push(format!("rm:{k}:{n}"));
        }
        ops.push(format!("rmu:{k}"));
        ops.push(format!("set:{k}:1:9"));
    }
    for i in 0..=len {
        ops.push(format!("rmat:{i}"));
    }
    ops.push("sort".into());
    ops.push("clone".into());
    ops.push("clonefrom".into());
    ops.push("take".into());
    ops.push("setat:0:7".into());
    ops.push("setatm:1:8".into());
    ops.push("setu:0:6".into());
    ops.push("gmoi:1:5".into());
    ops.push("pushe:1:4".into());
    ops.push("ext:0=1,1=0,0=1".into());
    ops.push("extpanic:1=2,0=0,1=1:2".into());
    ops.push("canon".into());
    ops
}

pub fn generate(args: &Args, out: &mut Out) {
    let full = args.thorough();
    // 1. breadth-first over distinct implementation states (entries + buckets)
    let (nkeys, nvals, depth) = if full { (2, 2, 6) } else { (2, 2, 4) };
    let mut seen: BTreeSet<String> = BTreeSet::new();
    let mut queue: VecDeque<(Vec<String>, usize)> = VecDeque::new();
    seen.insert("-|-".into());
    queue.push_back((vec![], 0));
    let cap = if full { 60000 } else { 4000 };
    while let Some((hist, d)) = queue.pop_front() {
        // the explorer itself runs the implementation: a panic here (only possible on a broken
        // tree) must not kill the generator; the history that led to it has already been
        // emitted as a case, whose guarded evaluation reports PANIC against the model
        let hist2 = hist.clone();
        let base = match std::panic::catch_unwind(move || {
            let mut base = Object::new();
            for op in &hist2 {
                apply(&mut base, op);
            }
            base
        }) {
            Ok(b) => b,
            Err(_) => continue,
        };
        for op in op_instances(nkeys, nvals, base.len()) {
            let mut h2 = hist.clone();
            h2.push(op.clone());
            out.case_str(&format!("h {} {}", nkeys, h2.join(" ")));
            if d + 1 < depth && seen.len() < cap {
                let sig = std::panic::catch_unwind(std::panic::AssertUnwindSafe(|| {
                    let mut o2 = base.clone();
                    apply(&mut o2, &op);
                    format!("{}|{}", entries_str(&o2), buckets_str(&o2))
                }));
                if let Ok(sig) = sig {
                    if seen.insert(sig) {
                        queue.push_back((h2, d + 1));
                    }
                }
            }
        }
    }
    // 2. long random histories over many keys (several growth/rehash cycles of the table)
    let mut rng = Rng::new(args.seed);
    let (nh, hl, nk) = if full { (20000, 200, 40) } else { (1500, 120, 40) };
    for _ in 0..nh {
        let mut r = rng.fork();
        let mut ops: Vec<String> = vec![];
        let mut len_guess = 0usize;
        // first grow, so that the table rehashes with many buckets present
        let grow = r.range(0, 60);
        for _ in 0..grow {
            ops.push(format!("push:{}:{}", r.below(nk), r.below(100)));
            len_guess += 1;
        }
        let n = r.range(1, hl);
        for _ in 0..n {
            let k = r.below(nk);
            let v = r.below(100);
            let pulls = *r.pick(&["0", "1", "2", "*"]);
            let op = match r.below(22) {
                0..=4 => {
                    len_guess += 1;
                    format!("push:{k}:{v}")
                }
                5 | 6 => {
                    len_guess += 1;
                    if r.chance(1, 3) { format!("pushef:{k}:{v}") } else { format!("pushf:{k}:{v}") }
                }
                7 | 8 => format!("ins:{k}:{v}:{pulls}"),
                9 | 10 => format!("insf:{k}:{v}:{pulls}"),
                11 | 12 => format!("rm:{k}:{pulls}"),
                13 => format!("rmu:{k}"),
                14 | 15 => format!("rmat:{}", r.below(len_guess + 2)),
                16 => "sort".into(),
                17 => format!("goi:{k}:{v}"),
                18 => match r.below(4) {
                    0 => format!("setu:{k}:{v}"),
                    1 => {
                        len_guess += 1;
                        format!("gmoi:{k}:{v}")
                    }
                    2 => format!("setatm:{}:{v}", r.below(len_guess + 1)),
                    _ => format!("set:{k}:{}:{v}", r.below(3)),
                },
                19 => format!("setat:{}:{v}", r.below(len_guess + 1)),
                20 => (*r.pick(&["clone", "take", "clonefrom"])).to_string(),
                _ => format!(
                    "{}:{}",
                    r.pick(&["ext", "extp"]),
                    (0..r.range(1, 4)).map(|_| format!("{}={}", r.below(nk), r.below(100))).collect::<Vec<_>>().join(",")
                ),
            };
            ops.push(op);
        }
        // observe the final state of every prefix of a few histories, else just the end
        out.case_str(&format!("h {} {}", nk, ops.join(" ")));
        if r.chance(1, 10) {
            for cut in (1..ops.len()).step_by(7) {
                out.case_str(&format!("h {} {}", nk, ops[..cut].join(" ")));
            }
        }
    }
    // 2b. grow / drain / regrow cycles: many distinct keys (the table passes 64, 128 buckets),
    // then removals at random positions down to a few entries (a table that shrinks or
    // tombstones has to stay consistent), observed along the drain, then growth again
    for _ in 0..(if full { 1500 } else { 120 }) {
        let mut r = rng.fork();
        let nk = *r.pick(&[40usize, 70, 130]);
        let target = r.range(29, nk);
        let mut ops: Vec<String> = vec![];
        let mut len = 0usize;
        for i in 0..target {
            // mostly distinct keys, a few duplicates
            let k = if r.chance(1, 8) { r.below(i + 1) } else { i };
            ops.push(format!("{}:{}:{}", if r.chance(1, 6) { "pushf" } else { "push" }, k, r.below(100)));
            len += 1;
        }
        let floor = r.below(17);
        let mut cuts = vec![];
        while len > floor {
            let op = match r.below(8) {
                0 => format!("rm:{}:{}", r.below(nk), r.pick(&["0", "1", "*"])),
                1 => format!("rmu:{}", r.below(nk)),
                2 => format!("ins:{}:{}:*", r.below(target), r.below(100)),
                _ => format!("rmat:{}", if r.chance(1, 5) { len - 1 } else { r.below(len) }),
            };
            if op.starts_with("rmat") {
                len -= 1;
            } else if len > 0 && r.chance(1, 2) {
                // rm / rmu / ins may or may not remove: keep `len` an upper bound, and make progress
                ops.push(op);
                ops.push(format!("rmat:{}", r.below(len)));
                len -= 1;
                continue;
            }
            ops.push(op);
            if len <= 20 || r.chance(1, 6) {
                cuts.push(ops.len());
            }
        }
        for _ in 0..r.range(0, 40) {
            ops.push(format!("push:{}:{}", r.below(nk), r.below(100)));
        }
        out.case_str(&format!("h {} {}", nk, ops.join(" ")));
        for cut in cuts.into_iter().step_by(if full { 1 } else { 3 }) {
            out.case_str(&format!("h {} {}", nk, ops[..cut].join(" ")));
        }
    }
    // 2c. the second key universe (names ordered differently by code points and by UTF-16 units, the
    // empty name, prefixes of each other): pushes, then sort / canonicalize, edits, sort again
    for _ in 0..(if full { 6000 } else { 500 }) {
        let mut r = rng.fork();
        let nk = 11usize;
        let mut ops: Vec<String> = vec![];
        for _ in 0..r.range(2, 9) {
            ops.push(format!("{}:{}:{}", r.pick(&["push", "push", "pushf", "ins"]), r.below(nk), r.below(3)));
            if ops.last().unwrap().starts_with("ins") {
                ops.last_mut().unwrap().push_str(":*");
            }
        }
        ops.push((*r.pick(&["sort", "sort", "canon"])).to_string());
        out.case_str(&format!("h {} {}", nk, ops.join(" ")));
        for _ in 0..r.range(0, 4) {
            ops.push(match r.below(5) {
                0 => format!("rm:{}:*", r.below(nk)),
                1 => format!("rmat:{}", r.below(6)),
                2 => format!("ins:{}:{}:*", r.below(nk), r.below(3)),
                _ => format!("push:{}:{}", r.below(nk), r.below(3)),
            });
        }
        ops.push((*r.pick(&["sort", "canon", "canon"])).to_string());
        out.case_str(&format!("h {} {}", nk, ops.join(" ")));
    }
    // 2d. extensions whose source fails part-way (the caller recovers), between ordinary operations,
    // also across growth of the table
    for _ in 0..(if full { 4000 } else { 400 }) {
        let mut r = rng.fork();
        let nk = 40usize;
        let mut ops: Vec<String> = (0..r.range(0, 30)).map(|_| format!("push:{}:{}", r.below(nk), r.below(100))).collect();
        let m = r.range(1, 9);
        let pairs: Vec<String> = (0..m).map(|_| format!("{}={}", r.below(nk), r.below(100))).collect();
        ops.push(format!("extpanic:{}:{}", pairs.join(","), r.below(m + 2)));
        for _ in 0..r.range(1, 4) {
            ops.push(match r.below(4) {
                0 => format!("rm:{}:*", r.below(nk)),
                1 => format!("ins:{}:{}:*", r.below(nk), r.below(100)),
                2 => format!("ext:{}", pairs.join(",")),
                _ => format!("push:{}:{}", r.below(nk), r.below(100)),
            });
        }
        out.case_str(&format!("h {} {}", nk, ops.join(" ")));
    }
    // 3. bulk construction
    for _ in 0..(if full { 20000 } else { 1500 }) {
        let mut r = rng.fork();
        let pairs: Vec<String> = (0..r.below(12)).map(|_| format!("{}={}", r.below(4), r.below(3))).collect();
        let l = if pairs.is_empty() { "-".to_string() } else { pairs.join(",") };
        let which = *r.pick(&["fromvec", "fromiter", "fromvecf", "fromiterkv"]);
        out.case_str(&format!("h 4 {which}:{l} sort"));
        out.case_str(&format!("h 4 {which}:{l} ins:1:5:*"));
        out.case_str(&format!("h 4 {which}:{l} insf:2:5:1 rm:0:0"));
    }
}
