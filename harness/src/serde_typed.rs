//! C16: typed data through `json_syntax::to_value` / `from_value`, against serde_json.
//!
//! Case line:  `<root> <seed> | <env> | <ty> | <sd> | <float table> [| X <value>]`
//!   root   name of a registered root type (the Rust type that is actually run),
//!   seed   the datum is regenerated from (root, seed); the `sd` term on the line must be
//!          what the RECORDING serializer sees for it (else BADCASE), so the line alone
//!          determines what is run and the model is fed what the type's own `Serialize`
//!          impl emits,
//!   env/ty the type descriptor (nominal definitions + root type), produced from the same
//!          macro invocation that defines the Rust type,
//!   sd     the datum in the serde data model.
//!   float table  the dependencies' spellings of the datum's finite floats (see `float_table`).
//!   X value      (every third case) to_value(d) with one random edit: an ill-typed input for from_value::<T>;
//!                (every sixth case, when to_value(d) has a non-empty object) to_value(d) with REPEATED KEYS in
//!                one of its objects (`j_dup`): the object of a map target (last value wins), of a struct
//!                target or struct variant (`duplicate field`), the single-entry object of an enum;
//!                adds ` | dx <sd|E>` to the observable.
//! Observable: `dom=.. hyp=1 | ser <value> | de <sd> | rt=. | sj <value> | sh=. sh32=. | via <sd> | vrt=.`
use crate::common::*;
use json_syntax::{from_value, to_value, SerializeError, Value};
use serde::de::DeserializeOwned;
use serde::{Deserialize, Serialize};
use std::collections::hash_map::DefaultHasher;
use std::collections::{BTreeMap, HashMap};
use std::hash::{BuildHasherDefault, Hash};
use std::fmt::Debug;

// ------------------------------------------------------------------------------------------
// the serde data model, as recorded

#[derive(Clone, Debug, PartialEq)]
pub enum Sd {
    Bool(bool),
    Int(&'static str, i128),
    F32(u32),
    F64(u64),
    Char(char),
    Str(String),
    Unit,
    UnitStruct(String),
    None,
    Some(Box<Sd>),
    NewtypeStruct(String, Box<Sd>),
    Seq(Vec<Sd>),
    Tuple(Vec<Sd>),
    TupleStruct(String, Vec<Sd>),
    Map(Vec<(Sd, Sd)>),
    Struct(String, Vec<(String, Sd)>),
    UnitVariant(String, String),
    NewtypeVariant(String, String, Box<Sd>),
    TupleVariant(String, String, Vec<Sd>),
    StructVariant(String, String, Vec<(String, Sd)>),
}

#[derive(Debug)]
pub struct RecErr(String);
impl std::fmt::Display for RecErr {
    fn fmt(&self, f: &mut std::fmt::Formatter<'_>) -> std::fmt::Result {
        f.write_str(&self.0)
    }
}
impl std::error::Error for RecErr {}
impl serde::ser::Error for RecErr {
    fn custom<T: std::fmt::Display>(m: T) -> Self {
        RecErr(m.to_string())
    }
}

/// A `serde::Serializer` that records the calls made by a `Serialize` impl.
pub struct Rec;

pub struct RecList {
    kind: u8, // 0 seq, 1 tuple, 2 tuple struct, 3 tuple variant
    name: String,
    variant: String,
    items: Vec<Sd>,
}
pub struct RecMap {
    entries: Vec<(Sd, Sd)>,
    key: Option<Sd>,
}
pub struct RecFields {
    variant: Option<String>,
    name: String,
    fields: Vec<(String, Sd)>,
}

pub fn record<T: Serialize + ?Sized>(x: &T) -> Sd {
    x.serialize(Rec).expect("recording serializer cannot fail")
}

impl serde::Serializer for Rec {
    type Ok = Sd;
    type Error = RecErr;
    type SerializeSeq = RecList;
    type SerializeTuple = RecList;
    type SerializeTupleStruct = RecList;
    type SerializeTupleVariant = RecList;
    type SerializeMap = RecMap;
    type SerializeStruct = RecFields;
    type SerializeStructVariant = RecFields;

    fn serialize_bool(self, v: bool) -> Result<Sd, RecErr> {
        Ok(Sd::Bool(v))
    }
    fn serialize_i8(self, v: i8) -> Result<Sd, RecErr> {
        Ok(Sd::Int("i8", v as i128))
    }
    fn serialize_i16(self, v: i16) -> Result<Sd, RecErr> {
        Ok(Sd::Int("i16", v as i128))
    }
    fn serialize_i32(self, v: i32) -> Result<Sd, RecErr> {
        Ok(Sd::Int("i32", v as i128))
    }
    fn serialize_i64(self, v: i64) -> Result<Sd, RecErr> {
        Ok(Sd::Int("i64", v as i128))
    }
    fn serialize_u8(self, v: u8) -> Result<Sd, RecErr> {
        Ok(Sd::Int("u8", v as i128))
    }
    fn serialize_u16(self, v: u16) -> Result<Sd, RecErr> {
        Ok(Sd::Int("u16", v as i128))
    }
    fn serialize_u32(self, v: u32) -> Result<Sd, RecErr> {
        Ok(Sd::Int("u32", v as i128))
    }
    fn serialize_u64(self, v: u64) -> Result<Sd, RecErr> {
        Ok(Sd::Int("u64", v as i128))
    }
    fn serialize_f32(self, v: f32) -> Result<Sd, RecErr> {
        Ok(Sd::F32(v.to_bits()))
    }
    fn serialize_f64(self, v: f64) -> Result<Sd, RecErr> {
        Ok(Sd::F64(v.to_bits()))
    }
    fn serialize_char(self, v: char) -> Result<Sd, RecErr> {
        Ok(Sd::Char(v))
    }
    fn serialize_str(self, v: &str) -> Result<Sd, RecErr> {
        Ok(Sd::Str(v.to_string()))
    }
    fn serialize_bytes(self, _v: &[u8]) -> Result<Sd, RecErr> {
        Err(RecErr("bytes are outside the C16 data model".into()))
    }
    fn serialize_none(self) -> Result<Sd, RecErr> {
        Ok(Sd::None)
    }
    fn serialize_some<T: ?Sized + Serialize>(self, v: &T) -> Result<Sd, RecErr> {
        Ok(Sd::Some(Box::new(v.serialize(Rec)?)))
    }
    fn serialize_unit(self) -> Result<Sd, RecErr> {
        Ok(Sd::Unit)
    }
    fn serialize_unit_struct(self, name: &'static str) -> Result<Sd, RecErr> {
        Ok(Sd::UnitStruct(name.into()))
    }
    fn serialize_unit_variant(self, name: &'static str, _i: u32, variant: &'static str) -> Result<Sd, RecErr> {
        Ok(Sd::UnitVariant(name.into(), variant.into()))
    }
    fn serialize_newtype_struct<T: ?Sized + Serialize>(self, name: &'static str, v: &T) -> Result<Sd, RecErr> {
        Ok(Sd::NewtypeStruct(name.into(), Box::new(v.serialize(Rec)?)))
    }
    fn serialize_newtype_variant<T: ?Sized + Serialize>(
        self,
        name: &'static str,
        _i: u32,
        variant: &'static str,
        v: &T,
    ) -> Result<Sd, RecErr> {
        Ok(Sd::NewtypeVariant(name.into(), variant.into(), Box::new(v.serialize(Rec)?)))
    }
    fn serialize_seq(self, _len: Option<usize>) -> Result<RecList, RecErr> {
        Ok(RecList { kind: 0, name: String::new(), variant: String::new(), items: vec![] })
    }
    fn serialize_tuple(self, _len: usize) -> Result<RecList, RecErr> {
        Ok(RecList { kind: 1, name: String::new(), variant: String::new(), items: vec![] })
    }
    fn serialize_tuple_struct(self, name: &'static str, _len: usize) -> Result<RecList, RecErr> {
        Ok(RecList { kind: 2, name: name.into(), variant: String::new(), items: vec![] })
    }
    fn serialize_tuple_variant(
        self,
        name: &'static str,
        _i: u32,
        variant: &'static str,
        _len: usize,
    ) -> Result<RecList, RecErr> {
        Ok(RecList { kind: 3, name: name.into(), variant: variant.into(), items: vec![] })
    }
    fn serialize_map(self, _len: Option<usize>) -> Result<RecMap, RecErr> {
        Ok(RecMap { entries: vec![], key: None })
    }
    fn serialize_struct(self, name: &'static str, _len: usize) -> Result<RecFields, RecErr> {
        Ok(RecFields { variant: None, name: name.into(), fields: vec![] })
    }
    fn serialize_struct_variant(
        self,
        name: &'static str,
        _i: u32,
        variant: &'static str,
        _len: usize,
    ) -> Result<RecFields, RecErr> {
        Ok(RecFields { variant: Some(variant.into()), name: name.into(), fields: vec![] })
    }
}

impl RecList {
    fn push<T: ?Sized + Serialize>(&mut self, v: &T) -> Result<(), RecErr> {
        self.items.push(v.serialize(Rec)?);
        Ok(())
    }
    fn finish(self) -> Result<Sd, RecErr> {
        Ok(match self.kind {
            0 => Sd::Seq(self.items),
            1 => Sd::Tuple(self.items),
            2 => Sd::TupleStruct(self.name, self.items),
            _ => Sd::TupleVariant(self.name, self.variant, self.items),
        })
    }
}
impl serde::ser::SerializeSeq for RecList {
    type Ok = Sd;
    type Error = RecErr;
    fn serialize_element<T: ?Sized + Serialize>(&mut self, v: &T) -> Result<(), RecErr> {
        self.push(v)
    }
    fn end(self) -> Result<Sd, RecErr> {
        self.finish()
    }
}
impl serde::ser::SerializeTuple for RecList {
    type Ok = Sd;
    type Error = RecErr;
    fn serialize_element<T: ?Sized + Serialize>(&mut self, v: &T) -> Result<(), RecErr> {
        self.push(v)
    }
    fn end(self) -> Result<Sd, RecErr> {
        self.finish()
    }
}
impl serde::ser::SerializeTupleStruct for RecList {
    type Ok = Sd;
    type Error = RecErr;
    fn serialize_field<T: ?Sized + Serialize>(&mut self, v: &T) -> Result<(), RecErr> {
        self.push(v)
    }
    fn end(self) -> Result<Sd, RecErr> {
        self.finish()
    }
}
impl serde::ser::SerializeTupleVariant for RecList {
    type Ok = Sd;
    type Error = RecErr;
    fn serialize_field<T: ?Sized + Serialize>(&mut self, v: &T) -> Result<(), RecErr> {
        self.push(v)
    }
    fn end(self) -> Result<Sd, RecErr> {
        self.finish()
    }
}
impl serde::ser::SerializeMap for RecMap {
    type Ok = Sd;
    type Error = RecErr;
    fn serialize_key<T: ?Sized + Serialize>(&mut self, k: &T) -> Result<(), RecErr> {
        self.key = Some(k.serialize(Rec)?);
        Ok(())
    }
    fn serialize_value<T: ?Sized + Serialize>(&mut self, v: &T) -> Result<(), RecErr> {
        let k = self.key.take().expect("value before key");
        self.entries.push((k, v.serialize(Rec)?));
        Ok(())
    }
    fn end(self) -> Result<Sd, RecErr> {
        Ok(Sd::Map(self.entries))
    }
}
impl serde::ser::SerializeStruct for RecFields {
    type Ok = Sd;
    type Error = RecErr;
    fn serialize_field<T: ?Sized + Serialize>(&mut self, k: &'static str, v: &T) -> Result<(), RecErr> {
        self.fields.push((k.to_string(), v.serialize(Rec)?));
        Ok(())
    }
    fn end(self) -> Result<Sd, RecErr> {
        Ok(Sd::Struct(self.name, self.fields))
    }
}
impl serde::ser::SerializeStructVariant for RecFields {
    type Ok = Sd;
    type Error = RecErr;
    fn serialize_field<T: ?Sized + Serialize>(&mut self, k: &'static str, v: &T) -> Result<(), RecErr> {
        self.fields.push((k.to_string(), v.serialize(Rec)?));
        Ok(())
    }
    fn end(self) -> Result<Sd, RecErr> {
        Ok(Sd::StructVariant(self.name, self.variant.unwrap(), self.fields))
    }
}

// ------------------------------------------------------------------------------------------
// token encoding of sd (maps optionally sorted by the encoded key, for results)

fn enc_list(l: &[Sd], sort: bool, out: &mut String) {
    out.push('[');
    for x in l {
        out.push(' ');
        enc_sd(x, sort, out);
    }
    out.push_str(" ]");
}
fn enc_fields(l: &[(String, Sd)], sort: bool, out: &mut String) {
    out.push('{');
    for (f, x) in l {
        out.push(' ');
        out.push_str(&hex_str(f));
        out.push(' ');
        enc_sd(x, sort, out);
    }
    out.push_str(" }");
}

pub fn enc_sd(d: &Sd, sort: bool, out: &mut String) {
    match d {
        Sd::Bool(b) => out.push_str(if *b { "b1" } else { "b0" }),
        Sd::Int(k, z) => out.push_str(&format!("I{k}:{z}")),
        Sd::F32(b) => out.push_str(&format!("F32:{b:x}")),
        Sd::F64(b) => out.push_str(&format!("F64:{b:x}")),
        Sd::Char(c) => out.push_str(&format!("C{:x}", *c as u32)),
        Sd::Str(s) => {
            out.push('S');
            out.push_str(&hex_str(s));
        }
        Sd::Unit => out.push('U'),
        Sd::UnitStruct(n) => out.push_str(&format!("US:{}", hex_str(n))),
        Sd::None => out.push_str("None"),
        Sd::Some(x) => {
            out.push_str("Some ");
            enc_sd(x, sort, out);
        }
        Sd::NewtypeStruct(n, x) => {
            out.push_str(&format!("NS:{} ", hex_str(n)));
            enc_sd(x, sort, out);
        }
        Sd::Seq(l) => {
            out.push('Q');
            enc_list(l, sort, out);
        }
        Sd::Tuple(l) => {
            out.push('T');
            enc_list(l, sort, out);
        }
        Sd::TupleStruct(n, l) => {
            out.push_str(&format!("TS:{} ", hex_str(n)));
            enc_list(l, sort, out);
        }
        Sd::Map(l) => {
            let mut parts: Vec<(String, String)> = l
                .iter()
                .map(|(k, v)| {
                    let mut ks = String::new();
                    enc_sd(k, sort, &mut ks);
                    let mut vs = String::new();
                    enc_sd(v, sort, &mut vs);
                    (ks, vs)
                })
                .collect();
            if sort {
                parts.sort();
            }
            out.push_str("M{");
            for (k, v) in parts {
                out.push(' ');
                out.push_str(&k);
                out.push(' ');
                out.push_str(&v);
            }
            out.push_str(" }");
        }
        Sd::Struct(n, l) => {
            out.push_str(&format!("ST:{} ", hex_str(n)));
            enc_fields(l, sort, out);
        }
        Sd::UnitVariant(n, v) => out.push_str(&format!("UV:{}:{}", hex_str(n), hex_str(v))),
        Sd::NewtypeVariant(n, v, x) => {
            out.push_str(&format!("NV:{}:{} ", hex_str(n), hex_str(v)));
            enc_sd(x, sort, out);
        }
        Sd::TupleVariant(n, v, l) => {
            out.push_str(&format!("TV:{}:{} ", hex_str(n), hex_str(v)));
            enc_list(l, sort, out);
        }
        Sd::StructVariant(n, v, l) => {
            out.push_str(&format!("SV:{}:{} ", hex_str(n), hex_str(v)));
            enc_fields(l, sort, out);
        }
    }
}

pub fn sd_str(d: &Sd, sort: bool) -> String {
    let mut s = String::new();
    enc_sd(d, sort, &mut s);
    s
}

// predicates of Spec/SerdeData.v, re-implemented here for the `dom=` field and the generators
fn f64_fin(b: u64) -> bool {
    f64::from_bits(b).is_finite()
}
fn f32_fin(b: u32) -> bool {
    f32::from_bits(b).is_finite()
}
pub fn null_like(d: &Sd) -> bool {
    match d {
        Sd::Unit | Sd::UnitStruct(_) | Sd::None => true,
        Sd::Some(x) | Sd::NewtypeStruct(_, x) => null_like(x),
        Sd::F32(b) => !f32_fin(*b),
        Sd::F64(b) => !f64_fin(*b),
        _ => false,
    }
}
pub fn finite_floats(d: &Sd) -> bool {
    match d {
        Sd::F32(b) => f32_fin(*b),
        Sd::F64(b) => f64_fin(*b),
        Sd::Some(x) | Sd::NewtypeStruct(_, x) | Sd::NewtypeVariant(_, _, x) => finite_floats(x),
        Sd::Seq(l) | Sd::Tuple(l) | Sd::TupleStruct(_, l) | Sd::TupleVariant(_, _, l) => l.iter().all(finite_floats),
        Sd::Map(l) => l.iter().all(|(k, v)| finite_floats(k) && finite_floats(v)),
        Sd::Struct(_, l) | Sd::StructVariant(_, _, l) => l.iter().all(|(_, v)| finite_floats(v)),
        _ => true,
    }
}

// ------------------------------------------------------------------------------------------
// type descriptors

#[derive(Clone, Debug)]
pub enum Ty {
    Prim(&'static str), // B i8..u64 f32 f64 ch st un
    Option(Box<Ty>),
    Seq(Box<Ty>),
    Tuple(Vec<Ty>),
    Map(Kty, Box<Ty>),
    Named(String),
}
#[derive(Clone, Debug)]
pub enum Kty {
    Str,
    Int(&'static str),
    Char,
    Enum(String),
}
#[derive(Clone, Debug)]
pub enum VDef {
    Unit,
    Newtype(Ty),
    Tuple(Vec<Ty>),
    Struct(Vec<(String, Ty)>),
}
#[derive(Clone, Debug)]
pub enum Def {
    Pending,
    Unit,
    Newtype(Ty),
    Tuple(Vec<Ty>),
    Struct(Vec<(String, Ty)>),
    Enum(Vec<(String, VDef)>),
}
#[derive(Default)]
pub struct Env {
    pub defs: Vec<(String, Def)>,
}
impl Env {
    fn has(&self, n: &str) -> bool {
        self.defs.iter().any(|(m, _)| m == n)
    }
    fn reserve(&mut self, n: &str) {
        self.defs.push((n.to_string(), Def::Pending));
    }
    fn set(&mut self, n: &str, d: Def) {
        for e in self.defs.iter_mut() {
            if e.0 == n {
                e.1 = d;
                return;
            }
        }
    }
}

fn enc_ty(t: &Ty, out: &mut String) {
    match t {
        Ty::Prim(p) => out.push_str(p),
        Ty::Option(t) => {
            out.push_str("O ");
            enc_ty(t, out);
        }
        Ty::Seq(t) => {
            out.push_str("Q ");
            enc_ty(t, out);
        }
        Ty::Tuple(l) => enc_tys("T(", l, out),
        Ty::Map(k, t) => {
            out.push_str("M ");
            match k {
                Kty::Str => out.push_str("ks"),
                Kty::Int(i) => out.push_str(&format!("ki:{i}")),
                Kty::Char => out.push_str("kc"),
                Kty::Enum(n) => out.push_str(&format!("ke:{}", hex_str(n))),
            }
            out.push(' ');
            enc_ty(t, out);
        }
        Ty::Named(n) => out.push_str(&format!("N:{}", hex_str(n))),
    }
}
fn enc_tys(open: &str, l: &[Ty], out: &mut String) {
    out.push_str(open);
    for t in l {
        out.push(' ');
        enc_ty(t, out);
    }
    out.push_str(" )");
}
fn enc_ftys(open: &str, l: &[(String, Ty)], out: &mut String) {
    out.push_str(open);
    for (f, t) in l {
        out.push(' ');
        out.push_str(&hex_str(f));
        out.push(' ');
        enc_ty(t, out);
    }
    out.push_str(" }");
}
fn enc_env(e: &Env, out: &mut String) {
    out.push_str("E{");
    for (n, d) in &e.defs {
        out.push_str(&format!(" D:{} ", hex_str(n)));
        match d {
            Def::Pending => panic!("pending definition {n}"),
            Def::Unit => out.push_str("du"),
            Def::Newtype(t) => {
                out.push_str("dn ");
                enc_ty(t, out);
            }
            Def::Tuple(l) => enc_tys("dt(", l, out),
            Def::Struct(l) => enc_ftys("ds{", l, out),
            Def::Enum(vs) => {
                out.push_str("de{");
                for (v, d) in vs {
                    out.push(' ');
                    out.push_str(&hex_str(v));
                    out.push(' ');
                    match d {
                        VDef::Unit => out.push_str("vu"),
                        VDef::Newtype(t) => {
                            out.push_str("vn ");
                            enc_ty(t, out);
                        }
                        VDef::Tuple(l) => enc_tys("vt(", l, out),
                        VDef::Struct(l) => enc_ftys("vs{", l, out),
                    }
                }
                out.push_str(" }");
            }
        }
    }
    out.push_str(" }");
}

// ------------------------------------------------------------------------------------------
// the family: Rust types with a generator and a descriptor

pub trait Fam: Serialize + DeserializeOwned + PartialEq + Debug + Sized {
    fn gen(r: &mut Rng, depth: usize) -> Self;
    fn ty(env: &mut Env) -> Ty;
    /// as a map key (only key-capable types override)
    fn kty(_env: &mut Env) -> Kty {
        panic!("not a key type")
    }
}

fn bits_u64(r: &mut Rng) -> u64 {
    r.next()
}

macro_rules! fam_int {
    ($($t:ident),*) => {$(
        impl Fam for $t {
            fn gen(r: &mut Rng, _d: usize) -> Self {
                match r.below(8) {
                    0 => <$t>::MIN,
                    1 => <$t>::MAX,
                    2 => 0,
                    3 => 1,
                    4 => (0 as $t).wrapping_sub(1),
                    5 => (bits_u64(r) % 200) as $t,
                    _ => bits_u64(r) as $t,
                }
            }
            fn ty(_e: &mut Env) -> Ty { Ty::Prim(stringify!($t)) }
            fn kty(_e: &mut Env) -> Kty { Kty::Int(stringify!($t)) }
        }
    )*};
}
fam_int!(i8, i16, i32, i64, u8, u16, u32, u64);

impl Fam for bool {
    fn gen(r: &mut Rng, _d: usize) -> Self {
        r.chance(1, 2)
    }
    fn ty(_e: &mut Env) -> Ty {
        Ty::Prim("B")
    }
}

const F64_SPECIAL: &[f64] = &[
    0.0, -0.0, 1.0, -1.0, 0.1, 0.5, 5.0, 1e9, 1e10, 1234567890.0, 12345678901.0, 9999999999.0, 1e-5, 1e-6, 9.5e-6,
    1e15, 1e16, 1e17, 1e21, 1e22, 9007199254740992.0, 9007199254740994.0, 9223372036854775808.0,
    18446744073709551616.0, 1.8446744073709552e19, -9223372036854775808.0, 4294967296.0, 16777217.0,
    f64::MAX, f64::MIN, f64::MIN_POSITIVE, 5e-324, 2.2250738585072009e-308, 1e308, 1e-308, 123456.789, 0.3,
    2.5, 1e23, 8.41e21, 2e-323, 1.7976931348623157e308, 4.35, 0.000001, 100.0, 1e300,
    // 0x3ab5c87fb0000000: exactly half-way between two binary32 values (sh32 = 0: C16_shape32_f64_midpoint)
    7.038531e-26, -7.038531e-26,
];
const F32_SPECIAL: &[f32] = &[
    0.0, -0.0, 1.0, -1.0, 0.1, 0.5, 5.0, 1e9, 1e10, 123456792.0, 16777216.0, 16777218.0, 1e-5, 1e-6, 3.4028235e38,
    1.1754944e-38, 1e-45, 1.17549421e-38, 8388608.0, 0.3, 2.5, 1e20, 4294967296.0, 9223372036854775808.0, 1e-7, 7e-45,
    33554432.0, 0.2, 1e38, 1.0e-40, 7.038531e-26, -7.038531e-26, 7.0385313e-26, 7.03853e-26,
];

impl Fam for f64 {
    fn gen(r: &mut Rng, _d: usize) -> Self {
        match r.below(16) {
            0..=3 => *r.pick(F64_SPECIAL),
            4 => f64::from_bits(bits_u64(r) & 0x800F_FFFF_FFFF_FFFF), // subnormals and zeros
            5 => (bits_u64(r) % 100_000) as f64,                       // small integers
            6 => (bits_u64(r) as i64) as f64,                          // big integers
            7 => ((bits_u64(r) % 100_000_000) as f64) / 1000.0,        // short decimals
            8 if r.chance(1, 4) => *r.pick(&[f64::NAN, f64::INFINITY, f64::NEG_INFINITY]),
            _ => f64::from_bits(bits_u64(r)),                          // any bit pattern (1/2048 non-finite)
        }
    }
    fn ty(_e: &mut Env) -> Ty {
        Ty::Prim("f64")
    }
}
impl Fam for f32 {
    fn gen(r: &mut Rng, _d: usize) -> Self {
        match r.below(16) {
            0..=3 => *r.pick(F32_SPECIAL),
            4 => f32::from_bits((bits_u64(r) as u32) & 0x807F_FFFF),
            5 => (bits_u64(r) % 100_000) as f32,
            6 => (bits_u64(r) as i64) as f32,
            7 => ((bits_u64(r) % 1_000_000) as f32) / 100.0,
            8 if r.chance(1, 4) => *r.pick(&[f32::NAN, f32::INFINITY, f32::NEG_INFINITY]),
            _ => f32::from_bits(bits_u64(r) as u32),
        }
    }
    fn ty(_e: &mut Env) -> Ty {
        Ty::Prim("f32")
    }
}

fn gen_char(r: &mut Rng) -> char {
    let c = match r.below(10) {
        0 => *r.pick(&[0u32, 0x1F, 0x22, 0x5C, 0x2F, 0x7F, 0x80, 0xD7FF, 0xE000, 0xFFFD, 0xFFFF, 0x10000, 0x10FFFF, 0x2028, 0x24, 0x30, 0x2D]),
        1..=4 => 0x20 + (r.below(0x5F) as u32),
        5 => 0x30 + r.below(10) as u32,
        6 => r.below(0x800) as u32,
        7 => r.below(0x10000) as u32,
        _ => r.below(0x110000) as u32,
    };
    char::from_u32(c).unwrap_or('\u{FFFD}')
}
impl Fam for char {
    fn gen(r: &mut Rng, _d: usize) -> Self {
        gen_char(r)
    }
    fn ty(_e: &mut Env) -> Ty {
        Ty::Prim("ch")
    }
    fn kty(_e: &mut Env) -> Kty {
        Kty::Char
    }
}
pub const TOKEN: &str = "$serde_json::private::Number";
impl Fam for String {
    fn gen(r: &mut Rng, _d: usize) -> Self {
        match r.below(24) {
            0 => String::new(),
            1 => (0..r.range(20, 120)).map(|_| gen_char(r)).collect(),
            2 => format!("{}", bits_u64(r) as i64),    // looks like an integer
            3 => format!("{}", bits_u64(r) % 300),
            4 => r.pick(&["true", "null", "-0", "+5", "007", "1e5", "1.5", " 1", "a", "A", "Red", "$", "$serde_json::private::Numbe", "$serde_json::private::Number2", "%"]).to_string(),
            _ => (0..r.range(1, 8)).map(|_| gen_char(r)).collect(),
        }
    }
    fn ty(_e: &mut Env) -> Ty {
        Ty::Prim("st")
    }
    fn kty(_e: &mut Env) -> Kty {
        Kty::Str
    }
}
impl Fam for () {
    fn gen(_r: &mut Rng, _d: usize) -> Self {}
    fn ty(_e: &mut Env) -> Ty {
        Ty::Prim("un")
    }
}
impl<T: Fam> Fam for Option<T> {
    fn gen(r: &mut Rng, d: usize) -> Self {
        if d == 0 || r.chance(1, 3) {
            return None;
        }
        let x = T::gen(r, d - 1);
        // Some(x) with x rendered as null is not distinguishable from None in JSON (by design);
        // non-finite floats under Some are kept: they are outside `dom` because not finite
        let s = record(&x);
        if null_like(&s) && finite_floats(&s) {
            None
        } else {
            Some(x)
        }
    }
    fn ty(e: &mut Env) -> Ty {
        Ty::Option(Box::new(T::ty(e)))
    }
}
impl<T: Fam> Fam for Box<T> {
    fn gen(r: &mut Rng, d: usize) -> Self {
        Box::new(T::gen(r, d.saturating_sub(1)))
    }
    fn ty(e: &mut Env) -> Ty {
        T::ty(e)
    }
}
impl<T: Fam> Fam for Vec<T> {
    fn gen(r: &mut Rng, d: usize) -> Self {
        if d == 0 {
            return vec![];
        }
        let n = match r.below(12) {
            0 => 0,
            1 if d <= 2 => r.range(10, 40),
            2 | 3 => 1,
            _ => r.range(1, 4),
        };
        (0..n).map(|_| T::gen(r, d - 1)).collect()
    }
    fn ty(e: &mut Env) -> Ty {
        Ty::Seq(Box::new(T::ty(e)))
    }
}
impl<K: Fam + Ord, V: Fam> Fam for BTreeMap<K, V> {
    fn gen(r: &mut Rng, d: usize) -> Self {
        if d == 0 {
            return BTreeMap::new();
        }
        let n = match r.below(12) {
            0 => 0,
            1 if d <= 2 => r.range(8, 24),
            _ => r.range(1, 4),
        };
        let mut m = BTreeMap::new();
        for _ in 0..n {
            m.insert(K::gen(r, d - 1), V::gen(r, d - 1));
        }
        // a first key equal to the private number token is the known class K1: it gets its
        // own root type (TokMap); keep the ordinary maps clear of it
        m
    }
    fn ty(e: &mut Env) -> Ty {
        let k = K::kty(e);
        Ty::Map(k, Box::new(V::ty(e)))
    }
}
/// a HashMap with a fixed hasher (the iteration order, hence the recorded datum, is a function of the keys)
pub type FixedHashMap<K, V> = HashMap<K, V, BuildHasherDefault<DefaultHasher>>;
impl<K: Fam + Eq + Hash, V: Fam> Fam for FixedHashMap<K, V> {
    fn gen(r: &mut Rng, d: usize) -> Self {
        let mut m = FixedHashMap::default();
        if d == 0 {
            return m;
        }
        let n = match r.below(12) {
            0 => 0,
            1 if d <= 2 => r.range(8, 24),
            _ => r.range(1, 4),
        };
        for _ in 0..n {
            m.insert(K::gen(r, d - 1), V::gen(r, d - 1));
        }
        m
    }
    fn ty(e: &mut Env) -> Ty {
        let k = K::kty(e);
        Ty::Map(k, Box::new(V::ty(e)))
    }
}
macro_rules! fam_tuple {
    ($($n:ident),+) => {
        impl<$($n: Fam),+> Fam for ($($n,)+) {
            fn gen(r: &mut Rng, d: usize) -> Self { ($($n::gen(r, d.saturating_sub(1)),)+) }
            fn ty(e: &mut Env) -> Ty { Ty::Tuple(vec![$($n::ty(e)),+]) }
        }
    };
}
fam_tuple!(A);
fam_tuple!(A, B);
fam_tuple!(A, B, C);
fam_tuple!(A, B, C, D);

/// struct definitions and their descriptors from one source
macro_rules! fam_struct {
    ($name:ident { $($f:ident : $t:ty),* }) => {
        #[derive(Serialize, Deserialize, PartialEq, Debug, Clone)]
        pub struct $name { $(pub $f: $t),* }
        impl Fam for $name {
            #[allow(unused_variables)]
            fn gen(r: &mut Rng, d: usize) -> Self { $name { $($f: <$t as Fam>::gen(r, d.saturating_sub(1))),* } }
            fn ty(e: &mut Env) -> Ty {
                let n = stringify!($name);
                if !e.has(n) {
                    e.reserve(n);
                    let fs: Vec<(String, Ty)> = vec![$((stringify!($f).to_string(), <$t as Fam>::ty(e))),*];
                    e.set(n, Def::Struct(fs));
                }
                Ty::Named(n.to_string())
            }
        }
    };
    ($name:ident ( $($t:ty),* )) => {
        #[derive(Serialize, Deserialize, PartialEq, Debug, Clone)]
        pub struct $name ( $(pub $t),* );
        impl Fam for $name {
            #[allow(unused_variables)]
            fn gen(r: &mut Rng, d: usize) -> Self { $name ( $(<$t as Fam>::gen(r, d.saturating_sub(1))),* ) }
            fn ty(e: &mut Env) -> Ty {
                let n = stringify!($name);
                if !e.has(n) {
                    e.reserve(n);
                    let mut ts: Vec<Ty> = vec![$(<$t as Fam>::ty(e)),*];
                    // serde_derive: a tuple struct with exactly one field is a newtype struct
                    let d = if ts.len() == 1 { Def::Newtype(ts.pop().unwrap()) } else { Def::Tuple(ts) };
                    e.set(n, d);
                }
                Ty::Named(n.to_string())
            }
        }
    };
    ($name:ident) => {
        #[derive(Serialize, Deserialize, PartialEq, Debug, Clone)]
        pub struct $name;
        impl Fam for $name {
            fn gen(_r: &mut Rng, _d: usize) -> Self { $name }
            fn ty(e: &mut Env) -> Ty {
                let n = stringify!($name);
                if !e.has(n) { e.reserve(n); e.set(n, Def::Unit); }
                Ty::Named(n.to_string())
            }
        }
    };
}

/// enum definitions; the FIRST variant must not be recursive (it is chosen at depth 0)
macro_rules! fam_enum {
    ($name:ident $(<$ord:ident>)? { $( $v:ident $( ( $($vt:ty),* ) )? $( { $($f:ident : $ft:ty),* } )? ),+ }) => {
        #[derive(Serialize, Deserialize, PartialEq, Debug, Clone $(, $ord, PartialOrd, Eq)?)]
        pub enum $name { $( $v $( ( $($vt),* ) )? $( { $($f : $ft),* } )? ),+ }
        impl Fam for $name {
            #[allow(unused_variables, unused_assignments, unused_mut)]
            fn gen(r: &mut Rng, d: usize) -> Self {
                let nv = [$(stringify!($v)),+].len();
                let pick = if d == 0 { 0 } else { r.below(nv) };
                let d1 = d.saturating_sub(1);
                let mut i = 0usize;
                $(
                    if i == pick {
                        return $name::$v $( ( $(<$vt as Fam>::gen(r, d1)),* ) )? $( { $($f : <$ft as Fam>::gen(r, d1)),* } )? ;
                    }
                    i += 1;
                )+
                unreachable!()
            }
            #[allow(unused_mut, unused_assignments)]
            fn ty(e: &mut Env) -> Ty {
                let n = stringify!($name);
                if !e.has(n) {
                    e.reserve(n);
                    let mut vs: Vec<(String, VDef)> = vec![];
                    $(
                        let mut vd = VDef::Unit;
                        $(
                            let mut ts: Vec<Ty> = vec![$(<$vt as Fam>::ty(e)),*];
                            // serde_derive: exactly one unnamed field is a newtype variant
                            vd = if ts.len() == 1 { VDef::Newtype(ts.pop().unwrap()) } else { VDef::Tuple(ts) };
                        )?
                        $(
                            vd = VDef::Struct(vec![$((stringify!($f).to_string(), <$ft as Fam>::ty(e))),*]);
                        )?
                        vs.push((stringify!($v).to_string(), vd));
                    )+
                    e.set(n, Def::Enum(vs));
                }
                Ty::Named(n.to_string())
            }
            fn kty(e: &mut Env) -> Kty {
                Self::ty(e);
                Kty::Enum(stringify!($name).to_string())
            }
        }
    };
}

// ---- the types ----
fam_struct!(Marker);
fam_struct!(Meters(f64));
fam_struct!(Name(String));
fam_struct!(MaybeByte(Option<u8>));
fam_struct!(Id(u64));
fam_struct!(Nothing());
// newtypes around compound contents (a one-element sequence is where "newtype" and "tuple of one" meet)
fam_struct!(Path(Vec<u32>));
fam_struct!(Single((String,)));
fam_struct!(Ids(Vec<Id>));
fam_struct!(WrapPair(Pair));
fam_struct!(WrapMap(BTreeMap<String, u8>));
fam_struct!(WrapOpt(Option<Vec<u8>>));
fam_struct!(WrapWrap(Path));
fam_struct!(Pair(i32, String));
fam_struct!(Triple(f32, f64, char));
fam_struct!(Point { x: f64, y: f64 });
fam_struct!(EmptyS {});
fam_struct!(Person { name: String, age: u8, email: Option<String>, tags: Vec<String>, scores: BTreeMap<String, f32>, id: Id });
fam_struct!(Ints { a: i8, b: i16, c: i32, d: i64, e: u8, f: u16, g: u32, h: u64 });
fam_struct!(Chain { val: u16, next: Option<Box<Chain>> });
fam_struct!(Nested { p: Point, w: Meters, m: Marker, t: (i8, i16), s: Shape, o: Option<Point>, n: Nothing, pr: Pair });
fam_struct!(Keyed {
    by_i8: BTreeMap<i8, bool>, by_i16: BTreeMap<i16, ()>, by_i32: BTreeMap<i32, u8>, by_i64: BTreeMap<i64, char>,
    by_u8: BTreeMap<u8, f32>, by_u16: BTreeMap<u16, String>, by_u32: BTreeMap<u32, Color>, by_u64: BTreeMap<u64, i8>,
    by_char: BTreeMap<char, i64>, by_color: BTreeMap<Color, Vec<u8>>, by_str: BTreeMap<String, Option<bool>>
});
fam_enum!(Color<Ord> { Red, Green, Blue, Ultra_Violet });
fam_enum!(Shape { Dot, Circle(f64), Rect(f64, f64), Label { name: String, sides: u32 }, Empty {} });
fam_enum!(Msg {
    Ping, Text(String), At(Point), Opt(Option<i8>), Nil(()), Bytes(Vec<u8>), Dict(BTreeMap<char, i8>),
    Tup((i8, String)), Col(Color), Wrapped(Name), Unit2(Marker), Inner(Box<Msg>), F(f32)
});
fam_enum!(Tree { Leaf, Node(Box<Tree>, i32, Box<Tree>), Many(Vec<Tree>), Tagged { tag: String, child: Option<Box<Tree>> } });
fam_enum!(Expr { Lit(i64), Neg(Box<Expr>), Add(Box<Expr>, Box<Expr>), Var { name: String }, Call { f: String, args: Vec<Expr> } });
// a tuple variant without fields (former finding C16-empty-tuple-variant, repaired)
fam_enum!(Degenerate { Plain, Zero(), One(u8) });

/// renamed fields / variants (hand-written descriptor)
#[derive(Serialize, Deserialize, PartialEq, Debug, Clone)]
pub enum Renamed {
    #[serde(rename = "plain variant")]
    A,
    #[serde(rename = "\u{e9}\u{10000} \"q\"")]
    B(i8),
    #[serde(rename = "")]
    C {
        #[serde(rename = "type")]
        ty: String,
        #[serde(rename = "a b")]
        ab: Option<u8>,
    },
}
impl Fam for Renamed {
    fn gen(r: &mut Rng, d: usize) -> Self {
        match r.below(3) {
            0 => Renamed::A,
            1 => Renamed::B(i8::gen(r, d)),
            _ => Renamed::C { ty: String::gen(r, d), ab: Option::<u8>::gen(r, d.max(1)) },
        }
    }
    fn ty(e: &mut Env) -> Ty {
        let n = "Renamed";
        if !e.has(n) {
            e.reserve(n);
            let vs = vec![
                ("plain variant".to_string(), VDef::Unit),
                ("\u{e9}\u{10000} \"q\"".to_string(), VDef::Newtype(i8::ty(e))),
                ("".to_string(), VDef::Struct(vec![("type".to_string(), String::ty(e)), ("a b".to_string(), Option::<u8>::ty(e))])),
            ];
            e.set(n, Def::Enum(vs));
        }
        Ty::Named(n.to_string())
    }
}

/// K1: a string-keyed map whose first key is the private number token
#[derive(Serialize, Deserialize, PartialEq, Debug, Clone)]
pub struct TokMap(pub BTreeMap<String, String>);
impl Fam for TokMap {
    fn gen(r: &mut Rng, d: usize) -> Self {
        let mut m = BTreeMap::new();
        let v = match r.below(4) {
            0 => "12".to_string(),
            1 => "-1.5e3".to_string(),
            2 => "not a number".to_string(),
            _ => String::gen(r, d),
        };
        m.insert(TOKEN.to_string(), v);
        if r.chance(1, 2) {
            m.insert(format!("z{}", r.below(10)), String::gen(r, d));
        }
        // keys sorting before the token: the token is then not the first key (outside K1) and the
        // map must come out as the ordinary object
        if r.chance(1, 3) {
            m.insert((*r.pick(&["", "!", "#a", " ", "$", "$serde_json::private::Numbe"])).to_string(), String::gen(r, d));
        }
        TokMap(m)
    }
    fn ty(e: &mut Env) -> Ty {
        let n = "TokMap";
        if !e.has(n) {
            e.reserve(n);
            let t = <BTreeMap<String, String> as Fam>::ty(e);
            e.set(n, Def::Newtype(t));
        }
        Ty::Named(n.to_string())
    }
}

// ------------------------------------------------------------------------------------------
// canonical observables

/// json-syntax number: integer spellings exactly, others as the double they read as
/// (str::parse::<f64>, what `visit_number` hands to the visitor)
fn enc_num(n: &json_syntax::Number, out: &mut String) {
    if let Some(u) = n.as_u64() {
        out.push_str(&format!("I{u}"));
    } else if let Some(i) = n.as_i64() {
        out.push_str(&format!("I{i}"));
    } else {
        out.push_str(&format!("F{:x}", n.as_str().parse::<f64>().unwrap().to_bits()));
    }
}
fn enc_cvalue(v: &Value, out: &mut String) {
    match v {
        Value::Null => out.push('n'),
        Value::Boolean(true) => out.push('t'),
        Value::Boolean(false) => out.push('f'),
        Value::Number(n) => enc_num(n, out),
        Value::String(s) => {
            out.push('$');
            out.push_str(&hex_str(s.as_str()));
        }
        Value::Array(a) => {
            out.push('[');
            for x in a {
                out.push(' ');
                enc_cvalue(x, out);
            }
            out.push_str(" ]");
        }
        Value::Object(o) => {
            out.push('{');
            for e in o.iter() {
                out.push_str(" $");
                out.push_str(&hex_str(e.key.as_str()));
                out.push(' ');
                enc_cvalue(&e.value, out);
            }
            out.push_str(" }");
        }
    }
}
fn enc_sj(v: &serde_json::Value, out: &mut String) {
    use serde_json::Value as J;
    match v {
        J::Null => out.push('n'),
        J::Bool(true) => out.push('t'),
        J::Bool(false) => out.push('f'),
        J::Number(n) => {
            if let Some(u) = n.as_u64() {
                out.push_str(&format!("I{u}"));
            } else if let Some(i) = n.as_i64() {
                out.push_str(&format!("I{i}"));
            } else {
                out.push_str(&format!("F{:x}", n.as_f64().unwrap().to_bits()));
            }
        }
        J::String(s) => {
            out.push('$');
            out.push_str(&hex_str(s));
        }
        J::Array(a) => {
            out.push('[');
            for x in a {
                out.push(' ');
                enc_sj(x, out);
            }
            out.push_str(" ]");
        }
        J::Object(o) => {
            out.push('{');
            for (k, x) in o.iter() {
                out.push_str(" $");
                out.push_str(&hex_str(k));
                out.push(' ');
                enc_sj(x, out);
            }
            out.push_str(" }");
        }
    }
}

/// the value of a number: the exact integer if it denotes one, else the double
#[derive(PartialEq, Debug, Clone)]
enum NKey {
    Int(i128),
    Big(bool, u64, i32), // sign, odd mantissa, exponent: integers beyond i128's comfortable range
    Flt(u64),
}
fn key_of_f64(x: f64, p32: bool) -> NKey {
    let x = if p32 { (x as f32) as f64 } else { x };
    if x == 0.0 {
        return NKey::Int(0);
    }
    if x.fract() == 0.0 && x.is_finite() {
        if x.abs() < 1e30 {
            return NKey::Int(x as i128);
        }
        let b = x.to_bits();
        let mut m = (b & ((1u64 << 52) - 1)) | (1u64 << 52);
        let mut e = ((b >> 52) & 0x7FF) as i32 - 1075;
        while m & 1 == 0 {
            m >>= 1;
            e += 1;
        }
        return NKey::Big(x < 0.0, m, e);
    }
    NKey::Flt(x.to_bits())
}
#[derive(PartialEq, Debug, Clone)]
enum Shp {
    Null,
    Bool(bool),
    Num(NKey),
    Str(String),
    Arr(Vec<Shp>),
    Obj(Vec<(String, Shp)>),
}
fn shape_js(v: &Value, p32: bool) -> Shp {
    match v {
        Value::Null => Shp::Null,
        Value::Boolean(b) => Shp::Bool(*b),
        Value::Number(n) => Shp::Num(if let Some(u) = n.as_u64() {
            if p32 { key_of_f64((u as f32) as f64, false) } else { NKey::Int(u as i128) }
        } else if let Some(i) = n.as_i64() {
            if p32 { key_of_f64((i as f32) as f64, false) } else { NKey::Int(i as i128) }
        } else if p32 {
            // at binary32 precision the spelling is read as a binary32 directly
            key_of_f64(n.as_str().parse::<f32>().unwrap() as f64, false)
        } else {
            key_of_f64(n.as_str().parse::<f64>().unwrap(), false)
        }),
        Value::String(s) => Shp::Str(s.to_string()),
        Value::Array(a) => Shp::Arr(a.iter().map(|x| shape_js(x, p32)).collect()),
        Value::Object(o) => {
            let mut es: Vec<(String, Shp)> = o.iter().map(|e| (e.key.to_string(), shape_js(&e.value, p32))).collect();
            es.sort_by(|a, b| a.0.cmp(&b.0));
            Shp::Obj(es)
        }
    }
}
fn shape_sj(v: &serde_json::Value, p32: bool) -> Shp {
    use serde_json::Value as J;
    match v {
        J::Null => Shp::Null,
        J::Bool(b) => Shp::Bool(*b),
        J::Number(n) => Shp::Num(if let Some(u) = n.as_u64() {
            if p32 { key_of_f64((u as f32) as f64, false) } else { NKey::Int(u as i128) }
        } else if let Some(i) = n.as_i64() {
            if p32 { key_of_f64((i as f32) as f64, false) } else { NKey::Int(i as i128) }
        } else {
            key_of_f64(n.as_f64().unwrap(), p32)
        }),
        J::String(s) => Shp::Str(s.clone()),
        J::Array(a) => Shp::Arr(a.iter().map(|x| shape_sj(x, p32)).collect()),
        J::Object(o) => {
            let mut es: Vec<(String, Shp)> = o.iter().map(|(k, x)| (k.clone(), shape_sj(x, p32))).collect();
            es.sort_by(|a, b| a.0.cmp(&b.0));
            Shp::Obj(es)
        }
    }
}

fn ser_err(e: &SerializeError) -> &'static str {
    match e {
        SerializeError::NonStringKey => "EK",
        SerializeError::MalformedHighPrecisionNumber => "EM",
        SerializeError::Custom(_) => "EC",
    }
}

/// Everything the property speaks about, for one datum.
fn observe<T: Fam>(d: &T, sd: &Sd) -> String {
    let dom = finite_floats(sd);
    let mut out = format!("dom={} hyp=1 | ser ", dom as u8);
    let v = to_value(d);
    let mut jv: Option<Value> = None;
    match &v {
        Ok(v) => {
            enc_cvalue(v, &mut out);
            jv = Some(v.clone());
            match from_value::<T>(v.clone()) {
                Ok(back) => {
                    out.push_str(" | de ");
                    out.push_str(&sd_str(&record(&back), true));
                    out.push_str(&format!(" | rt={}", (back == *d) as u8));
                }
                Err(_) => out.push_str(" | de E | rt=0"),
            }
        }
        Err(e) => {
            out.push_str(ser_err(e));
            out.push_str(" | de - | rt=0");
        }
    }
    match serde_json::to_value(d) {
        Ok(j) => {
            out.push_str(" | sj ");
            enc_sj(&j, &mut out);
            let (sh, sh32) = match &jv {
                Some(v) => (shape_js(v, false) == shape_sj(&j, false), shape_js(v, true) == shape_sj(&j, true)),
                None => (false, false),
            };
            out.push_str(&format!(" | sh={} sh32={}", sh as u8, sh32 as u8));
            match from_value::<T>(Value::from_serde_json(j)) {
                Ok(back) => {
                    out.push_str(" | via ");
                    out.push_str(&sd_str(&record(&back), true));
                    out.push_str(&format!(" | vrt={}", (back == *d) as u8));
                }
                Err(_) => out.push_str(" | via E | vrt=0"),
            }
        }
        Err(_) => out.push_str(" | sj E | sh=0 sh32=0 | via - | vrt=0"),
    }
    out
}

/// The spellings the float dependencies produce for the finite float leaves of a datum:
/// `f32:<bits>:<cps>` / `f64:<bits>:<cps>` = `NumberBuf::try_from(x)` (lexical, what the
/// serializer calls), `sj:<bits>:<cps>` = Display of `serde_json::Number::from_f64(x)` for
/// every f64 and every widened f32.  They instantiate the model's section variables
/// fmt_f32 / fmt_f64 / fmt_sj as recorded oracles; the model checks its float hypotheses
/// on every entry (`hyp=`).
fn float_table(d: &Sd, out: &mut Vec<String>) {
    let mut sj = |x: f64, out: &mut Vec<String>| {
        if let Some(n) = serde_json::Number::from_f64(x) {
            out.push(format!("sj:{:x}:{}", x.to_bits(), hex_str(&n.to_string())));
        }
    };
    match d {
        Sd::F32(b) => {
            let x = f32::from_bits(*b);
            if x.is_finite() {
                let n = json_syntax::NumberBuf::try_from(x).unwrap();
                out.push(format!("f32:{:x}:{}", b, hex_str(n.as_str())));
                sj(x as f64, out);
            }
        }
        Sd::F64(b) => {
            let x = f64::from_bits(*b);
            if x.is_finite() {
                let n = json_syntax::NumberBuf::try_from(x).unwrap();
                out.push(format!("f64:{:x}:{}", b, hex_str(n.as_str())));
                sj(x, out);
            }
        }
        Sd::Some(x) | Sd::NewtypeStruct(_, x) | Sd::NewtypeVariant(_, _, x) => float_table(x, out),
        Sd::Seq(l) | Sd::Tuple(l) | Sd::TupleStruct(_, l) | Sd::TupleVariant(_, _, l) => {
            for x in l {
                float_table(x, out)
            }
        }
        Sd::Map(l) => {
            for (k, v) in l {
                float_table(k, out);
                float_table(v, out)
            }
        }
        Sd::Struct(_, l) | Sd::StructVariant(_, _, l) => {
            for (_, v) in l {
                float_table(v, out)
            }
        }
        _ => (),
    }
}
fn float_table_str(d: &Sd) -> String {
    let mut t = vec![];
    float_table(d, &mut t);
    t.sort();
    t.dedup();
    if t.is_empty() {
        "-".to_string()
    } else {
        t.join(" ")
    }
}

// ------------------------------------------------------------------------------------------
// ill-typed inputs for from_value: one random edit of to_value(d)

#[derive(Clone, Debug)]
enum J {
    Null,
    Bool(bool),
    Num(String),
    Str(String),
    Arr(Vec<J>),
    Obj(Vec<(String, J)>),
}
fn j_of(v: &Value) -> J {
    match v {
        Value::Null => J::Null,
        Value::Boolean(b) => J::Bool(*b),
        Value::Number(n) => J::Num(n.as_str().to_string()),
        Value::String(s) => J::Str(s.to_string()),
        Value::Array(a) => J::Arr(a.iter().map(j_of).collect()),
        Value::Object(o) => J::Obj(o.iter().map(|e| (e.key.to_string(), j_of(&e.value))).collect()),
    }
}
fn j_to(j: &J) -> Value {
    match j {
        J::Null => Value::Null,
        J::Bool(b) => Value::Boolean(*b),
        J::Num(n) => Value::Number(json_syntax::NumberBuf::new(n.clone().into_bytes().into()).expect("number text")),
        J::Str(s) => Value::String(s.as_str().into()),
        J::Arr(a) => Value::Array(a.iter().map(j_to).collect()),
        J::Obj(o) => Value::Object(json_syntax::Object::from_vec(
            o.iter().map(|(k, x)| json_syntax::object::Entry::new(k.as_str().into(), j_to(x))).collect(),
        )),
    }
}
fn j_count(j: &J) -> usize {
    1 + match j {
        J::Arr(a) => a.iter().map(j_count).sum(),
        J::Obj(o) => o.iter().map(|(_, x)| j_count(x)).sum(),
        _ => 0,
    }
}
const NUM_POOL: &[&str] = &[
    "0", "-1", "1", "127", "128", "-128", "-129", "255", "256", "65535", "65536", "-32769", "2147483648", "4294967296",
    "9223372036854775807", "9223372036854775808", "18446744073709551615", "18446744073709551616", "-9223372036854775808",
    "-9223372036854775809", "1.5", "1e2", "-0", "0.0", "1e400", "-1e400", "3.4028236e38", "16777217", "1E-400", "0.1", "5e-324",
];
/// edits node number `*at` (pre-order) of `j`
fn j_edit(j: &mut J, at: &mut isize, r: &mut Rng) {
    if *at == 0 {
        *at = -1;
        let repl_scalar = |r: &mut Rng| match r.below(7) {
            0 => J::Null,
            1 => J::Num(r.pick(NUM_POOL).to_string()),
            2 => J::Str(String::new()),
            3 => J::Arr(vec![]),
            4 => J::Obj(vec![]),
            5 => J::Bool(true),
            _ => J::Str("x".into()),
        };
        let new = match (&*j, r.below(6)) {
            (J::Arr(a), 0) => {
                let mut a = a.clone();
                a.push(if a.is_empty() || r.chance(1, 2) { J::Null } else { a[0].clone() });
                J::Arr(a)
            }
            (J::Arr(a), 1) if !a.is_empty() => {
                let mut a = a.clone();
                a.pop();
                J::Arr(a)
            }
            (J::Arr(a), 2) if !a.is_empty() => a[0].clone(),
            (J::Obj(o), 0) if !o.is_empty() => {
                let mut o = o.clone();
                o.remove(r.below(o.len()));
                J::Obj(o)
            }
            (J::Obj(o), 1) => {
                let mut o = o.clone();
                let k = "zz\u{1}extra".to_string();
                if !o.iter().any(|(x, _)| *x == k) {
                    o.insert(r.below(o.len() + 1), (k, J::Num("7".into())));
                }
                J::Obj(o)
            }
            (J::Obj(o), 2) if !o.is_empty() => {
                // rename one key; the new key may coincide with another one (repeated key) or read as
                // the same integer ("+1", "01" vs "1": one key of an integer-keyed map)
                let mut o = o.clone();
                let i = r.below(o.len());
                let nk = match r.below(5) {
                    0 => format!("{}x", o[i].0),
                    1 => o[i].0.chars().skip(1).collect(),
                    2 => format!("0{}", o[i].0),
                    3 => o[r.below(o.len())].0.clone(),
                    _ => format!("+{}", o[i].0),
                };
                o[i].0 = nk;
                J::Obj(o)
            }
            (J::Obj(o), 3) => J::Arr(o.iter().map(|(_, x)| x.clone()).collect()),
            (J::Obj(o), 4) if o.len() == 1 => match r.below(3) {
                0 => o[0].1.clone(),
                1 => J::Obj(vec![(o[0].0.clone(), J::Null)]),
                _ => J::Str(o[0].0.clone()),
            },
            (J::Str(s), 0) => J::Obj(vec![(s.clone(), J::Null)]),
            (J::Str(s), 1) => J::Str(format!("{s}\u{10000}")),
            (J::Str(s), 2) => J::Str(s.chars().skip(1).collect()),
            (J::Str(s), 3) => J::Obj(vec![(s.clone(), J::Arr(vec![]))]),
            (J::Num(_), 0..=3) => J::Num(r.pick(NUM_POOL).to_string()),
            (J::Null, 0..=2) => repl_scalar(r),
            (J::Bool(b), 0) => J::Bool(!*b),
            _ => repl_scalar(r),
        };
        *j = new;
        return;
    }
    *at -= 1;
    match j {
        J::Arr(a) => {
            for x in a.iter_mut() {
                if *at >= 0 {
                    j_edit(x, at, r)
                }
            }
        }
        J::Obj(o) => {
            for (_, x) in o.iter_mut() {
                if *at >= 0 {
                    j_edit(x, at, r)
                }
            }
        }
        _ => (),
    }
}
fn j_objects(j: &J) -> usize {
    match j {
        J::Arr(a) => a.iter().map(j_objects).sum(),
        J::Obj(o) => (!o.is_empty()) as usize + o.iter().map(|(_, x)| j_objects(x)).sum::<usize>(),
        _ => 0,
    }
}
/// a respelling of an integer-looking key that reads as the same integer (Rust's FromStr: "+1", "01", "-0")
fn respell_key(k: &str, r: &mut Rng) -> String {
    let digits = !k.is_empty() && k.bytes().all(|b| b.is_ascii_digit());
    let neg = k.len() > 1 && k.starts_with('-') && k[1..].bytes().all(|b| b.is_ascii_digit());
    if digits {
        match r.below(3) {
            0 => format!("+{k}"),
            1 => format!("0{k}"),
            _ => format!("+00{k}"),
        }
    } else if neg {
        format!("-0{}", &k[1..])
    } else {
        k.to_string()
    }
}
/// gives the `*at`-th non-empty object (pre-order) of `j` a repeated key
fn j_dup(j: &mut J, at: &mut isize, r: &mut Rng) {
    if *at < 0 {
        return;
    }
    match j {
        J::Arr(a) => {
            for x in a.iter_mut() {
                j_dup(x, at, r)
            }
        }
        J::Obj(o) => {
            if !o.is_empty() {
                if *at == 0 {
                    *at = -1;
                    let i = r.below(o.len());
                    let k = o[i].0.clone();
                    let other = o[r.below(o.len())].1.clone();
                    let ill = match r.below(4) {
                        0 => J::Null,
                        1 => J::Str("x".into()),
                        2 => J::Bool(true),
                        _ => J::Num(r.pick(NUM_POOL).to_string()),
                    };
                    match r.below(8) {
                        // the same key again, after the original: the new value wins in a map
                        0 => o.push((k, other)),
                        // ... before the original: the original wins, the copy is still deserialized
                        1 => o.insert(0, (k, other)),
                        // an ill-typed value under the repeated key, overwritten by the original
                        2 => o.insert(r.below(i + 1), (k, ill)),
                        // ... or overwriting it
                        3 => o.push((k, ill)),
                        // a key that reads as the same integer ("+1", "01"): one key of an integer-keyed map
                        4 => {
                            let k2 = respell_key(&k, r);
                            let at = r.below(o.len() + 1);
                            o.insert(at, (k2, other))
                        }
                        // three occurrences
                        5 => {
                            let v0 = o[i].1.clone();
                            o.insert(0, (k.clone(), other));
                            o.push((k, v0));
                        }
                        // every entry twice, in order
                        6 => {
                            let c = o.clone();
                            o.extend(c);
                        }
                        // a repeated key that no struct declares (skipped twice) / a fresh map key twice
                        _ => {
                            let uk = "zz\u{1}extra".to_string();
                            let v0 = o[i].1.clone();
                            o.insert(r.below(o.len() + 1), (uk.clone(), v0.clone()));
                            o.insert(r.below(o.len() + 1), (uk, v0));
                        }
                    }
                    return;
                }
                *at -= 1;
            }
            for (_, x) in o.iter_mut() {
                j_dup(x, at, r)
            }
        }
        _ => (),
    }
}
fn mutated_value<T: Fam>(d: &T, seed: u64) -> Option<Value> {
    if seed % 3 != 0 && seed % 6 != 1 {
        return None;
    }
    let v = to_value(d).ok()?;
    let mut j = j_of(&v);
    let mut r = Rng::new(seed ^ 0x5EED_C16);
    if seed % 3 == 0 {
        let mut at = r.below(j_count(&j)) as isize;
        j_edit(&mut j, &mut at, &mut r);
    } else {
        // repeated keys
        let n = j_objects(&j);
        if n == 0 {
            return None;
        }
        let mut at = r.below(n) as isize;
        j_dup(&mut j, &mut at, &mut r);
    }
    Some(j_to(&j))
}

fn depth_for(seed: u64) -> usize {
    1 + (seed % 4) as usize
}

fn make<T: Fam>(seed: u64) -> T {
    let mut r = Rng::new(seed);
    T::gen(&mut r, depth_for(seed))
}

fn case_line<T: Fam>(root: &str, seed: u64) -> String {
    let d: T = make(seed);
    let mut env = Env::default();
    let t = T::ty(&mut env);
    let mut s = format!("{root} {seed} | ");
    enc_env(&env, &mut s);
    s.push_str(" | ");
    enc_ty(&t, &mut s);
    s.push_str(" | ");
    let sd = record(&d);
    enc_sd(&sd, false, &mut s);
    s.push_str(" | ");
    s.push_str(&float_table_str(&sd));
    if let Some(x) = mutated_value(&d, seed) {
        s.push_str(" | X ");
        s.push_str(&value_str(&x));
    }
    s
}

fn run_case<T: Fam>(seed: u64, sd_text: &str, tab_text: &str, x_text: Option<&str>) -> String {
    let d: T = make(seed);
    let sd = record(&d);
    if sd_str(&sd, false) != sd_text || float_table_str(&sd) != tab_text {
        return "BADCASE sd / float table do not match (root, seed)".to_string();
    }
    let r = std::panic::AssertUnwindSafe((&d, &sd));
    let mut out = guarded(move || {
        let r = r;
        observe::<T>(r.0 .0, r.0 .1)
    });
    if let Some(xt) = x_text {
        // an explicit (usually ill-typed) value handed to from_value::<T>
        let xt = xt.to_string();
        out.push_str(&guarded(move || {
            let t = toks(&xt);
            let (v, rest) = dec_value(&t);
            if !rest.is_empty() {
                return " | dx BADCASE".to_string();
            }
            match from_value::<T>(v) {
                Ok(back) => format!(" | dx {}", sd_str(&record(&back), true)),
                Err(_) => " | dx E".to_string(),
            }
        }));
    }
    out
}

macro_rules! roots {
    ($( $name:literal => $t:ty ),* $(,)?) => {
        const ROOTS: &[&str] = &[$($name),*];
        fn root_case(name: &str, seed: u64) -> Option<String> {
            match name { $( $name => Some(case_line::<$t>($name, seed)), )* _ => None }
        }
        fn root_run(name: &str, seed: u64, sd: &str, tab: &str, x: Option<&str>) -> Option<String> {
            match name { $( $name => Some(run_case::<$t>(seed, sd, tab, x)), )* _ => None }
        }
    };
}

roots! {
    "bool" => bool, "i8" => i8, "i16" => i16, "i32" => i32, "i64" => i64, "u8" => u8, "u16" => u16, "u32" => u32,
    "u64" => u64, "f32" => f32, "f64" => f64, "char" => char, "String" => String, "unit" => (),
    "OptI32" => Option<i32>, "OptStr" => Option<String>, "OptVecOpt" => Option<Vec<Option<u8>>>, "OptF64" => Option<f64>,
    "VecI64" => Vec<i64>, "VecU64" => Vec<u64>, "VecF64" => Vec<f64>, "VecF32" => Vec<f32>, "VecStr" => Vec<String>,
    "VecPairs" => Vec<(u8, char)>, "VecVec" => Vec<Vec<bool>>,
    "Tup4" => (i8, u64, f64, String), "Tup1" => (bool,), "Tup2" => ((), Option<bool>), "Tup3" => (Vec<i8>, (char, f32), Color),
    "MapStrI32" => BTreeMap<String, i32>, "MapI8Str" => BTreeMap<i8, String>, "MapI64F64" => BTreeMap<i64, f64>,
    "MapU64U64" => BTreeMap<u64, u64>, "MapU32Unit" => BTreeMap<u32, ()>, "MapI16Vec" => BTreeMap<i16, Vec<i16>>,
    "MapCharF64" => BTreeMap<char, f64>, "MapColor" => BTreeMap<Color, u8>, "MapNest" => BTreeMap<String, BTreeMap<u64, Vec<bool>>>,
    "MapI32Shape" => BTreeMap<i32, Shape>, "MapU8Opt" => BTreeMap<u8, Option<String>>, "MapU16Point" => BTreeMap<u16, Point>,
    "Marker" => Marker, "Meters" => Meters, "Name" => Name, "MaybeByte" => MaybeByte, "Nothing" => Nothing,
    "Pair" => Pair, "Triple" => Triple, "Point" => Point, "EmptyS" => EmptyS, "Person" => Person, "Ints" => Ints,
    "Chain" => Chain, "Nested" => Nested, "Keyed" => Keyed,
    "Color" => Color, "Shape" => Shape, "Msg" => Msg, "Tree" => Tree, "Expr" => Expr, "Renamed" => Renamed,
    "VecMsg" => Vec<Msg>, "OptTree" => Option<Tree>, "MapStrExpr" => BTreeMap<String, Expr>,
    "Degenerate" => Degenerate, "VecDegenerate" => Vec<Degenerate>, "TokMap" => TokMap, "OptTokMap" => Option<TokMap>,
    "HashStrI32" => FixedHashMap<String, i32>, "HashU8Str" => FixedHashMap<u8, String>,
    "HashCharVec" => FixedHashMap<char, Vec<f32>>,
    "Path" => Path, "Single" => Single, "Ids" => Ids, "WrapPair" => WrapPair, "WrapMap" => WrapMap, "WrapOpt" => WrapOpt,
    "WrapWrap" => WrapWrap, "VecPath" => Vec<Path>, "OptSingle" => Option<Single>,
}

pub fn eval(line: &str) -> String {
    let Some((head, rest)) = line.split_once(" | ") else { return format!("BADCASE {line}") };
    let h = toks(head);
    if h.len() != 2 {
        return format!("BADCASE {line}");
    }
    let Ok(seed) = h[1].parse::<u64>() else { return format!("BADCASE {line}") };
    // env | ty | sd | float table [| X value]
    let parts: Vec<&str> = rest.splitn(5, " | ").collect();
    if parts.len() < 4 {
        return format!("BADCASE {line}");
    }
    let x = match parts.get(4) {
        Some(p) if p.starts_with("X ") => Some(&p[2..]),
        Some(_) => return format!("BADCASE {line}"),
        None => None,
    };
    match root_run(h[0], seed, parts[2], parts[3], x) {
        Some(s) => s,
        None => format!("BADCASE unknown root {}", h[0]),
    }
}

pub fn generate(args: &Args, out: &mut Out) {
    let mut r = Rng::new(args.seed);
    let per_root = if args.thorough() { 8000 } else { 900 };
    for name in ROOTS {
        for _ in 0..per_root {
            let seed = r.next() >> 1;
            // the datum is generated in every shard (cheap) so that all shards agree on the stream
            let line = root_case(name, seed).unwrap();
            out.case_str(&line);
        }
    }
}
