use std::fs::File;
use std::io::{BufWriter, Write};

pub struct Args {
    pub family: String,
    pub tier: String,
    pub seed: u64,
    pub shard: usize,
    pub nshards: usize,
    pub out: String,
    pub mode: String,
    pub cases_only: bool,
    pub extra: Vec<String>,
}

impl Args {
    pub fn parse() -> Args {
        let mut a = Args {
            family: String::new(),
            tier: "quick".into(),
            seed: 1,
            shard: 0,
            nshards: 1,
            out: ".".into(),
            mode: "gen".into(),
            cases_only: false,
            extra: vec![],
        };
        let mut it = std::env::args().skip(1);
        a.family = it.next().unwrap_or_default();
        a.mode = it.next().unwrap_or("gen".into());
        while let Some(x) = it.next() {
            match x.as_str() {
                "--tier" => a.tier = it.next().unwrap(),
                "--seed" => a.seed = it.next().unwrap().parse().unwrap(),
                "--shard" => a.shard = it.next().unwrap().parse().unwrap(),
                "--nshards" => a.nshards = it.next().unwrap().parse().unwrap(),
                "--out" => a.out = it.next().unwrap(),
                "--cases-only" => a.cases_only = true,
                _ => a.extra.push(x),
            }
        }
        a
    }
    pub fn thorough(&self) -> bool {
        self.tier == "thorough"
    }
}

/// The case being evaluated, and where the panic hook records it: when the implementation
/// panics while already unwinding (e.g. in the Drop of a removal iterator) the process
/// aborts and nothing can be caught; the hook has by then written the case that did it.
static CURRENT_CASE: std::sync::Mutex<String> = std::sync::Mutex::new(String::new());
static PANIC_FILE: std::sync::OnceLock<String> = std::sync::OnceLock::new();

fn set_current(c: &str) {
    if let Ok(mut g) = CURRENT_CASE.try_lock() {
        g.clear();
        g.push_str(c);
    }
}

/// Writer of (case, implementation result) pairs; keeps only the cases of this shard.
pub struct Out {
    cases: BufWriter<File>,
    results: BufWriter<File>,
    shard: usize,
    nshards: usize,
    counter: usize,
    pub written: usize,
    eval: fn(&str) -> String,
    cases_only: bool,
}

impl Out {
    pub fn new(args: &Args, eval: fn(&str) -> String) -> Out {
        std::fs::create_dir_all(&args.out).unwrap();
        let c = File::create(format!("{}/cases.{}.txt", args.out, args.shard)).unwrap();
        let r = File::create(format!("{}/impl.{}.txt", args.out, args.shard)).unwrap();
        let pf = format!("{}/panic.{}.txt", args.out, args.shard);
        let _ = std::fs::remove_file(&pf);
        let _ = PANIC_FILE.set(pf);
        Out {
            cases: BufWriter::with_capacity(1 << 20, c),
            results: BufWriter::with_capacity(1 << 20, r),
            shard: args.shard,
            nshards: args.nshards,
            counter: 0,
            written: 0,
            eval,
            cases_only: args.cases_only,
        }
    }

    /// Round-robin sharding of a deterministic enumeration: returns true when the next
    /// case belongs to this shard (so the implementation is only run for those).
    pub fn mine(&mut self) -> bool {
        let m = self.counter % self.nshards == self.shard;
        self.counter += 1;
        m
    }

    pub fn emit(&mut self, case: &str, result: &str) {
        debug_assert!(!case.contains('\n') && !result.contains('\n'));
        self.cases.write_all(case.as_bytes()).unwrap();
        self.cases.write_all(b"\n").unwrap();
        self.results.write_all(result.as_bytes()).unwrap();
        self.results.write_all(b"\n").unwrap();
        self.written += 1;
    }

    /// Enumerated case: evaluated (through the family's `eval`, so that the case line
    /// alone determines what the implementation is asked) only if it falls in this shard.
    pub fn case(&mut self, case: impl FnOnce() -> String) {
        if self.mine() {
            let c = case();
            set_current(&c);
            let r = if self.cases_only { String::new() } else { (self.eval)(&c) };
            self.emit(&c, &r);
        }
    }

    /// A case that is already a string (random generators that must advance their PRNG
    /// identically in every shard call this for every case).
    pub fn case_str(&mut self, c: &str) {
        if self.mine() {
            set_current(c);
            let r = if self.cases_only { String::new() } else { (self.eval)(c) };
            self.emit(c, &r);
        }
    }

    pub fn finish(mut self) {
        self.cases.flush().unwrap();
        self.results.flush().unwrap();
    }
}

/// splitmix64: every random choice of a run derives from one state.
#[derive(Clone)]
pub struct Rng(pub u64);

impl Rng {
    pub fn new(seed: u64) -> Rng {
        Rng(seed.wrapping_mul(0x9E3779B97F4A7C15) ^ 0xD1B54A32D192ED03)
    }
    pub fn next(&mut self) -> u64 {
        self.0 = self.0.wrapping_add(0x9E3779B97F4A7C15);
        let mut z = self.0;
        z = (z ^ (z >> 30)).wrapping_mul(0xBF58476D1CE4E5B9);
        z = (z ^ (z >> 27)).wrapping_mul(0x94D049BB133111EB);
        z ^ (z >> 31)
    }
    pub fn below(&mut self, n: usize) -> usize {
        if n == 0 {
            0
        } else {
            (self.next() % n as u64) as usize
        }
    }
    pub fn range(&mut self, lo: usize, hi: usize) -> usize {
        lo + self.below(hi - lo + 1)
    }
    pub fn chance(&mut self, num: usize, den: usize) -> bool {
        self.below(den) < num
    }
    pub fn pick<'a, T>(&mut self, xs: &'a [T]) -> &'a T {
        &xs[self.below(xs.len())]
    }
    pub fn fork(&mut self) -> Rng {
        Rng(self.next())
    }
}

/// A string of code points as comma separated lower-case hex; "-" when empty.
pub fn hex_str(s: &str) -> String {
    hex_cps(s.chars().map(|c| c as u32))
}

pub fn hex_cps(it: impl Iterator<Item = u32>) -> String {
    let mut out = String::new();
    for c in it {
        if !out.is_empty() {
            out.push(',');
        }
        out.push_str(&format!("{:x}", c));
    }
    if out.is_empty() {
        out.push('-');
    }
    out
}

pub fn hex_bytes(b: &[u8]) -> String {
    hex_cps(b.iter().map(|x| *x as u32))
}

/// Runs `f`, mapping a panic to the line "PANIC".
pub fn guarded(f: impl FnOnce() -> String + std::panic::UnwindSafe) -> String {
    match std::panic::catch_unwind(f) {
        Ok(s) => s,
        Err(_) => "PANIC".to_string(),
    }
}

pub fn quiet_panics() {
    std::panic::set_hook(Box::new(|_| {
        if let Some(path) = PANIC_FILE.get() {
            if let Ok(g) = CURRENT_CASE.try_lock() {
                use std::io::Write;
                if let Ok(mut f) = std::fs::OpenOptions::new().create(true).append(true).open(path) {
                    let _ = writeln!(f, "{}", g.as_str());
                }
            }
        }
    }));
}

/// `eval` mode: case lines on stdin, implementation results on stdout.
pub fn eval_stdin(eval: fn(&str) -> String) {
    use std::io::BufRead;
    let stdin = std::io::stdin();
    let stdout = std::io::stdout();
    let mut w = BufWriter::new(stdout.lock());
    for line in stdin.lock().lines() {
        let line = line.unwrap();
        let r = eval(&line);
        w.write_all(r.as_bytes()).unwrap();
        w.write_all(b"\n").unwrap();
    }
    w.flush().unwrap();
}

pub fn toks(line: &str) -> Vec<&str> {
    line.split(' ').filter(|t| !t.is_empty()).collect()
}

pub fn parse_hex_cps(t: &str) -> Vec<u32> {
    if t == "-" {
        vec![]
    } else {
        t.split(',').map(|h| u32::from_str_radix(h, 16).unwrap()).collect()
    }
}

pub fn parse_hex_string(t: &str) -> String {
    parse_hex_cps(t).into_iter().map(|c| char::from_u32(c).unwrap()).collect()
}

pub fn parse_hex_bytes(t: &str) -> Vec<u8> {
    parse_hex_cps(t).into_iter().map(|c| c as u8).collect()
}

// ---------------------------------------------------------------------------------
// canonical encodings of values, code maps and parse errors (shared by all families)

use json_syntax::{object::Entry, NumberBuf, Object, Value};

/// Token encoding of a value: `n t f #<hex> $<hex> [ v v ] { $k v $k v }`.
pub fn enc_value(v: &Value, out: &mut String) {
    match v {
        Value::Null => out.push('n'),
        Value::Boolean(true) => out.push('t'),
        Value::Boolean(false) => out.push('f'),
        Value::Number(n) => {
            out.push('#');
            out.push_str(&hex_str(n.as_str()));
        }
        Value::String(s) => {
            out.push('$');
            out.push_str(&hex_str(s.as_str()));
        }
        Value::Array(a) => {
            out.push('[');
            for x in a {
                out.push(' ');
                enc_value(x, out);
            }
            out.push_str(" ]");
        }
        Value::Object(o) => {
            out.push('{');
            for e in o.iter() {
                out.push_str(" $");
                out.push_str(&hex_str(e.key.as_str()));
                out.push(' ');
                enc_value(&e.value, out);
            }
            out.push_str(" }");
        }
    }
}

/// The kind predicates and the `as_*` / `into_*` / `*_mut` accessors of a value agree with its
/// variant (exactly the matching ones answer, with the payload itself).
pub fn accessors_agree(v: &Value) -> bool {
    use json_syntax::Kind;
    let k = v.kind();
    let flags = [v.is_null(), v.is_boolean(), v.is_number(), v.is_string(), v.is_array(), v.is_object()];
    let kinds = [Kind::Null, Kind::Boolean, Kind::Number, Kind::String, Kind::Array, Kind::Object];
    let want = match v {
        Value::Null => 0,
        Value::Boolean(_) => 1,
        Value::Number(_) => 2,
        Value::String(_) => 3,
        Value::Array(_) => 4,
        Value::Object(_) => 5,
    };
    let mut ok = k == kinds[want];
    for i in 0..6 {
        ok &= flags[i] == (i == want) && v.is_kind(kinds[i]) == (i == want);
    }
    let mut m = v.clone();
    ok &= match v {
        Value::Null => true,
        Value::Boolean(b) => v.as_boolean() == Some(*b) && m.as_boolean_mut().map(|x| *x) == Some(*b) && v.clone().into_boolean() == Some(*b),
        Value::Number(n) => {
            v.as_number().map(|x| x.as_str()) == Some(n.as_str())
                && m.as_number_mut().map(|x| x.as_str().to_string()) == Some(n.as_str().to_string())
                && v.clone().into_number().as_ref() == Some(n)
        }
        Value::String(s) => {
            v.as_string() == Some(s.as_str())
                && v.as_str() == Some(s.as_str())
                && m.as_string_mut().map(|x| x.as_str().to_string()) == Some(s.as_str().to_string())
                && v.clone().into_string().as_ref() == Some(s)
        }
        Value::Array(a) => {
            v.as_array() == Some(a.as_slice())
                && m.as_array_mut().map(|x| x.len()) == Some(a.len())
                && v.clone().into_array().as_ref() == Some(a)
                && v.is_empty_array_or_object() == a.is_empty()
        }
        Value::Object(o) => {
            v.as_object() == Some(o) && m.as_object_mut().map(|x| x.len()) == Some(o.len()) && v.clone().into_object().as_ref() == Some(o) && v.is_empty_array_or_object() == o.is_empty()
        }
    };
    // the accessors of the other kinds answer None
    ok &= v.as_boolean().is_some() == (want == 1)
        && v.as_number().is_some() == (want == 2)
        && v.as_string().is_some() == (want == 3)
        && v.as_str().is_some() == (want == 3)
        && v.as_array().is_some() == (want == 4)
        && v.as_object().is_some() == (want == 5)
        && v.clone().into_boolean().is_some() == (want == 1)
        && v.clone().into_number().is_some() == (want == 2)
        && v.clone().into_string().is_some() == (want == 3)
        && v.clone().into_array().is_some() == (want == 4)
        && v.clone().into_object().is_some() == (want == 5);
    if want < 4 {
        ok &= !v.is_empty_array_or_object();
    }
    let forced = v.force_as_array();
    ok &= match v {
        Value::Array(a) => forced == a.as_slice(),
        other => forced.len() == 1 && &forced[0] == other,
    };
    let mut t = v.clone();
    let taken = t.take();
    ok &= &taken == v && t == Value::Null;
    ok
}

pub fn value_str(v: &Value) -> String {
    let mut s = String::new();
    enc_value(v, &mut s);
    s
}

/// Inverse of `enc_value` over a token slice; returns the value and the tokens left.
/// Numbers are built with `new_unchecked` when the spelling is not a valid number so
/// that printer families can be exercised only on valid ones (callers generate valid ones).
pub fn dec_value<'a>(t: &'a [&'a str]) -> (Value, &'a [&'a str]) {
    let (h, mut r) = t.split_first().expect("value token");
    match *h {
        "n" => (Value::Null, r),
        "t" => (Value::Boolean(true), r),
        "f" => (Value::Boolean(false), r),
        "[" => {
            let mut items = vec![];
            while r[0] != "]" {
                let (v, r2) = dec_value(r);
                items.push(v);
                r = r2;
            }
            (Value::Array(items), &r[1..])
        }
        "{" => {
            let mut entries = vec![];
            while r[0] != "}" {
                let k = parse_hex_string(&r[0][1..]);
                let (v, r2) = dec_value(&r[1..]);
                entries.push(Entry::new(k.as_str().into(), v));
                r = r2;
            }
            (Value::Object(Object::from_vec(entries)), &r[1..])
        }
        x if x.starts_with('#') => {
            let s = parse_hex_string(&x[1..]);
            let n = NumberBuf::new(s.clone().into_bytes().into())
                .unwrap_or_else(|_| panic!("invalid number {s}"));
            (Value::Number(n), r)
        }
        x if x.starts_with('$') => (Value::String(parse_hex_string(&x[1..]).as_str().into()), r),
        other => panic!("bad value token {other}"),
    }
}

pub fn codemap_str(cm: &json_syntax::CodeMap) -> String {
    let mut s = String::new();
    for (i, e) in cm.iter() {
        if i > 0 {
            s.push(' ');
        }
        s.push_str(&format!("{}-{}-{}", e.span.start(), e.span.end(), e.volume));
    }
    if s.is_empty() {
        s.push('-');
    }
    // the other views of a code map (slice, deref, get, both IntoIterator impls, clone) agree
    let sl = cm.as_slice();
    let views_ok = sl.len() == cm.len()
        && cm.iter().all(|(i, e)| sl.get(i) == Some(e) && cm.get(i) == Some(e))
        && cm.iter().count() == sl.len()
        && cm.get(sl.len()).is_none()
        && (&*cm).into_iter().map(|(i, e)| (i, *e)).eq(cm.clone().into_iter())
        && cm.iter().map(|(i, _)| i).eq(0..sl.len());
    if !views_ok {
        s.push_str(" CODEMAP-VIEWS-DISAGREE");
    }
    s
}

pub fn error_str<E>(e: &json_syntax::parse::Error<E>) -> String {
    use json_syntax::parse::Error::*;
    match e {
        Stream(p, _) => format!("ST {p}"),
        Unexpected(p, None) => format!("U {p} -"),
        Unexpected(p, Some(c)) => format!("U {p} {:x}", *c as u32),
        InvalidUnicodeCodePoint(s, c) => format!("IC {} {} {:x}", s.start(), s.end(), c),
        MissingLowSurrogate(s, h) => format!("ML {} {} {:x}", s.start(), s.end(), h),
        InvalidLowSurrogate(s, h, c) => format!("IL {} {} {:x} {:x}", s.start(), s.end(), h, c),
        InvalidUtf8(p) => format!("IU {p}"),
    }
}

/// Dismantles a value iteratively (the derived drop glue recurses).
pub fn drop_deep(v: Value) {
    let mut stack = vec![v];
    while let Some(x) = stack.pop() {
        match x {
            Value::Array(a) => stack.extend(a),
            Value::Object(o) => stack.extend(o.into_iter().map(|e| e.value)),
            _ => (),
        }
    }
}

/// The same iterator consumed in the other standard ways (`skip`, `nth`, `step_by`, `last`,
/// `count`, `fold`, `size_hint`) must yield the same elements as plain `next()` calls: an
/// iterator that overrides one of these (or its size hint) and lets its running code-map
/// offset go stale is caught here.  The adaptors are applied to the RAW iterator `mk()`
/// (a `map` in between would hide an overridden `nth`); `sig` projects an item to its offsets.
pub fn styles_agree<I: Iterator, T: PartialEq + Clone>(mk: &dyn Fn() -> I, sig: &dyn Fn(I::Item) -> T) -> bool {
    let mut base: Vec<T> = vec![];
    let mut it = mk();
    while let Some(x) = it.next() {
        base.push(sig(x));
    }
    let n = base.len();
    let mut ok = mk().count() == n
        && mk().last().map(|x| sig(x)) == base.last().cloned()
        && mk().fold(0usize, |a, _| a + 1) == n;
    let (lo, hi) = mk().size_hint();
    ok &= lo <= n && hi.map_or(true, |h| h >= n);
    ok &= mk().map(|x| sig(x)).collect::<Vec<T>>() == base;
    for k in 1..=n.min(3) {
        ok &= mk().skip(k).map(|x| sig(x)).collect::<Vec<T>>() == base[k..].to_vec();
        let mut it = mk();
        ok &= it.nth(k - 1).map(|x| sig(x)) == Some(base[k - 1].clone());
        let mut rest: Vec<T> = vec![];
        while let Some(x) = it.next() {
            rest.push(sig(x));
        }
        ok &= rest == base[k..].to_vec();
    }
    ok &= mk().nth(n).is_none() && mk().nth(n + 1).is_none() && mk().skip(n).next().is_none();
    // a partly consumed iterator: size_hint brackets what is left, count() returns it
    for k in 0..=n.min(4) {
        let mut it = mk();
        for _ in 0..k {
            it.next();
        }
        let (lo, hi) = it.size_hint();
        ok &= lo <= n - k && hi.map_or(true, |h| h >= n - k);
        ok &= it.count() == n - k;
    }
    {
        // after the end: still nothing left according to size_hint's lower bound
        let mut it = mk();
        while it.next().is_some() {}
        ok &= it.size_hint().0 == 0;
    }
    if n >= 2 {
        ok &= mk().step_by(2).map(|x| sig(x)).collect::<Vec<T>>() == base.iter().step_by(2).cloned().collect::<Vec<T>>();
        let mut it = mk();
        ok &= it.nth(n - 1).map(|x| sig(x)) == Some(base[n - 1].clone()) && it.next().is_none();
    }
    if n >= 3 {
        ok &= mk().step_by(3).map(|x| sig(x)).collect::<Vec<T>>() == base.iter().step_by(3).cloned().collect::<Vec<T>>();
        // nth twice in a row
        let mut it = mk();
        ok &= it.nth(1).map(|x| sig(x)) == Some(base[1].clone());
        ok &= it.nth(0).map(|x| sig(x)) == Some(base[2].clone());
    }
    ok
}

/// The backward ways of consuming a double-ended iterator (`rev`, `next_back`, `nth_back`,
/// `rfold`, `rfind`, both ends alternately until they meet) against its forward sequence.
pub fn styles_agree_back<I: DoubleEndedIterator, T: PartialEq + Clone>(mk: &dyn Fn() -> I, sig: &dyn Fn(I::Item) -> T) -> bool {
    let mut base: Vec<T> = vec![];
    let mut it = mk();
    while let Some(x) = it.next() {
        base.push(sig(x));
    }
    let n = base.len();
    let rev: Vec<T> = base.iter().rev().cloned().collect();
    let mut ok = mk().rev().map(|x| sig(x)).collect::<Vec<T>>() == rev;
    ok &= mk().rfold(0usize, |a, _| a + 1) == n;
    ok &= mk().next_back().map(|x| sig(x)) == rev.first().cloned();
    ok &= mk().nth_back(n).is_none();
    for k in 1..=n.min(3) {
        let mut it = mk();
        ok &= it.nth_back(k - 1).map(|x| sig(x)) == Some(rev[k - 1].clone());
        let rest: Vec<T> = it.map(|x| sig(x)).collect();
        ok &= rest == base[..n - k].to_vec();
        ok &= mk().rev().skip(k).map(|x| sig(x)).collect::<Vec<T>>() == rev[k..].to_vec();
    }
    // alternate ends until they meet
    let mut it = mk();
    let (mut front, mut back) = (vec![], vec![]);
    loop {
        match it.next() {
            Some(x) => front.push(sig(x)),
            None => break,
        }
        match it.next_back() {
            Some(x) => back.push(sig(x)),
            None => break,
        }
    }
    ok &= it.next().is_none() && it.next_back().is_none();
    back.reverse();
    front.extend(back);
    ok &= front == base;
    ok
}
