//! C11: navigation with code-map offsets.  Case lines: `s 0 <hex doc>` (every array, object,
//! key and fragment index of the parsed document) and `t <type> <hex doc>` (TryFromJson).
use crate::common::*;
use json_syntax::array::JsonArray;
use json_syntax::code_map::Mapped;
use json_syntax::{CodeMap, FragmentRef, Kind, Parse, TryFromJson, Unexpected, Value};
use std::collections::BTreeMap;

fn kind_idx(k: Kind) -> usize {
    [Kind::Null, Kind::Boolean, Kind::Number, Kind::String, Kind::Array, Kind::Object]
        .iter()
        .position(|x| *x == k)
        .unwrap()
}

fn frag_tag(f: &FragmentRef) -> String {
    match f {
        FragmentRef::Value(v) => format!("v{}", kind_idx(v.kind())),
        FragmentRef::Entry(_) => "e".into(),
        FragmentRef::Key(_) => "k".into(),
    }
}

/// Where spans point: the text between two source offsets (None when they are not boundaries of
/// the source), and the options the document was parsed with (its fragments are re-read with them).
pub struct Src<'a> {
    pub text: &'a dyn Fn(usize, usize) -> Option<String>,
    pub o: u32,
}

fn span_text(src: &Src, cm: &CodeMap, off: usize) -> Option<String> {
    cm.get(off).and_then(|e| if e.span.start() <= e.span.end() { (src.text)(e.span.start(), e.span.end()) } else { None })
}

/// Is the source text of code-map entry `off` exactly the given value / key / entry?
fn span_is_value(src: &Src, cm: &CodeMap, off: usize, v: &Value) -> bool {
    match span_text(src, cm, off) {
        Some(text) => match Value::parse_str_with(&text, crate::parse::opts(src.o)) {
            Ok((w, _)) => &w == v && !text.starts_with([' ', '\t', '\n', '\r']) && !text.ends_with([' ', '\t', '\n', '\r']),
            Err(_) => false,
        },
        None => false,
    }
}
fn span_is_key(src: &Src, cm: &CodeMap, off: usize, k: &str) -> bool {
    span_is_value(src, cm, off, &Value::String(k.into()))
}
fn span_is_entry(src: &Src, cm: &CodeMap, off: usize, k: &str, v: &Value) -> bool {
    match span_text(src, cm, off) {
        Some(text) => match Value::parse_str_with(&format!("{{{text}}}"), crate::parse::opts(src.o)) {
            Ok((Value::Object(o), _)) => o.len() == 1 && o.entries()[0].key.as_str() == k && &o.entries()[0].value == v && text.starts_with('"'),
            _ => false,
        },
        None => false,
    }
}


fn walk(src: &Src, v: &Value, cm: &CodeMap, off: usize, out: &mut String, spans_ok: &mut bool) {
    match v {
        Value::Array(a) => {
            out.push_str(&format!(" A{off}["));
            let items: Vec<Mapped<&Value>> = a.iter_mapped(cm, off).collect();
            // the slice impl must agree with the Vec impl
            let items2: Vec<usize> = a.as_slice().iter_mapped(cm, off).map(|m| m.offset).collect();
            *spans_ok &= styles_agree(&|| a.iter_mapped(cm, off), &|m| m.offset)
                && styles_agree(&|| a.as_slice().iter_mapped(cm, off), &|m| m.offset);
            for (i, m) in items.iter().enumerate() {
                out.push_str(&format!("{}{}", if i > 0 { "," } else { "" }, m.offset));
                *spans_ok &= span_is_value(src, cm, m.offset, m.value) && items2[i] == m.offset;
            }
            out.push(']');
            for m in items {
                walk(src, m.value, cm, m.offset, out, spans_ok);
            }
        }
        Value::Object(o) => {
            out.push_str(&format!(" O{off}["));
            let ents: Vec<_> = o.iter_mapped(cm, off).collect();
            *spans_ok &= styles_agree(&|| o.iter_mapped(cm, off), &|m| (m.offset, m.value.key.offset, m.value.value.offset));
            for (i, m) in ents.iter().enumerate() {
                out.push_str(&format!(
                    "{}{}/{}/{}",
                    if i > 0 { "," } else { "" },
                    m.offset,
                    m.value.key.offset,
                    m.value.value.offset
                ));
                *spans_ok &= span_is_entry(src, cm, m.offset, m.value.key.value.as_str(), m.value.value.value)
                    && span_is_key(src, cm, m.value.key.offset, m.value.key.value.as_str())
                    && span_is_value(src, cm, m.value.value.offset, m.value.value.value);
            }
            out.push(']');
            // keyed lookups: every key occurring, plus an absent one
            let mut keys: Vec<String> = vec![];
            for e in o.iter() {
                if !keys.iter().any(|k| k == e.key.as_str()) {
                    keys.push(e.key.as_str().to_string());
                }
            }
            keys.push("\u{1}absent".into());
            for k in &keys {
                let k = k.as_str();
                let a: Vec<String> = o
                    .get_mapped_entries_with_index(cm, off, k)
                    .map(|(i, m)| format!("{}@{}/{}/{}", i, m.offset, m.value.key.offset, m.value.value.offset))
                    .collect();
                // the seven other lookups are projections: check them here, print one flag
                let b: Vec<String> = o
                    .get_mapped_entries(cm, off, k)
                    .map(|m| format!("{}/{}/{}", m.offset, m.value.key.offset, m.value.value.offset))
                    .collect();
                let c: Vec<usize> = o.get_mapped(cm, off, k).map(|m| m.offset).collect();
                let d: Vec<(usize, usize)> = o.get_mapped_with_index(cm, off, k).map(|(i, m)| (i, m.offset)).collect();
                let styles = styles_agree(&|| o.get_mapped_entries_with_index(cm, off, k), &|(i, m)| {
                    (i, m.offset, m.value.key.offset, m.value.value.offset)
                }) && styles_agree(&|| o.get_mapped_entries(cm, off, k), &|m| m.offset)
                    && styles_agree(&|| o.get_mapped(cm, off, k), &|m| m.offset)
                    && styles_agree(&|| o.get_mapped_with_index(cm, off, k), &|(i, m)| (i, m.offset));
                let proj_ok = styles && a.iter().zip(&b).all(|(x, y)| x.split_once('@').unwrap().1 == y)
                    && a.len() == b.len()
                    && c.len() == a.len()
                    && d.len() == a.len()
                    && a.iter().zip(&c).all(|(x, y)| x.rsplit('/').next().unwrap() == y.to_string())
                    && a.iter().zip(&d).all(|(x, (i, y))| {
                        x.rsplit('/').next().unwrap() == y.to_string() && x.split('@').next().unwrap() == i.to_string()
                    });
                let uniq = match o.get_unique_mapped_entry(cm, off, k) {
                    Ok(None) => "none".to_string(),
                    Ok(Some(m)) => format!("one{}", m.offset),
                    Err(d) => format!("dup{}+{}", d.0.offset, d.1.offset),
                };
                let uniq2 = match o.get_unique_mapped(cm, off, k) {
                    Ok(None) => "none".to_string(),
                    Ok(Some(m)) => format!("one{}", m.offset - 2),
                    Err(d) => format!("dup{}+{}", d.0.offset - 2, d.1.offset - 2),
                };
                let uniq3 = match o.get_unique_mapped_entry_with_index(cm, off, k) {
                    Ok(None) => "none".to_string(),
                    Ok(Some((_, m))) => format!("one{}", m.offset),
                    Err(d) => format!("dup{}+{}", d.0 .1.offset, d.1 .1.offset),
                };
                let uniq4 = match o.get_unique_mapped_with_index(cm, off, k) {
                    Ok(None) => "none".to_string(),
                    Ok(Some((_, m))) => format!("one{}", m.offset - 2),
                    Err(d) => format!("dup{}+{}", d.0 .1.offset - 2, d.1 .1.offset - 2),
                };
                out.push_str(&format!(
                    " K{}<{}>{}:{}:{}",
                    off,
                    hex_str(k),
                    if a.is_empty() { "-".to_string() } else { a.join(",") },
                    uniq,
                    (proj_ok && uniq == uniq2 && uniq == uniq3 && uniq == uniq4) as u8
                ));
            }
            for m in ents {
                walk(src, m.value.value.value, cm, m.value.value.offset, out, spans_ok);
            }
        }
        _ => (),
    }
}

/// The same document read from a source whose characters declare their UTF-16 length in bytes
/// (`Parse::parse_infallible_with` over `DecodedChar`s): the walk yields the same offsets, and every
/// span, now in UTF-16 byte offsets, is the source text of its element.
fn declared_length_walk(src: &str, o: u32, nav: &str, cm_len: usize) -> bool {
    let chars: Vec<char> = src.chars().collect();
    let mut at = std::collections::HashMap::new();
    let mut a = 0usize;
    at.insert(0usize, 0usize);
    let mut dcs = vec![];
    for (i, c) in chars.iter().enumerate() {
        let l = 2 * c.len_utf16();
        dcs.push(decoded_char::DecodedChar::new(*c, l));
        a += l;
        at.insert(a, i + 1);
    }
    match Value::parse_infallible_with(dcs.into_iter(), crate::parse::opts(o)) {
        Err(_) => false,
        Ok((v, cm)) => {
            let text = |s: usize, e: usize| match (at.get(&s), at.get(&e)) {
                (Some(&i), Some(&j)) if i <= j => Some(chars[i..j].iter().collect::<String>()),
                _ => None,
            };
            let mut nav2 = String::new();
            let mut ok = true;
            walk(&Src { text: &text, o }, &v, &cm, 0, &mut nav2, &mut ok);
            let same = nav2 == nav && cm.len() == cm_len;
            drop_deep(v);
            ok && same
        }
    }
}

pub fn eval_doc(src: &str, o: u32) -> String {
    match Value::parse_str_with(src, crate::parse::opts(o)) {
        Err(_) => "ERR".into(),
        Ok((v, cm)) => {
            let count = v.traverse().count();
            let mut frags = vec![];
            for i in 0..count + 3 {
                frags.push(match v.get_fragment(i) {
                    Ok(f) => frag_tag(&f),
                    Err(r) => format!("E{r}"),
                });
            }
            // far past the end: the remaining distance, whatever the index
            for i in [1usize << 32, usize::MAX - 1, usize::MAX] {
                frags.push(match v.get_fragment(i) {
                    Ok(f) => frag_tag(&f),
                    Err(r) => format!("E{r}"),
                });
            }
            let trav: Vec<String> = v.traverse().map(|(i, f)| format!("{}{}", i, frag_tag(&f))).collect();
            let mut nav = String::new();
            let mut spans_ok = true;
            let text = |s: usize, e: usize| src.get(s..e).map(|t| t.to_string());
            walk(&Src { text: &text, o }, &v, &cm, 0, &mut nav, &mut spans_ok);
            // sub_fragments() of every fragment: forward, backward and adaptor-driven consumption agree
            for (_, f) in v.traverse() {
                spans_ok &= styles_agree(&|| f.sub_fragments(), &|g| frag_tag(&g)) && styles_agree_back(&|| f.sub_fragments(), &|g| frag_tag(&g));
            }
            let dl = src.len() > 3000 || declared_length_walk(src, o, &nav, cm.len());
            let s = format!(
                "V={} C={} CA={}/{}/{}/{}/{}/{} T={} F={} S={} DL={} N={}",
                v.volume(),
                count,
                v.count(|_, f| f.is_array() || f.is_object()),
                v.count(|_, _| true),
                v.count(|_, f| f.is_key()),
                v.count(|_, f| f.is_entry()),
                v.count(|i, _| i % 2 == 0),
                v.count(|i, f| i % 3 == 1 && f.is_value()),
                trav.join(","),
                frags.join(","),
                spans_ok as u8,
                dl as u8,
                if nav.is_empty() { " -" } else { &nav }
            );
            drop_deep(v);
            s
        }
    }
}

// ---- TryFromJson ----
#[derive(Debug)]
pub struct E(usize, usize, usize);
impl From<Mapped<Unexpected>> for E {
    fn from(m: Mapped<Unexpected>) -> E {
        let exp = m.value.expected.iter().next().map(kind_idx).unwrap_or(9);
        E(m.offset, exp, kind_idx(m.value.found))
    }
}
impl From<Mapped<std::convert::Infallible>> for E {
    fn from(_: Mapped<std::convert::Infallible>) -> E {
        unreachable!()
    }
}
macro_rules! leaf {
    ($name:ident, $ty:ty) => {
        #[allow(dead_code)]
        pub struct $name($ty);
        impl TryFromJson for $name {
            type Error = E;
            fn try_from_json_at(v: &Value, cm: &CodeMap, off: usize) -> Result<Self, E> {
                <$ty>::try_from_json_at(v, cm, off).map($name).map_err(Into::into)
            }
        }
    };
}
leaf!(B, bool);
leaf!(U, ());
leaf!(S, String);
// numbers: f64 accepts every JSON number (the other widths add an out-of-bounds error that
// depends on json-number's parsers, a dependency); a non-number is a kind mismatch
leaf!(N, f64);
impl From<Mapped<json_syntax::TryIntoNumberError<json_syntax::NumberType<f64>>>> for E {
    fn from(m: Mapped<json_syntax::TryIntoNumberError<json_syntax::NumberType<f64>>>) -> E {
        match m.value {
            json_syntax::TryIntoNumberError::Unexpected(u) => E::from(Mapped::new(m.offset, u)),
            json_syntax::TryIntoNumberError::OutOfBounds(_) => E(m.offset, 8, 8),
        }
    }
}

pub const TYPES: [&str; 13] = ["VB", "VVB", "VOB", "MB", "MVS", "VMU", "OVB", "MMOS", "VS", "VN", "MVN", "ON", "VMON"];

fn conv<T: TryFromJson<Error = E>>(v: &Value, cm: &CodeMap) -> String {
    match T::try_from_json(v, cm) {
        Ok(_) => "ok".into(),
        Err(E(o, e, f)) => format!("err@{o}:{e}:{f}"),
    }
}

pub fn eval_conv(ty: &str, src: &str) -> String {
    match Value::parse_str(src) {
        Err(_) => "ERR".into(),
        Ok((v, cm)) => match ty {
            "VB" => conv::<Vec<B>>(&v, &cm),
            "VVB" => conv::<Vec<Vec<B>>>(&v, &cm),
            "VOB" => conv::<Vec<Option<B>>>(&v, &cm),
            "MB" => conv::<BTreeMap<String, B>>(&v, &cm),
            "MVS" => conv::<BTreeMap<String, Vec<S>>>(&v, &cm),
            "VMU" => conv::<Vec<BTreeMap<String, U>>>(&v, &cm),
            "OVB" => conv::<Option<Vec<B>>>(&v, &cm),
            "MMOS" => conv::<BTreeMap<String, BTreeMap<String, Option<S>>>>(&v, &cm),
            "VS" => conv::<Vec<Box<S>>>(&v, &cm),
            "VN" => conv::<Vec<N>>(&v, &cm),
            "MVN" => conv::<BTreeMap<String, Vec<N>>>(&v, &cm),
            "ON" => conv::<Option<N>>(&v, &cm),
            "VMON" => conv::<Vec<BTreeMap<String, Option<N>>>>(&v, &cm),
            _ => "BADTYPE".into(),
        },
    }
}

pub fn eval(line: &str) -> String {
    let line = line.to_string();
    guarded(move || {
        let t = toks(&line);
        match t.as_slice() {
            ["s", o, h] => eval_doc(&parse_hex_string(h), o.parse().unwrap_or(0)),
            ["t", ty, h] => eval_conv(ty, &parse_hex_string(h)),
            _ => format!("BADCASE {line}"),
        }
    })
}

/// A document of the given type, with `bad` (a wrong-kind token) planted at leaf number `plant`.
fn doc_of(ty: &str, r: &mut Rng, leaf: &mut usize, plant: usize, bad: &str, s: &mut String) {
    let (head, rest) = ty.split_at(1);
    match head {
        "V" => {
            s.push('[');
            for i in 0..r.below(4) {
                if i > 0 {
                    s.push_str(", ");
                }
                doc_of(rest, r, leaf, plant, bad, s);
            }
            s.push(']');
        }
        "M" => {
            s.push('{');
            for i in 0..r.below(4) {
                if i > 0 {
                    s.push(',');
                }
                s.push_str(*r.pick(&["\"a\": ", "\"b\":", " \"a\" : "]));
                doc_of(rest, r, leaf, plant, bad, s);
            }
            s.push('}');
        }
        "O" => {
            if r.chance(1, 3) {
                *leaf += 1;
                if *leaf - 1 == plant {
                    s.push_str(bad)
                } else {
                    s.push_str("null")
                }
            } else {
                doc_of(rest, r, leaf, plant, bad, s)
            }
        }
        _ => {
            *leaf += 1;
            if *leaf - 1 == plant {
                s.push_str(bad);
            } else {
                match head {
                    "B" => s.push_str(*r.pick(&["true", "false"])),
                    "U" => s.push_str("null"),
                    "N" => s.push_str(*r.pick(&["0", "-1.5e3", "1e400", "18446744073709551616", "0.1"])),
                    _ => s.push_str(*r.pick(&["\"\"", "\"x\"", "\"\\u00e9\""])),
                }
            }
        }
    }
}

pub fn generate(args: &Args, out: &mut Out) {
    let mut rng = Rng::new(args.seed);
    let full = args.thorough();
    // 1. all token strings (documents of <= 5 / 6 tokens); rejected ones are cheap
    let n1 = if full { 6 } else { 5 };
    let toks14 = crate::parse::TOKENS;
    let mut idx: Vec<usize> = vec![0];
    loop {
        // only sequences that start with a container opener can be containers
        if idx[0] <= 2 {
            out.case(|| {
                let s: String = idx.iter().map(|i| toks14[*i]).collect();
                format!("s 0 {}", hex_str(&s))
            });
        }
        let mut k = idx.len();
        loop {
            if k == 0 {
                idx = vec![0; idx.len() + 1];
                break;
            }
            k -= 1;
            if idx[k] + 1 < toks14.len() {
                idx[k] += 1;
                for j in k + 1..idx.len() {
                    idx[j] = 0;
                }
                break;
            }
        }
        if idx.len() > n1 {
            break;
        }
    }
    // 2. corpus
    if let Ok(rd) = std::fs::read_dir("/repo/tests/inputs") {
        let mut files: Vec<_> = rd.flatten().map(|e| e.path()).collect();
        files.sort();
        for p in files {
            if let Ok(s) = std::fs::read_to_string(&p) {
                if s.len() <= 8192 {
                    out.case_str(&format!("s 0 {}", hex_str(&s)));
                }
            }
        }
    }
    // 3. random documents, rich in empty containers and duplicate keys
    let n = if full { 150000 } else { 8000 };
    for _ in 0..n {
        let mut r = rng.fork();
        let mut s = String::new();
        crate::parse::gen_ws(&mut r, &mut s);
        let d = r.range(1, 6);
        crate::parse::gen_doc(&mut r, d, &mut s, false);
        crate::parse::gen_ws(&mut r, &mut s);
        out.case_str(&format!("s 0 {}", hex_str(&s)));
    }
    // 3b. documents accepted only under a lenient option record: strings and keys built from
    // surrogate escapes in every arrangement (in particular an unpaired one right before the
    // closing quote), followed by siblings whose offsets depend on the string's fragment
    let elems = ["\\ud83d", "\\ude00", "x", "\\n", "\u{e9}"];
    for n in 1..=3usize {
        for code in 0..elems.len().pow(n as u32) {
            let mut c = code;
            let mut body = String::new();
            for _ in 0..n {
                body.push_str(elems[c % elems.len()]);
                c /= elems.len();
            }
            for o in 1..=3u32 {
                out.case(|| format!("s {o} {}", hex_str(&format!("[\"{body}\", [], {{\"{body}\" : \"{body}\", \"k\":[1]}}, 2]"))));
                if n <= 2 {
                    out.case(|| format!("s {o} {}", hex_str(&format!("{{\"{body}\":{{\"{body}\":0}},\"{body}\":[\"{body}\",null]}}"))));
                }
            }
        }
    }
    for k in 0..n / 4 {
        let mut r = rng.fork();
        let mut s = String::new();
        crate::parse::gen_ws(&mut r, &mut s);
        let d = r.range(1, 5);
        crate::parse::gen_doc(&mut r, d, &mut s, true);
        crate::parse::gen_ws(&mut r, &mut s);
        out.case_str(&format!("s {} {}", 1 + k % 3, hex_str(&s)));
    }
    // 3c. long arrays (7..20 items) with non-empty containers among the items, also as an entry value
    for n in [7usize, 8, 9, 10, 17, 20] {
        for pos in [0usize, 1, n / 2, n - 2, n - 1] {
            for nd in ["[1,[2]]", "{\"a\":{\"b\":[1]}}", "{\"k\":1,\"k\":[2,3]}"] {
                let items: Vec<String> = (0..n).map(|i| if i == pos { nd.to_string() } else { i.to_string() }).collect();
                out.case_str(&format!("s 0 {}", hex_str(&format!("[{}]", items.join(",")))));
                out.case_str(&format!("s 0 {}", hex_str(&format!("{{\"w\": [{}], \"z\": {}}}", items.join(" , "), nd))));
            }
        }
    }
    // 4. conversions with a wrong-kind value planted at every leaf position
    let nconv = if full { 6000 } else { 500 };
    for k in 0..nconv {
        let ty = TYPES[k % TYPES.len()];
        let seed = rng.next();
        // count leaves
        let mut r = Rng(seed);
        let mut leaves = 0usize;
        let mut s = String::new();
        doc_of(ty, &mut r, &mut leaves, usize::MAX, "", &mut s);
        out.case_str(&format!("t {} {}", ty, hex_str(&s)));
        for plant in 0..leaves {
            for bad in ["1", "[]", "{}", "null", "\"s\"", "true"] {
                let mut r = Rng(seed);
                let mut l = 0usize;
                let mut s = String::new();
                doc_of(ty, &mut r, &mut l, plant, bad, &mut s);
                out.case_str(&format!("t {} {}", ty, hex_str(&s)));
            }
        }
        // a wrong kind at the root
        for bad in ["1", "null", "\"s\"", "[]", "{}"] {
            out.case_str(&format!("t {} {}", ty, hex_str(bad)));
        }
    }
}
