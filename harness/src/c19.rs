//! C19: the `json!` macro builds the same value as parsing the same literal text.
//!
//! The quantifier of this property ranges over PROGRAMS, so the implementation side is a
//! compiled batch: the generated documents are written as `json!( ... )` invocations into
//! Rust source files, compiled with rustc against the working tree of the crate, and run.
//!
//! Case lines: `m <document>` where a document is the token sequence
//!   n | t | f | i<decimal> | i<decimal>:<i8|i16|i32|i64|u8|u16|u32|u64> (suffixed literal)
//!   | d<+|-><float literal>[f32|f64]=<reference spelling> | $<hex cps>
//!     (a float literal of any spelling; the reference spelling -- shortest digits of the f64 /
//!     f32 it denotes, lexical's layout -- is its JSON text: the literal passes through the float)
//!   | [ doc* ] | [ doc* ]+            (`]+` = written with a trailing comma)
//!   | { (key doc)* } | { (key doc)* }+
//!   key = k<hex> (string literal) | p<hex> (parenthesised literal) | v<hex> (a `&str`
//!         constant named after its contents) | q<hex> (parenthesised constant)
//! Observable: `M=<macro value> P=<Value::parse_str(text) or ERR> EQ=<macro == parsed> T=<hex text>`
//! where text is the corresponding JSON text; `COMPILE-ERROR <rustc message>` when the
//! program containing the document does not compile.
//!
//! Everything generated lives under <framework root>/build/c19-crate and build/c19-target.
use crate::common::*;
use std::collections::BTreeSet;
use std::fmt::Write as _;
use std::path::{Path, PathBuf};
use std::process::Command;

#[derive(Clone, Debug, PartialEq)]
pub enum KForm {
    Lit,
    Paren,
    Var,
    ParenVar,
}

/// The integer types T with `impl From<T> for Value` (the suffixes an integer literal may carry).
#[derive(Clone, Copy, Debug, PartialEq)]
pub enum ITy {
    I8,
    I16,
    I32,
    I64,
    U8,
    U16,
    U32,
    U64,
}

impl ITy {
    pub const ALL: [ITy; 8] = [ITy::I8, ITy::I16, ITy::I32, ITy::I64, ITy::U8, ITy::U16, ITy::U32, ITy::U64];
    pub fn name(self) -> &'static str {
        ["i8", "i16", "i32", "i64", "u8", "u16", "u32", "u64"][self as usize]
    }
    pub fn min(self) -> i128 {
        [i8::MIN as i128, i16::MIN as i128, i32::MIN as i128, i64::MIN as i128, 0, 0, 0, 0][self as usize]
    }
    pub fn max(self) -> i128 {
        [i8::MAX as i128, i16::MAX as i128, i32::MAX as i128, i64::MAX as i128, u8::MAX as i128, u16::MAX as i128, u32::MAX as i128, u64::MAX as i128]
            [self as usize]
    }
    pub fn parse(s: &str) -> Option<ITy> {
        ITy::ALL.into_iter().find(|t| t.name() == s)
    }
}

fn int_in_range(z: i128, ty: Option<ITy>) -> bool {
    let t = ty.unwrap_or(ITy::I32);
    t.min() <= z && z <= t.max()
}

#[derive(Clone, Copy, Debug, PartialEq)]
pub enum FTy {
    F32,
    F64,
}

impl FTy {
    pub fn name(self) -> &'static str {
        match self {
            FTy::F32 => "f32",
            FTy::F64 => "f64",
        }
    }
}

fn sfx_name(s: Option<FTy>) -> &'static str {
    s.map(|t| t.name()).unwrap_or("")
}

#[derive(Clone, Debug, PartialEq)]
pub enum Doc {
    Null,
    Bool(bool),
    /// value and optional type suffix; a negative value is written `-<magnitude><suffix>`
    Int(i128, Option<ITy>),
    /// sign, the literal as written, its suffix, the reference spelling of the float it denotes
    Float(bool, String, Option<FTy>, String),
    Str(String),
    Arr(Vec<Doc>, bool),
    Obj(Vec<(KForm, String, Doc)>, bool),
}

// ------------------------------------------------------------------ case-line codec

pub fn enc_doc(d: &Doc, out: &mut String) {
    match d {
        Doc::Null => out.push('n'),
        Doc::Bool(true) => out.push('t'),
        Doc::Bool(false) => out.push('f'),
        Doc::Int(z, None) => write!(out, "i{z}").unwrap(),
        Doc::Int(z, Some(t)) => write!(out, "i{z}:{}", t.name()).unwrap(),
        Doc::Float(neg, s, sfx, r) => write!(out, "d{}{}{}={}", if *neg { '-' } else { '+' }, s, sfx_name(*sfx), r).unwrap(),
        Doc::Str(s) => {
            out.push('$');
            out.push_str(&hex_str(s));
        }
        Doc::Arr(l, tc) => {
            out.push('[');
            for x in l {
                out.push(' ');
                enc_doc(x, out);
            }
            out.push_str(if *tc { " ]+" } else { " ]" });
        }
        Doc::Obj(l, tc) => {
            out.push('{');
            for (kf, k, x) in l {
                out.push(' ');
                out.push(match kf {
                    KForm::Lit => 'k',
                    KForm::Paren => 'p',
                    KForm::Var => 'v',
                    KForm::ParenVar => 'q',
                });
                out.push_str(&hex_str(k));
                out.push(' ');
                enc_doc(x, out);
            }
            out.push_str(if *tc { " }+" } else { " }" });
        }
    }
}

/// Float literal syntax used here (all forms verified to compile): digits, an optional
/// fraction `.digits`, an optional exponent `e|E [+|-] digits` (leading zeros allowed); plain
/// digits are a float literal only with a suffix.
fn is_float_literal(s: &str, sfx: Option<FTy>) -> bool {
    let b = s.as_bytes();
    let mut i = 0;
    let digits = |i: &mut usize| {
        let st = *i;
        while *i < b.len() && b[*i].is_ascii_digit() {
            *i += 1;
        }
        *i - st
    };
    if digits(&mut i) == 0 {
        return false;
    }
    let mut frac_or_exp = false;
    if i < b.len() && b[i] == b'.' {
        i += 1;
        if digits(&mut i) == 0 {
            return false;
        }
        frac_or_exp = true;
    }
    if i < b.len() && (b[i] == b'e' || b[i] == b'E') {
        i += 1;
        if i < b.len() && (b[i] == b'+' || b[i] == b'-') {
            i += 1;
        }
        if digits(&mut i) == 0 {
            return false;
        }
        frac_or_exp = true;
    }
    (frac_or_exp || sfx.is_some()) && i == b.len()
}

/// lexical's layout of shortest digits given as std's `{:e}` output: positional notation for
/// decimal exponents -5..=9 (an integral value has no ".0"), scientific otherwise.
fn layout(e: &str) -> String {
    let (m, x) = e.split_once('e').unwrap();
    let x: i32 = x.parse().unwrap();
    let digits: String = m.chars().filter(|c| c.is_ascii_digit()).collect();
    let k = digits.len() as i32;
    let n = x + 1;
    if (-5..=9).contains(&x) {
        if k <= n {
            format!("{digits}{}", "0".repeat((n - k) as usize))
        } else if n > 0 {
            format!("{}.{}", &digits[..n as usize], &digits[n as usize..])
        } else {
            format!("0.{}{digits}", "0".repeat((-n) as usize))
        }
    } else if k == 1 {
        format!("{digits}e{x}")
    } else {
        format!("{}.{}e{x}", &digits[..1], &digits[1..])
    }
}

/// When the float whose shortest digits are `e` (std's `{:e}` output, which takes the larger of
/// two equally close candidates) lies exactly half-way between that candidate and the one
/// below it, the digits of the lower candidate.  A tie is recognised on the exact decimal
/// expansion `exact` (`{:.Ne}` with N beyond the last non-zero digit).
fn exact_tie(e: &str, exact: &str) -> Option<String> {
    let m = e.split('e').next().unwrap();
    let digits: String = m.chars().filter(|c| c.is_ascii_digit()).collect();
    let k = digits.len();
    let d: u64 = digits.parse().ok()?;
    if k > 17 || d <= 10u64.pow(k as u32 - 1) {
        return None;
    }
    let lower = format!("{:0k$}", d - 1);
    let ed: String = exact.split('e').next().unwrap().chars().filter(|c| c.is_ascii_digit()).collect();
    if ed[..k] == lower && ed.as_bytes()[k] == b'5' && ed[k + 1..].bytes().all(|c| c == b'0') {
        Some(lower)
    } else {
        None
    }
}

fn sci(digits: &str, x: &str) -> String {
    let t = digits.trim_end_matches('0');
    let t = if t.is_empty() { "0" } else { t };
    if t.len() == 1 {
        format!("{t}e{x}")
    } else {
        format!("{}.{}e{x}", &t[..1], &t[1..])
    }
}

/// Shortest digits (as `d.ddde[-]x`) of a positive finite double: std's, except that of two
/// equally close candidates the EVEN one is taken (std takes the larger; lexical and the Coq
/// reference Spec/EcmaNumber.nks the even one).  None for a power of two on an exact tie: at a
/// binade boundary the dependency breaks ties its own way (the single 2^-12 is spelt
/// 0.00024414062), so such floats have no canonical spelling and are left out of the domain.
fn shortest_f64(f: f64) -> Option<String> {
    let e = format!("{:e}", f);
    if let Some(lower) = exact_tie(&e, &format!("{:.800e}", f)) {
        if f.to_bits() & ((1u64 << 52) - 1) == 0 {
            return None;
        }
        let x = e.split_once('e').unwrap().1;
        let last_odd = (e.split('e').next().unwrap().bytes().filter(|c| c.is_ascii_digit()).last().unwrap() - b'0') % 2 == 1;
        let cand = sci(&lower, x);
        if last_odd && cand.parse::<f64>() == Ok(f) {
            return Some(cand);
        }
    }
    Some(e)
}

/// The same for a single: std's digits (the larger on a tie, as lexical and the Coq reference
/// Model/Serde.fmt_sf chk32); None for a power of two on an exact tie.
fn shortest_f32(f: f32) -> Option<String> {
    let e = format!("{:e}", f);
    if exact_tie(&e, &format!("{:.200e}", f)).is_some() && f.to_bits() & ((1u32 << 23) - 1) == 0 {
        return None;
    }
    Some(e)
}

/// The reference spelling of the float a literal denotes -- its JSON text: the literal's
/// digits are rounded to the nearest f64 / f32 (std's `parse`, correctly rounded, as rustc
/// does), that float is spelt with the shortest digits that read back as it, in lexical's
/// layout; zero is `0` (the sign is carried by the `-` of the document).  Independent of
/// the crate under test; the Coq reference Model/MacroFloat.lexical_float is the same
/// function and the run cross-checks the two.  None: the literal overflows its type (it does
/// not compile), or it denotes a power of two on an exact tie (left out of the domain).
fn reference(lit: &str, sfx: Option<FTy>) -> Option<String> {
    match sfx.unwrap_or(FTy::F64) {
        FTy::F64 => {
            let f: f64 = lit.parse().ok()?;
            if !f.is_finite() {
                return None;
            }
            Some(if f == 0.0 { "0".to_string() } else { layout(&shortest_f64(f)?) })
        }
        FTy::F32 => {
            let f: f32 = lit.parse().ok()?;
            if !f.is_finite() {
                return None;
            }
            Some(if f == 0.0 { "0".to_string() } else { layout(&shortest_f32(f)?) })
        }
    }
}

fn float_doc(neg: bool, lit: &str, sfx: Option<FTy>) -> Option<Doc> {
    if !is_float_literal(lit, sfx) {
        return None;
    }
    Some(Doc::Float(neg, lit.to_string(), sfx, reference(lit, sfx)?))
}

fn dec_doc<'a>(t: &'a [&'a str]) -> Option<(Doc, &'a [&'a str])> {
    let (h, mut r) = t.split_first()?;
    match *h {
        "n" => Some((Doc::Null, r)),
        "t" => Some((Doc::Bool(true), r)),
        "f" => Some((Doc::Bool(false), r)),
        "[" => {
            let mut items = vec![];
            loop {
                match *r.first()? {
                    "]" => return Some((Doc::Arr(items, false), &r[1..])),
                    "]+" => return Some((Doc::Arr(items, true), &r[1..])),
                    _ => {
                        let (d, r2) = dec_doc(r)?;
                        items.push(d);
                        r = r2;
                    }
                }
            }
        }
        "{" => {
            let mut items = vec![];
            loop {
                let k = *r.first()?;
                match k {
                    "}" => return Some((Doc::Obj(items, false), &r[1..])),
                    "}+" => return Some((Doc::Obj(items, true), &r[1..])),
                    _ => {
                        let kf = match k.as_bytes()[0] {
                            b'k' => KForm::Lit,
                            b'p' => KForm::Paren,
                            b'v' => KForm::Var,
                            b'q' => KForm::ParenVar,
                            _ => return None,
                        };
                        let key = std::panic::catch_unwind(|| parse_hex_string(&k[1..])).ok()?;
                        let (d, r2) = dec_doc(&r[1..])?;
                        items.push((kf, key, d));
                        r = r2;
                    }
                }
            }
        }
        x if x.starts_with('i') => {
            let (num, ty) = match x[1..].split_once(':') {
                Some((n, t)) => (n, Some(ITy::parse(t)?)),
                None => (&x[1..], None),
            };
            let z: i128 = num.parse().ok()?;
            if !int_in_range(z, ty) || num != z.to_string() {
                return None;
            }
            Some((Doc::Int(z, ty), r))
        }
        x if x.starts_with("d+") || x.starts_with("d-") => {
            let (l, want) = x[2..].split_once('=')?;
            let (lit, sfx) = if let Some(p) = l.strip_suffix("f32") {
                (p, Some(FTy::F32))
            } else if let Some(p) = l.strip_suffix("f64") {
                (p, Some(FTy::F64))
            } else {
                (l, None)
            };
            let d = float_doc(x.as_bytes()[1] == b'-', lit, sfx)?;
            match &d {
                Doc::Float(_, _, _, rr) if rr == want => Some((d, r)),
                _ => None,
            }
        }
        x if x.starts_with('$') => {
            let s = std::panic::catch_unwind(|| parse_hex_string(&x[1..])).ok()?;
            Some((Doc::Str(s), r))
        }
        _ => None,
    }
}

pub fn decode(line: &str) -> Option<Doc> {
    let t = toks(line);
    if t.first() != Some(&"m") {
        return None;
    }
    let (d, r) = dec_doc(&t[1..])?;
    if !r.is_empty() || depth(&d) > 48 {
        return None;
    }
    Some(d)
}

fn depth(d: &Doc) -> usize {
    match d {
        Doc::Arr(l, _) => 1 + l.iter().map(depth).max().unwrap_or(0),
        Doc::Obj(l, _) => 1 + l.iter().map(|e| depth(&e.2)).max().unwrap_or(0),
        _ => 0,
    }
}

// ------------------------------------------------------------------ source text

/// A Rust string literal denoting `s`.  `style` varies the spelling (escapes, raw strings):
/// all spellings are the same token for the macro.
fn rust_str_lit(s: &str, style: u64) -> String {
    let ascii = s.chars().all(|c| (' '..='~').contains(&c));
    let plain = ascii && !s.contains('"');
    if plain && style % 7 == 0 {
        return format!("r\"{s}\"");
    }
    let rawable = ascii && !s.contains("\"#");
    if rawable && style % 7 == 1 {
        return format!("r#\"{s}\"#");
    }
    let mut o = String::from("\"");
    for c in s.chars() {
        match c {
            '"' => o.push_str("\\\""),
            '\\' => o.push_str("\\\\"),
            '\n' if style % 2 == 0 => o.push_str("\\n"),
            '\t' if style % 2 == 0 => o.push_str("\\t"),
            c if (c as u32) < 0x20 || c as u32 == 0x7f => write!(o, "\\u{{{:x}}}", c as u32).unwrap(),
            c if (c as u32) >= 0x80 && style % 3 == 0 => write!(o, "\\u{{{:x}}}", c as u32).unwrap(),
            // characters rustc rejects or warns about when written raw (bidi controls, BOM ...)
            c if (c as u32) >= 0x80 && !c.is_alphanumeric() => write!(o, "\\u{{{:x}}}", c as u32).unwrap(),
            c => o.push(c),
        }
    }
    o.push('"');
    o
}

fn var_name(k: &str) -> String {
    let mut n = String::from("K");
    for c in k.chars() {
        write!(n, "_{:x}", c as u32).unwrap();
    }
    n
}

/// The document as written inside `json!( ... )`.
fn tokens_src(d: &Doc, style: &mut Rng, vars: &mut BTreeSet<String>, out: &mut String) {
    match d {
        Doc::Null => out.push_str("null"),
        Doc::Bool(b) => write!(out, "{b}").unwrap(),
        Doc::Int(z, ty) => write!(out, "{z}{}", ty.map(|t| t.name()).unwrap_or("")).unwrap(),
        Doc::Float(neg, s, sfx, _) => write!(out, "{}{}{}", if *neg { "-" } else { "" }, s, sfx_name(*sfx)).unwrap(),
        Doc::Str(s) => out.push_str(&rust_str_lit(s, style.next())),
        Doc::Arr(l, tc) => {
            out.push('[');
            for (i, x) in l.iter().enumerate() {
                if i > 0 {
                    out.push_str(", ");
                }
                tokens_src(x, style, vars, out);
            }
            if *tc && !l.is_empty() {
                out.push(',');
            }
            out.push(']');
        }
        Doc::Obj(l, tc) => {
            out.push('{');
            for (i, (kf, k, x)) in l.iter().enumerate() {
                if i > 0 {
                    out.push_str(", ");
                }
                match kf {
                    KForm::Lit => out.push_str(&rust_str_lit(k, style.next())),
                    KForm::Paren => write!(out, "({})", rust_str_lit(k, style.next())).unwrap(),
                    KForm::Var => {
                        vars.insert(k.clone());
                        out.push_str(&var_name(k));
                    }
                    KForm::ParenVar => {
                        vars.insert(k.clone());
                        write!(out, "({})", var_name(k)).unwrap();
                    }
                }
                out.push_str(": ");
                tokens_src(x, style, vars, out);
            }
            if *tc && !l.is_empty() {
                out.push(',');
            }
            out.push('}');
        }
    }
}

fn json_quote(s: &str, out: &mut String) {
    out.push('"');
    for c in s.chars() {
        match c {
            '\u{8}' => out.push_str("\\b"),
            '\t' => out.push_str("\\t"),
            '\n' => out.push_str("\\n"),
            '\u{c}' => out.push_str("\\f"),
            '\r' => out.push_str("\\r"),
            '"' => out.push_str("\\\""),
            '\\' => out.push_str("\\\\"),
            c if (c as u32) < 0x20 => write!(out, "\\u{:04x}", c as u32).unwrap(),
            c => out.push(c),
        }
    }
    out.push('"');
}

/// The corresponding JSON text.
pub fn text(d: &Doc, out: &mut String) {
    match d {
        Doc::Null => out.push_str("null"),
        Doc::Bool(b) => write!(out, "{b}").unwrap(),
        Doc::Int(z, _) => write!(out, "{z}").unwrap(),
        Doc::Float(neg, _, _, r) => write!(out, "{}{}", if *neg { "-" } else { "" }, r).unwrap(),
        Doc::Str(s) => json_quote(s, out),
        Doc::Arr(l, _) => {
            out.push('[');
            for (i, x) in l.iter().enumerate() {
                if i > 0 {
                    out.push(',');
                }
                text(x, out);
            }
            out.push(']');
        }
        Doc::Obj(l, _) => {
            out.push('{');
            for (i, (_, k, x)) in l.iter().enumerate() {
                if i > 0 {
                    out.push(',');
                }
                json_quote(k, out);
                out.push(':');
                text(x, out);
            }
            out.push('}');
        }
    }
}

const PRELUDE: &str = r##"#![recursion_limit = "4096"]
#![allow(warnings)]
use json_syntax::{json, Parse, Value};

fn hex(s: &str, out: &mut String) {
    let mut first = true;
    for c in s.chars() {
        if !first { out.push(','); }
        first = false;
        out.push_str(&format!("{:x}", c as u32));
    }
    if first { out.push('-'); }
}

fn enc(v: &Value, out: &mut String) {
    match v {
        Value::Null => out.push('n'),
        Value::Boolean(true) => out.push('t'),
        Value::Boolean(false) => out.push('f'),
        Value::Number(n) => { out.push('#'); hex(n.as_str(), out); }
        Value::String(s) => { out.push('$'); hex(s.as_str(), out); }
        Value::Array(a) => {
            out.push('[');
            for x in a { out.push(' '); enc(x, out); }
            out.push_str(" ]");
        }
        Value::Object(o) => {
            out.push('{');
            for e in o.iter() { out.push_str(" $"); hex(e.key.as_str(), out); out.push(' '); enc(&e.value, out); }
            out.push_str(" }");
        }
    }
}

/// The key index of every object of `v` answers what a scan of its entries answers.
fn index_consistent(v: &Value) -> bool {
    match v {
        Value::Array(a) => a.iter().all(index_consistent),
        Value::Object(o) => {
            let es: Vec<_> = o.iter().collect();
            for e in &es {
                let want: Vec<usize> = es.iter().enumerate().filter(|(_, x)| x.key == e.key).map(|(i, _)| i).collect();
                let got: Vec<usize> = o.indexes_of(e.key.as_str()).collect();
                if want != got || o.index_of(e.key.as_str()) != want.first().copied() || !o.contains_key(e.key.as_str()) {
                    return false;
                }
                if o.get(e.key.as_str()).count() != want.len() {
                    return false;
                }
            }
            o.indexes_of("\u{1}absent").next().is_none() && es.iter().all(|e| index_consistent(&e.value))
        }
        _ => true,
    }
}

fn report(text: &str, f: fn() -> Value) {
    let mut line = String::new();
    match std::panic::catch_unwind(f) {
        Ok(m) => {
            line.push_str("M=");
            enc(&m, &mut line);
            match Value::parse_str(text) {
                Ok((p, _)) => {
                    line.push_str(" P=");
                    enc(&p, &mut line);
                    // equal, and usable alike: lookups by key see every entry of the built value
                    line.push_str(if m == p && index_consistent(&m) && index_consistent(&p) { " EQ=1" } else { " EQ=0" });
                }
                Err(_) => line.push_str(" P=ERR EQ=0"),
            }
        }
        Err(_) => line.push_str("M=PANIC"),
    }
    line.push_str(" T=");
    hex(text, &mut line);
    println!("{}", line);
}

fn texts() -> Vec<String> {
    TEXTS.lines().map(|l| {
        if l == "-" { String::new() } else {
            l.split(',').map(|h| char::from_u32(u32::from_str_radix(h, 16).unwrap()).unwrap()).collect()
        }
    }).collect()
}
"##;

/// One program for a chunk of documents: (source, texts file).
fn program(docs: &[&Doc], texts_file: &str, seed: u64) -> (String, String) {
    let mut style = Rng::new(seed ^ 0xC19);
    let mut vars = BTreeSet::new();
    let mut fns = String::new();
    let mut main = String::from("fn main() {\n    std::panic::set_hook(Box::new(|_| {}));\n    let t = texts();\n");
    let mut texts = String::new();
    for (i, d) in docs.iter().enumerate() {
        let mut src = String::new();
        tokens_src(d, &mut style, &mut vars, &mut src);
        writeln!(fns, "fn d{i}() -> Value {{\n    json!({src})\n}}").unwrap();
        writeln!(main, "    report(&t[{i}], d{i});").unwrap();
        let mut t = String::new();
        text(d, &mut t);
        texts.push_str(&hex_str(&t));
        texts.push('\n');
    }
    main.push_str("}\n");
    let mut consts = String::new();
    for k in &vars {
        writeln!(consts, "const {}: &str = {};", var_name(k), rust_str_lit(k, 5)).unwrap();
    }
    let src = format!("{PRELUDE}\nstatic TEXTS: &str = include_str!(\"{texts_file}\");\n{consts}\n{fns}\n{main}");
    (src, texts)
}

// ------------------------------------------------------------------ compiling and running

/// Where generated programs and their build output live: next to the harness's own cargo
/// target directory (<framework root>/build, or build/alt-<tag> when the checks are tried on
/// another tree through VERIF_REPO).
fn base() -> PathBuf {
    // <base>/cargo-target/release/harness
    let exe = std::env::current_exe().expect("current_exe");
    match exe.ancestors().nth(3) {
        Some(b) if exe.ancestors().nth(2).and_then(|p| p.file_name()).map(|n| n == "cargo-target").unwrap_or(false) => b.to_path_buf(),
        _ => PathBuf::from(std::env::var("VERIF_ROOT").expect("VERIF_ROOT")).join("build"),
    }
}

/// The tree under test: the one this harness was itself built against (the `path` of the
/// json-syntax dependency in the harness manifest).
fn repo() -> String {
    let manifest = std::fs::read_to_string(concat!(env!("CARGO_MANIFEST_DIR"), "/Cargo.toml")).unwrap_or_default();
    for l in manifest.lines() {
        if l.trim_start().starts_with("json-syntax") {
            if let Some(i) = l.find("path = \"") {
                let r = &l[i + 8..];
                if let Some(j) = r.find('"') {
                    return r[..j].to_string();
                }
            }
        }
    }
    "/repo".to_string()
}

fn one_line(s: &str) -> String {
    let first = s
        .lines()
        .find(|l| l.starts_with("error"))
        .or_else(|| s.lines().find(|l| !l.trim().is_empty()))
        .unwrap_or("");
    let t: Vec<&str> = first.split_whitespace().collect();
    t.join(" ").chars().take(240).collect()
}

pub struct Toolchain {
    rlib: PathBuf,
    deps: PathBuf,
    work: PathBuf,
}

/// Builds the crate under test (dev profile, offline) through a stub package and finds its
/// rlib; Err(message) when the working tree itself no longer compiles.
fn toolchain(tag: &str) -> Result<Toolchain, String> {
    let base = base();
    let stub = base.join("c19-crate/stub");
    let target = base.join("c19-target");
    std::fs::create_dir_all(stub.join("src")).map_err(|e| e.to_string())?;
    let repo = repo();
    let manifest = format!(
        "[package]\nname = \"c19stub\"\nversion = \"0.1.0\"\nedition = \"2021\"\n\n[workspace]\n\n[dependencies]\njson-syntax = {{ path = \"{repo}\" }}\n\n[profile.dev]\nopt-level = 0\ndebug = false\nincremental = false\n"
    );
    let mpath = stub.join("Cargo.toml");
    if std::fs::read_to_string(&mpath).ok().as_deref() != Some(manifest.as_str()) {
        std::fs::write(&mpath, manifest).map_err(|e| e.to_string())?;
        let _ = std::fs::remove_file(stub.join("Cargo.lock"));
        let lock = Path::new(&repo).join("Cargo.lock");
        if lock.exists() {
            let _ = std::fs::copy(lock, stub.join("Cargo.lock"));
        }
    }
    std::fs::write(stub.join("src/lib.rs"), "").map_err(|e| e.to_string())?;
    let out = Command::new("timeout")
        .args(["900", "cargo", "build", "--offline", "--message-format=json"])
        .current_dir(&stub)
        .env("CARGO_NET_OFFLINE", "true")
        .env("CARGO_TARGET_DIR", &target)
        .env_remove("RUSTFLAGS")
        .output()
        .map_err(|e| format!("cannot run cargo: {e}"))?;
    let stdout = String::from_utf8_lossy(&out.stdout);
    let mut rlib = None;
    let mut diag = String::new();
    for l in stdout.lines() {
        let Ok(v) = serde_json::from_str::<serde_json::Value>(l) else { continue };
        match v["reason"].as_str() {
            Some("compiler-artifact") if v["target"]["name"] == "json_syntax" || v["target"]["name"] == "json-syntax" => {
                if let Some(fs) = v["filenames"].as_array() {
                    for f in fs {
                        if let Some(p) = f.as_str() {
                            if p.ends_with(".rlib") {
                                rlib = Some(PathBuf::from(p));
                            }
                        }
                    }
                }
            }
            Some("compiler-message") if v["message"]["level"] == "error" && diag.is_empty() => {
                diag = v["message"]["rendered"].as_str().unwrap_or("").to_string();
            }
            _ => (),
        }
    }
    if !out.status.success() {
        let e = if diag.is_empty() { String::from_utf8_lossy(&out.stderr).to_string() } else { diag };
        return Err(format!("the crate does not build: {}", one_line(&e)));
    }
    let rlib = rlib.ok_or_else(|| "json_syntax rlib not reported by cargo".to_string())?;
    let deps = rlib.parent().unwrap().to_path_buf();
    let work = base.join("c19-crate").join(tag);
    let _ = std::fs::remove_dir_all(&work);
    std::fs::create_dir_all(&work).map_err(|e| e.to_string())?;
    Ok(Toolchain { rlib, deps, work })
}

/// Compiles and runs one program; Ok(lines) or Err(compile message).
fn compile_run(tc: &Toolchain, name: &str, docs: &[&Doc], seed: u64) -> Result<Vec<String>, String> {
    let (src, texts) = program(docs, &format!("{name}.texts"), seed);
    let rs = tc.work.join(format!("{name}.rs"));
    std::fs::write(&rs, src).map_err(|e| e.to_string())?;
    std::fs::write(tc.work.join(format!("{name}.texts")), texts).map_err(|e| e.to_string())?;
    let bin = tc.work.join(name);
    let out = Command::new("timeout")
        .args(["600", "rustc", "--edition", "2021", "--crate-type", "bin", "-C", "opt-level=0", "-C", "debuginfo=0"])
        .arg("--crate-name")
        .arg(name)
        .arg("--extern")
        .arg(format!("json_syntax={}", tc.rlib.display()))
        .arg("-L")
        .arg(format!("dependency={}", tc.deps.display()))
        .arg("-o")
        .arg(&bin)
        .arg(&rs)
        .env_remove("RUSTFLAGS")
        .output()
        .map_err(|e| format!("cannot run rustc: {e}"))?;
    if !out.status.success() {
        return Err(one_line(&String::from_utf8_lossy(&out.stderr)));
    }
    let run = Command::new("timeout").arg("120").arg(&bin).output().map_err(|e| format!("cannot run program: {e}"))?;
    let lines: Vec<String> = String::from_utf8_lossy(&run.stdout).lines().map(|l| l.to_string()).collect();
    if !run.status.success() || lines.len() != docs.len() {
        let mut l = lines;
        while l.len() < docs.len() {
            l.push(format!("RUN-ERROR status={:?}", run.status.code()));
        }
        return Ok(l);
    }
    Ok(lines)
}

/// Splits a chunk that does not compile to find the documents responsible, within a
/// budget of extra compilations; what is left unsplit is marked as a whole.
fn isolate(tc: &Toolchain, name: &str, docs: &[&Doc], seed: u64, msg: &str, budget: &mut usize, out: &mut Vec<String>) {
    if docs.len() == 1 {
        out.push(format!("COMPILE-ERROR {msg}"));
        return;
    }
    if *budget < 2 {
        for _ in docs {
            out.push(format!("COMPILE-ERROR (in a batch of {}) {msg}", docs.len()));
        }
        return;
    }
    let mid = docs.len() / 2;
    for (j, half) in [&docs[..mid], &docs[mid..]].into_iter().enumerate() {
        if *budget == 0 {
            // the first half used up the budget
            for _ in half {
                out.push(format!("COMPILE-ERROR (in a batch of {}) {msg}", docs.len()));
            }
            continue;
        }
        *budget -= 1;
        let n = format!("{name}_{j}");
        match compile_run(tc, &n, half, seed) {
            Ok(l) => out.extend(l),
            Err(m) => isolate(tc, &n, half, seed, &m, budget, out),
        }
    }
}

/// The implementation's observable for every document, in order.
pub fn run_docs(docs: &[Doc], tag: &str, seed: u64, chunk: usize) -> Vec<String> {
    if docs.is_empty() {
        return vec![];
    }
    let tc = match toolchain(tag) {
        Ok(t) => t,
        Err(m) => return docs.iter().map(|_| format!("COMPILE-ERROR {m}")).collect(),
    };
    let chunks: Vec<Vec<&Doc>> = docs.chunks(chunk).map(|c| c.iter().collect()).collect();
    let nthreads = std::thread::available_parallelism().map(|n| n.get()).unwrap_or(4).min(16).max(1);
    let next = std::sync::atomic::AtomicUsize::new(0);
    let results: Vec<std::sync::Mutex<Option<Result<Vec<String>, String>>>> =
        chunks.iter().map(|_| std::sync::Mutex::new(None)).collect();
    std::thread::scope(|s| {
        for _ in 0..nthreads.min(chunks.len()) {
            s.spawn(|| loop {
                let i = next.fetch_add(1, std::sync::atomic::Ordering::SeqCst);
                if i >= chunks.len() {
                    break;
                }
                let r = compile_run(&tc, &format!("b{i}"), &chunks[i], seed.wrapping_add(i as u64));
                *results[i].lock().unwrap() = Some(r);
            });
        }
    });
    let mut budget = 24usize;
    let mut out = vec![];
    for (i, r) in results.into_iter().enumerate() {
        match r.into_inner().unwrap().unwrap() {
            Ok(l) => out.extend(l),
            Err(m) => isolate(&tc, &format!("b{i}"), &chunks[i], seed.wrapping_add(i as u64), &m, &mut budget, &mut out),
        }
    }
    out
}

// ------------------------------------------------------------------ generation

const STRS: [&str; 14] =
    ["", "a", "k", "dup", "a b", "q\"q", "b\\s", "line\nfeed", "\t\u{8}\u{c}\r", "\u{0}\u{1f}\u{7f}", "é\u{2028}", "\u{1f600}", "\u{10ffff}\u{e000}", "null"];

fn gen_string(r: &mut Rng) -> String {
    if r.chance(2, 3) {
        return r.pick(&STRS).to_string();
    }
    let pool: [u32; 20] =
        [0, 8, 9, 0xa, 0xd, 0x1f, 0x20, 0x22, 0x23, 0x27, 0x2f, 0x5c, 0x7b, 0x7f, 0x80, 0xe9, 0x2028, 0xfffd, 0x10000, 0x1f600];
    (0..r.below(6))
        .map(|_| if r.chance(1, 2) { (0x61 + r.below(26) as u32) as u8 as char } else { char::from_u32(*r.pick(&pool)).unwrap() })
        .collect()
}

/// An unsuffixed (i32) integer.
fn gen_i32(r: &mut Rng) -> i128 {
    (match r.below(8) {
        0 => 0,
        1 => *r.pick(&[1, -1, 9, 10, -10, 99, 100, 255, -256]),
        2 => *r.pick(&[i32::MAX as i64, i32::MIN as i64, i32::MAX as i64 - 1, i32::MIN as i64 + 1]),
        3 => 10i64.pow(r.below(10) as u32) * if r.chance(1, 2) { -1 } else { 1 },
        _ => (r.next() as i32) as i64 >> r.below(31),
    }) as i128
}

/// A value of the given type: its bounds and their neighbours, the powers of two where the
/// narrower types end (2^7 .. 2^63 and their predecessors, negated for signed types), or random.
fn gen_typed(r: &mut Rng, t: ITy) -> i128 {
    let z: i128 = match r.below(6) {
        0 => *r.pick(&[t.min(), t.max(), t.max() - 1, t.min() + 1, 0, 1]),
        1 | 2 => {
            let p = 1i128 << *r.pick(&[7u32, 8, 15, 16, 31, 32, 63]);
            let v = p - r.below(2) as i128;
            if t.min() < 0 && r.chance(1, 2) { -v } else { v }
        }
        3 => (r.next() as i128) >> r.below(64),
        4 => -((r.next() >> 1) as i128) >> r.below(63),
        _ => r.below(1000) as i128 - if t.min() < 0 { 500 } else { 0 },
    };
    z.clamp(t.min(), t.max())
}

/// Any integer literal of the domain: unsuffixed half of the time.
fn gen_int(r: &mut Rng) -> Doc {
    if r.chance(1, 2) {
        Doc::Int(gen_i32(r), None)
    } else {
        let t = *r.pick(&ITy::ALL);
        Doc::Int(gen_typed(r, t), Some(t))
    }
}

/// Suffixed literals at the bounds of every width; u64 values >= 2^63 and i64::MIN as scalar,
/// array item and object value (part of every run).
fn int_bounds() -> Vec<Doc> {
    let mut out = vec![];
    for t in ITy::ALL {
        let mut vs = vec![t.min(), t.max(), 0, 1, t.max() - 1];
        if t.min() < 0 {
            vs.push(t.min() + 1);
            vs.push(-1);
        }
        out.push(Doc::Arr(vs.into_iter().map(|z| Doc::Int(z, Some(t))).collect(), t as usize % 2 == 0));
    }
    let u = |z: u64| Doc::Int(z as i128, Some(ITy::U64));
    let i = |z: i64| Doc::Int(z as i128, Some(ITy::I64));
    out.push(u(u64::MAX));
    out.push(i(i64::MIN));
    out.push(Doc::Obj(
        vec![
            (KForm::Lit, "max".into(), u(u64::MAX)),
            (KForm::Paren, "mid".into(), Doc::Arr(vec![u(1 << 63), u((1 << 63) - 1), i(i64::MIN), i(i64::MAX)], true)),
            (KForm::Var, "max".into(), u((1 << 63) + 1)),
            (KForm::Lit, "w".into(), Doc::Arr(vec![Doc::Int(1 << 32, Some(ITy::U64)), Doc::Int(-(1 << 32), Some(ITy::I64)), Doc::Int((1 << 32) - 1, Some(ITy::U32)), Doc::Int(1 << 31, Some(ITy::U32)), Doc::Int(-(1 << 31), Some(ITy::I32)), Doc::Int(1 << 16, Some(ITy::U32)), Doc::Int(1 << 15, Some(ITy::U16)), Doc::Int(1 << 7, Some(ITy::U8)), Doc::Int(-(1 << 7), Some(ITy::I8))], false)),
        ],
        true,
    ));
    out
}

/// Float literals that are part of every run: zeros of both signs, integral floats inside and
/// outside the i32 range, trailing zeros, exponent forms, leading zeros, f64- and f32-suffixed
/// literals (integral ones above 2^24 and at 2^31 included), the extremes of both types; and
/// witnesses of known finding C19-lexical-not-shortest (the last four).
const FLOATS: [&str; 62] = [
    "-0.0", "0.0", "5.0", "-7.0", "2147483647.0", "2147483648.0", "-2147483648.0", "-2147483649.0", "1e10", "-1e10", "1e5",
    "1.50", "-1.50", "100.0", "1E3", "1e+3", "2.5e-3", "0.5e1", "00.5", "01e2", "1.5", "0.1", "1e21", "1e-7", "2.5e10",
    "0.00001", "0.000001", "9999999999.5", "5e-324", "1.7976931348623157e308", "0.3", "16777217.0", "4294967296.0",
    "1.5f64", "3f64", "1e3f64", "-0f64", "-0.0f64",
    "123456792f32", "2147483648f32", "-2147483648f32", "2147483520f32", "16777217.0f32", "16777217f32", "33554436f32",
    "1e10f32", "2.5e-3f32", "0.1f32", "1f32", "-0.0f32", "0.0f32", "-0f32", "5.0f32", "-7f32", "100000f32", "1.50f32",
    "3.4028235e38f32", "1e-45f32",
    "2.675e21", "7.75e21", "1.1e10f32", "412390020f32",
];

fn fixed_float(s: &str) -> Doc {
    let (neg, rest) = match s.strip_prefix('-') {
        Some(r) => (true, r),
        None => (false, s),
    };
    let (lit, sfx) = if let Some(p) = rest.strip_suffix("f32") {
        (p, Some(FTy::F32))
    } else if let Some(p) = rest.strip_suffix("f64") {
        (p, Some(FTy::F64))
    } else {
        (rest, None)
    };
    float_doc(neg, lit, sfx).unwrap_or_else(|| panic!("fixed float literal {s}"))
}

/// A float literal of ANY spelling: some double (eight classes) or single, written in one of
/// several styles, with or without a suffix.
fn gen_float(r: &mut Rng, neg: bool) -> Doc {
    loop {
        if r.chance(1, 8) {
            let d = fixed_float(*r.pick(&FLOATS[..]));
            if let Doc::Float(_, l, s, rr) = d {
                return Doc::Float(neg, l, s, rr);
            }
        }
        let f: f64 = match r.below(9) {
            0 => (r.below(100000) as f64) / 10f64.powi(r.below(8) as i32),
            1 => (1 + r.below(9999)) as f64 * 10f64.powi(r.range(0, 60) as i32 - 30),
            2 => f64::from_bits(r.next() & 0x7fff_ffff_ffff_ffff),
            3 => 2f64.powi(r.range(0, 200) as i32 - 100),
            4 => (r.next() >> 11) as f64 * 10f64.powi(r.range(0, 40) as i32 - 25),
            5 => *r.pick(&[1e-5, 1e-6, 9.5e-6, 1.5e-5, 1e9 + 0.5, 1e10, 1.25e10, 9.9999999995e9, 123456789.125, 1e22, 1e23, 4.35, 0.000001234]),
            6 => (r.below(2000) as f64 - 1000.0) / 8.0,
            7 => (r.next() >> r.range(20, 63)) as f64,                       // integral
            _ => f32::from_bits((r.next() as u32) & 0x7fff_ffff) as f64,     // a single
        };
        let f = f.abs();
        if !f.is_finite() {
            continue;
        }
        let lit = match r.below(7) {
            0 => format!("{:?}", f),
            1 => format!("{:e}", f),
            2 => format!("{:E}", f).replace('E', if r.chance(1, 2) { "E+" } else { "e" }).replace("E+-", "E-"),
            3 if f < 1e15 && f > 1e-6 => format!("{:.*}", r.range(1, 8), f),
            4 if f < 1e15 => format!("{}.0", f.round()),
            5 if f < 1e15 => format!("{}", f.round()),                       // plain digits: needs a suffix
            _ => match reference(&format!("{:e}", f), None) {
                Some(x) => x,
                None => continue,
            },
        };
        let plain = lit.bytes().all(|c| c.is_ascii_digit());
        let sfx = match r.below(10) {
            0 => Some(FTy::F64),
            1 | 2 | 3 => Some(FTy::F32),
            _ if plain => Some(if r.chance(1, 2) { FTy::F32 } else { FTy::F64 }),
            _ => None,
        };
        if let Some(d) = float_doc(neg, &lit, sfx) {
            return d;
        }
    }
}

fn gen_leaf(r: &mut Rng) -> Doc {
    match r.below(9) {
        0 => Doc::Null,
        1 => Doc::Bool(true),
        2 => Doc::Bool(false),
        3 | 4 => gen_int(r),
        5 | 6 => { let neg = r.chance(1, 3); gen_float(r, neg) }
        _ => Doc::Str(gen_string(r)),
    }
}

fn gen_key(r: &mut Rng, used: &[String]) -> (KForm, String) {
    let k = if !used.is_empty() && r.chance(1, 3) { r.pick(used).clone() } else { gen_string(r) };
    let kf = match r.below(8) {
        0 | 1 | 2 => KForm::Lit,
        3 | 4 => KForm::Paren,
        5 | 6 => KForm::Var,
        _ => KForm::ParenVar,
    };
    // constant names are derived from the contents: keep them short
    let kf = if k.chars().count() > 6 && matches!(kf, KForm::Var | KForm::ParenVar) { KForm::Paren } else { kf };
    (kf, k)
}

fn gen_doc(r: &mut Rng, depth: usize, width: usize) -> Doc {
    if depth == 0 || r.chance(1, 3) {
        return gen_leaf(r);
    }
    let n = if r.chance(1, 6) { 0 } else { r.range(1, width) };
    let tc = r.chance(1, 2);
    if r.chance(1, 2) {
        Doc::Arr((0..n).map(|_| gen_doc(r, depth - 1, width)).collect(), tc)
    } else {
        let mut used: Vec<String> = vec![];
        let mut es = vec![];
        for _ in 0..n {
            let (kf, k) = gen_key(r, &used);
            used.push(k.clone());
            es.push((kf, k, gen_doc(r, depth - 1, width)));
        }
        Doc::Obj(es, tc)
    }
}

/// One representative of each element kind (what the muncher rules distinguish).
fn kinds(r: &mut Rng) -> Vec<Doc> {
    vec![
        Doc::Null,
        Doc::Bool(true),
        Doc::Bool(false),
        if r.chance(1, 2) { Doc::Int(gen_i32(r).abs().min(i32::MAX as i128), None) } else { Doc::Int(gen_typed(r, ITy::U64).max(1 << 63), Some(ITy::U64)) },
        if r.chance(1, 2) { Doc::Int(-1 - gen_i32(r).abs().min(i32::MAX as i128), None) } else { let t = *r.pick(&[ITy::I8, ITy::I16, ITy::I32, ITy::I64]); Doc::Int((-1 - gen_typed(r, t).abs()).max(t.min()), Some(t)) },
        gen_float(r, false),
        gen_float(r, true),
        Doc::Str(gen_string(r)),
        Doc::Arr(vec![], false),
        Doc::Arr(vec![Doc::Int(1, None), Doc::Arr(vec![Doc::Null], true)], r.chance(1, 2)),
        Doc::Obj(vec![], false),
        Doc::Obj(vec![(KForm::Lit, "k".into(), Doc::Int(-2, None)), (KForm::Paren, "k".into(), Doc::Arr(vec![], false))], r.chance(1, 2)),
    ]
}

/// Systematic part: every element kind in first / last position of an array and of an object
/// (each key form), with and without trailing comma, alone and next to a neighbour.
fn systematic(r: &mut Rng, full: bool) -> Vec<Doc> {
    let mut out = vec![];
    let forms = [KForm::Lit, KForm::Paren, KForm::Var, KForm::ParenVar];
    for d in kinds(r) {
        out.push(d);
    }
    // the fixed float literals: as array items (eight per array) and as object values
    for (i, c) in FLOATS.chunks(8).enumerate() {
        out.push(Doc::Arr(c.iter().map(|s| fixed_float(s)).collect(), i % 2 == 0));
    }
    out.push(Doc::Obj(
        ["-0.0", "0.0", "-0.0f32", "123456792f32", "2147483648f32", "1.50", "2147483648.0", "1e5"]
            .iter()
            .enumerate()
            .map(|(i, s)| ([KForm::Lit, KForm::Paren, KForm::Var, KForm::ParenVar][i % 4].clone(), "z".to_string(), fixed_float(s)))
            .collect(),
        true,
    ));
    out.push(fixed_float("-0.0"));
    out.extend(int_bounds());
    let mut n = 0usize;
    for tc in [false, true] {
        for (i, k) in kinds(r).into_iter().enumerate() {
            let filler = Doc::Int(7, None);
            // arrays: alone, last after a filler, first before a filler
            out.push(Doc::Arr(vec![k.clone()], tc));
            out.push(Doc::Arr(vec![filler.clone(), k.clone()], tc));
            if full || i % 2 == 0 {
                out.push(Doc::Arr(vec![k.clone(), filler.clone()], tc));
            }
            // objects: the same with rotating key forms, duplicate keys
            for (j, kf) in forms.iter().enumerate() {
                if !full && (i + j + n) % 4 != 0 {
                    continue;
                }
                let key = if j % 2 == 0 { "dup" } else { "b" };
                out.push(Doc::Obj(vec![(kf.clone(), key.into(), k.clone())], tc));
                out.push(Doc::Obj(vec![(KForm::Lit, "dup".into(), filler.clone()), (kf.clone(), key.into(), k.clone())], tc));
                if full {
                    out.push(Doc::Obj(vec![(kf.clone(), key.into(), k.clone()), (forms[(j + 1) % 4].clone(), "dup".into(), filler.clone())], tc));
                }
            }
            n += 1;
        }
    }
    out
}

pub fn documents(args: &Args) -> Vec<Doc> {
    let mut rng = Rng::new(args.seed);
    let full = args.thorough();
    let total = if full { 3000 } else { 300 };
    let mut docs = vec![];
    // objects wide enough for several growths of the key index (4, 8, 15, 29 distinct keys), with a
    // repeated early key, top level and nested
    for (i, n) in (if full { vec![3usize, 4, 5, 7, 8, 9, 14, 15, 16, 28, 29, 30, 40] } else { vec![4, 8, 9, 15, 16, 29, 30] }).into_iter().enumerate() {
        let forms = [KForm::Lit, KForm::Paren, KForm::Var, KForm::ParenVar];
        let mut es: Vec<(KForm, String, Doc)> = (0..n).map(|j| (forms[(i + j) % 4].clone(), format!("k{j}"), Doc::Int(j as i128, None))).collect();
        if i % 2 == 0 {
            es.push((KForm::Lit, "k0".into(), Doc::Null));
        }
        let o = Doc::Obj(es, i % 3 == 0);
        docs.push(if i % 2 == 1 { Doc::Arr(vec![Doc::Null, o], false) } else { o });
    }
    docs.extend(systematic(&mut rng, full));
    docs.truncate(total * 2 / 3);
    while docs.len() < total {
        let mut r = rng.fork();
        let depth = r.range(1, if full { 5 } else { 4 });
        let width = r.range(2, if full { 6 } else { 4 });
        let d = gen_doc(&mut r, depth, width);
        if matches!(d, Doc::Arr(..) | Doc::Obj(..)) || r.chance(1, 4) {
            docs.push(d);
        }
    }
    docs
}

fn case_line(d: &Doc) -> String {
    let mut s = String::from("m ");
    enc_doc(d, &mut s);
    s
}

/// `gen` mode: writes cases.<shard>.txt and impl.<shard>.txt like `common::Out`, but the
/// implementation's results come from the compiled batch.
pub fn gen_batch(args: &Args) {
    use std::io::Write;
    // nothing of the implementation runs in this process: a panic here is a harness fault
    std::panic::set_hook(Box::new(|i| eprintln!("c19 harness panic: {i}")));
    let docs: Vec<Doc> = documents(args).into_iter().enumerate().filter(|(i, _)| i % args.nshards == args.shard).map(|(_, d)| d).collect();
    std::fs::create_dir_all(&args.out).unwrap();
    let mut c = std::fs::File::create(format!("{}/cases.{}.txt", args.out, args.shard)).unwrap();
    let mut r = std::fs::File::create(format!("{}/impl.{}.txt", args.out, args.shard)).unwrap();
    let results = if args.cases_only {
        docs.iter().map(|_| String::new()).collect()
    } else {
        run_docs(&docs, &format!("gen-{}", args.shard), args.seed, if args.thorough() { 40 } else { 20 })
    };
    for (d, res) in docs.iter().zip(results) {
        writeln!(c, "{}", case_line(d)).unwrap();
        writeln!(r, "{res}").unwrap();
    }
}

/// `eval` mode: all case lines on stdin form one batch.
pub fn eval_batch() {
    use std::io::BufRead;
    let lines: Vec<String> = std::io::stdin().lock().lines().map(|l| l.unwrap()).collect();
    let decoded: Vec<Option<Doc>> = lines.iter().map(|l| decode(l)).collect();
    let docs: Vec<Doc> = decoded.iter().flatten().cloned().collect();
    let chunk = (docs.len() / 12).clamp(1, 20);
    let mut res = run_docs(&docs, &format!("eval-{}", std::process::id()), 1, chunk).into_iter();
    for (l, d) in lines.iter().zip(&decoded) {
        match d {
            Some(_) => println!("{}", res.next().unwrap()),
            None => println!("BADCASE {l}"),
        }
    }
    let _ = std::fs::remove_dir_all(base().join("c19-crate").join(format!("eval-{}", std::process::id())));
}

/// Entries of the dispatch table in main.rs (the batch modes above are what actually runs).
pub fn generate(args: &Args, out: &mut Out) {
    for d in documents(args) {
        out.case_str(&case_line(&d));
    }
}

pub fn eval(line: &str) -> String {
    match decode(line) {
        Some(d) => run_docs(&[d], &format!("eval1-{}", std::process::id()), 1, 1).pop().unwrap(),
        None => format!("BADCASE {line}"),
    }
}
