//! C17 (Value's own Serialize / Deserialize) and C18 (serde_json conversion).
//!
//! Case lines
//!   c17:  `ser | V`            json_syntax::to_value(&V)
//!         `de  ORACLE* | V`    json_syntax::from_value::<Value>(V)
//!         `txt ORACLE* | V`    serde_json::from_str::<Value>(compact text of V)
//!   c18:  `fs  ORACLE* | J`    Value::from_serde_json(J), then into_serde_json of the result
//!         `is  ORACLE* | V`    V.into_serde_json(), then from_serde_json of the result
//! V is a json-syntax value (common::enc_value), J a serde_json value in the analogous
//! encoding with numbers `u<decimal>` (PosInt) `i<decimal>` (NegInt) `d<16 hex>` (Float bits).
//!
//! ORACLE tokens record, for exactly the float-printing calls the conversion makes on this
//! input, what the dependency answered.  They are produced by calling json-number /
//! serde_json directly, never json-syntax, and instantiate the model's section variables:
//!   `W:<bits>:<spelling>`   NumberBuf::try_from(f64)           (lexical write)
//!   `R:<bits>:<spelling>`   <serde_json::Number as Display>    (ryu)
//! (the double to be printed is the correctly rounded one of the spelling, `str::parse`).
//! The evaluation of the implementation ignores them.
use crate::common::*;
use json_syntax::{object::Entry, NumberBuf, Object, Print, Value};
use std::collections::BTreeSet;

type J = serde_json::Value;

// ---------------------------------------------------------------- serde_json value encoding
fn enc_j(j: &J, out: &mut String) {
    match j {
        J::Null => out.push('n'),
        J::Bool(true) => out.push('t'),
        J::Bool(false) => out.push('f'),
        J::Number(n) => {
            if n.is_u64() {
                out.push_str(&format!("u{}", n.as_u64().unwrap()));
            } else if n.is_i64() {
                out.push_str(&format!("i{}", n.as_i64().unwrap()));
            } else {
                out.push_str(&format!("d{:016x}", n.as_f64().unwrap().to_bits()));
            }
        }
        J::String(s) => {
            out.push('$');
            out.push_str(&hex_str(s));
        }
        J::Array(a) => {
            out.push('[');
            for x in a {
                out.push(' ');
                enc_j(x, out);
            }
            out.push_str(" ]");
        }
        J::Object(o) => {
            out.push('{');
            for (k, x) in o.iter() {
                out.push_str(" $");
                out.push_str(&hex_str(k));
                out.push(' ');
                enc_j(x, out);
            }
            out.push_str(" }");
        }
    }
}

fn j_str(j: &J) -> String {
    let mut s = String::new();
    enc_j(j, &mut s);
    s
}

fn dec_j<'a>(t: &'a [&'a str]) -> Option<(J, &'a [&'a str])> {
    let (h, mut r) = t.split_first()?;
    Some(match *h {
        "n" => (J::Null, r),
        "t" => (J::Bool(true), r),
        "f" => (J::Bool(false), r),
        "[" => {
            let mut items = vec![];
            while *r.first()? != "]" {
                let (v, r2) = dec_j(r)?;
                items.push(v);
                r = r2;
            }
            (J::Array(items), &r[1..])
        }
        "{" => {
            let mut m = serde_json::Map::new();
            while *r.first()? != "}" {
                let k = parse_hex_string(&r[0][1..]);
                let (v, r2) = dec_j(&r[1..])?;
                m.insert(k, v);
                r = r2;
            }
            (J::Object(m), &r[1..])
        }
        x if x.starts_with('u') => (J::Number(x[1..].parse::<u64>().ok()?.into()), r),
        x if x.starts_with('i') => (J::Number(x[1..].parse::<i64>().ok()?.into()), r),
        x if x.starts_with('d') => {
            let f = f64::from_bits(u64::from_str_radix(&x[1..], 16).ok()?);
            (J::Number(serde_json::Number::from_f64(f)?), r)
        }
        x if x.starts_with('$') => (J::String(parse_hex_string(&x[1..])), r),
        _ => return None,
    })
}

// ---------------------------------------------------------------- evaluation
fn after_bar<'a>(t: &'a [&'a str]) -> Option<&'a [&'a str]> {
    let i = t.iter().position(|x| *x == "|")?;
    Some(&t[i + 1..])
}

fn decode_v(t: &[&str]) -> Option<Value> {
    let rest = after_bar(t)?;
    let ok = std::panic::catch_unwind(|| dec_value(rest).0);
    ok.ok()
}

fn ser_err(e: &json_syntax::SerializeError) -> &'static str {
    use json_syntax::SerializeError::*;
    match e {
        Custom(_) => "custom",
        NonStringKey => "nonstringkey",
        MalformedHighPrecisionNumber => "malformed",
    }
}

pub fn eval_c17(line: &str) -> String {
    let t = toks(line);
    if t.is_empty() {
        return "BADCASE".into();
    }
    let v = match decode_v(&t) {
        Some(v) => v,
        None => return "BADCASE".into(),
    };
    match t[0] {
        "ser" => guarded(move || {
            let mut s = match json_syntax::to_value(&v) {
                Ok(w) => format!("OK {}", value_str(&w)),
                Err(e) => format!("ERR {}", ser_err(&e)),
            };
            // `impl Serialize for Object` is the same code path as Value::Object
            if let Value::Object(o) = &v {
                let a = json_syntax::to_value(o).map(|w| value_str(&w)).map_err(|e| ser_err(&e));
                let b = json_syntax::to_value(&v).map(|w| value_str(&w)).map_err(|e| ser_err(&e));
                s.push_str(if a == b { " o=1" } else { " o=0" });
            }
            s
        }),
        "de" => guarded(move || match json_syntax::from_value::<Value>(v) {
            Ok(w) => format!("OK {}", value_str(&w)),
            Err(_) => "ERR".to_string(),
        }),
        "txt" => guarded(move || {
            let text = v.compact_print().to_string();
            match serde_json::from_str::<Value>(&text) {
                Ok(w) => format!("OK {}", value_str(&w)),
                Err(_) => "ERR".to_string(),
            }
        }),
        _ => "BADCASE".into(),
    }
}

pub fn eval_c18(line: &str) -> String {
    let t = toks(line);
    if t.is_empty() {
        return "BADCASE".into();
    }
    match t[0] {
        "fs" => {
            let j = match after_bar(&t).and_then(dec_j) {
                Some((j, _)) => j,
                None => return "BADCASE".into(),
            };
            let j2 = j.clone();
            let v = match std::panic::catch_unwind(move || Value::from_serde_json(j)) {
                Ok(v) => v,
                Err(_) => return "PANIC".into(),
            };
            let vs = value_str(&v);
            // the From / Into impls are the same conversions
            let via_from = guarded(move || {
                let w: Value = j2.into();
                value_str(&w)
            });
            let v2 = v.clone();
            let back = guarded(move || j_str(&v.into_serde_json()));
            let back2 = guarded(move || {
                let j: serde_json::Value = v2.into();
                j_str(&j)
            });
            if via_from != vs || back2 != back {
                return format!("FROM-IMPLS-DISAGREE v={vs}/{via_from} back={back}/{back2}");
            }
            format!("v={vs} back={back}")
        }
        "is" => {
            let v = match decode_v(&t) {
                Some(v) => v,
                None => return "BADCASE".into(),
            };
            let v2 = v.clone();
            let j = match std::panic::catch_unwind(move || v.into_serde_json()) {
                Ok(j) => j,
                Err(_) => return "PANIC".into(),
            };
            let js = j_str(&j);
            let via_into = guarded(move || {
                let j: serde_json::Value = v2.into();
                j_str(&j)
            });
            let j2 = j.clone();
            let back = guarded(move || value_str(&Value::from_serde_json(j)));
            let back2 = guarded(move || value_str(&Value::from(j2)));
            if via_into != js || back2 != back {
                return format!("FROM-IMPLS-DISAGREE j={js}/{via_into} v={back}/{back2}");
            }
            format!("j={js} v={back}")
        }
        _ => "BADCASE".into(),
    }
}

// ---------------------------------------------------------------- oracles (dependency calls only)
fn is_int64(s: &str) -> bool {
    s.parse::<u64>().is_ok() || s.parse::<i64>().is_ok()
}
fn nearest(s: &str) -> f64 {
    s.parse::<f64>().unwrap()
}
fn o_lexw(x: f64) -> String {
    NumberBuf::try_from(x).unwrap().to_string()
}
fn o_ryu(x: f64) -> String {
    serde_json::Number::from_f64(x).unwrap().to_string()
}

#[derive(Default)]
struct Oracle(BTreeSet<String>);

impl Oracle {
    fn w(&mut self, x: f64) {
        if x.is_finite() {
            self.0.insert(format!("W:{:016x}:{}", x.to_bits(), hex_str(&o_lexw(x))));
        }
    }
    fn r(&mut self, x: f64) -> String {
        let s = o_ryu(x);
        self.0.insert(format!("R:{:016x}:{}", x.to_bits(), hex_str(&s)));
        s
    }
    fn text(&self) -> String {
        let mut s = String::new();
        for t in &self.0 {
            s.push_str(t);
            s.push(' ');
        }
        s
    }
}

fn numbers_of(v: &Value, out: &mut Vec<String>) {
    match v {
        Value::Number(n) => out.push(n.as_str().to_string()),
        Value::Array(a) => a.iter().for_each(|x| numbers_of(x, out)),
        Value::Object(o) => o.iter().for_each(|e| numbers_of(&e.value, out)),
        _ => (),
    }
}

fn floats_of(j: &J, out: &mut Vec<f64>) {
    match j {
        J::Number(n) if n.is_f64() => out.push(n.as_f64().unwrap()),
        J::Array(a) => a.iter().for_each(|x| floats_of(x, out)),
        J::Object(o) => o.values().for_each(|x| floats_of(x, out)),
        _ => (),
    }
}

fn case_v(op: &str, v: &Value) -> String {
    let mut ns = vec![];
    numbers_of(v, &mut ns);
    let mut o = Oracle::default();
    for n in &ns {
        match op {
            "de" => {
                if !is_int64(n) {
                    o.w(nearest(n));
                }
            }
            "txt" => {
                if n.parse::<u64>().is_ok() {
                } else if let Ok(i) = n.parse::<i64>() {
                    if i >= 0 {
                        o.w(-0.0);
                    }
                } else {
                    o.w(nearest(n));
                }
            }
            "is" => {
                if !is_int64(n) {
                    let x = nearest(n);
                    if x.is_finite() {
                        o.r(x);
                    }
                }
            }
            _ => (),
        }
    }
    format!("{op} {}| {}", o.text(), value_str(v))
}

fn case_j(j: &J) -> String {
    let mut fs = vec![];
    floats_of(j, &mut fs);
    let mut o = Oracle::default();
    for x in fs {
        o.r(x);
    }
    format!("fs {}| {}", o.text(), j_str(j))
}

// ---------------------------------------------------------------- generators
const TOKEN: &str = "$serde_json::private::Number";

fn num(s: &str) -> Value {
    Value::Number(NumberBuf::new(s.as_bytes().to_vec().into()).unwrap_or_else(|_| panic!("bad number {s}")))
}

fn digits(r: &mut Rng, n: usize) -> String {
    (0..n).map(|_| (b'0' + r.below(10) as u8) as char).collect()
}

/// Fixed spellings: every lexical class at and around the 64-bit and double bounds.
fn fixed_numbers() -> &'static Vec<String> {
    static CELL: std::sync::OnceLock<Vec<String>> = std::sync::OnceLock::new();
    CELL.get_or_init(fixed_numbers_build)
}

fn fixed_numbers_build() -> Vec<String> {
    let mut v: Vec<String> = [
        "0", "-0", "1", "-1", "9", "10", "-10", "123", "4294967295", "4294967296", "9007199254740991", "9007199254740992",
        "9007199254740993", "-9007199254740993", "9223372036854775806", "9223372036854775807", "9223372036854775808",
        "9223372036854775809", "-9223372036854775807", "-9223372036854775808", "-9223372036854775809",
        "-9223372036854775810", "18446744073709551614", "18446744073709551615", "18446744073709551616",
        "18446744073709551617", "-18446744073709551615", "-18446744073709551616", "99999999999999999999",
        "100000000000000000000", "123456789012345678901234567890", "-123456789012345678901234567890",
        "0.0", "-0.0", "0e0", "-0e0", "0E0", "0e+0", "0e-0", "-0.0e0", "0.000", "-0.000e-10", "0e400", "-0e999", "0.0e999",
        "0e-999", "1.0", "-1.0", "1.5", "1e0", "1E0", "1e1", "1e5", "1E5", "1e+5", "1e05", "1e-5", "1.5e3", "1.5E+3", "15e2",
        "1e15", "1e16", "1e17", "1e19", "1e20", "1e21", "1e22", "1e23", "1.0e22", "1.0e23", "9007199254740993.0",
        "9007199254740993e0", "9223372036854775807.0", "18446744073709551615.0", "18446744073709551616.0",
        "12345678901234567890.5", "0.1", "0.2", "0.3", "0.30000000000000004", "8.5e-5", "0.000001", "0.0000001", "1e-7",
        "123456789012345678", "1234567890123456789", "12345678901234567890", "1.234567890123456789",
        "1.2345678901234567890", "1.23456789012345678901", "0.1234567890123456789", "0.12345678901234567891",
        "0.0000000000000000001234567890123456789", "0.00000000000000000012345678901234567891",
        "1.0000000000000000000", "1.00000000000000000000000", "10000000000000000000.0", "100000000000000000000.0",
        "4.14673952822385274921803532e91", "2.0030503502356077e+227", "1e308", "1.7976931348623157e308",
        "1.7976931348623158e308", "1.797693134862315807e308", "1.7976931348623159e308", "1.8e308", "1e309", "1e400",
        "-1e400", "1.0e400", "1E+400", "1e4000000000", "1e99999999999999999999", "-1e99999999999999999999",
        "1e-99999999999999999999", "5e-324", "4.9e-324", "3e-324", "2.5e-324", "2.4703282292062328e-324",
        "2.4703282292062327e-324", "2.47032822920623272e-324", "1e-323", "1e-324", "1e-400", "2.2250738585072014e-308",
        "2.225073858507201e-308", "2.2250738585072011e-308", "0.5e-323", "17976931348623157e292",
        "179769313486231570000000000000000000000000000000000000000000000000000000000000000000000000000000000000000000000000000000000000000000000000000000000000000000000000000000000000000000000000000000000000000000000000000000000000000000000000000000000000000000000000000000000000000000000000000000000000000000000000000000",
        "179769313486231580793728971405303415079934132710037826936173778980444968292764750946649017977587207096330286416692887910946555547851940402630657488671505820681908902000708383676273854845817711531764475730270069855571366959622842914819860834936475292719074168444365510704342711559699508093042880177904174497791",
        "179769313486231580793728971405303415079934132710037826936173778980444968292764750946649017977587207096330286416692887910946555547851940402630657488671505820681908902000708383676273854845817711531764475730270069855571366959622842914819860834936475292719074168444365510704342711559699508093042880177904174497792",
        "5.04796620613671e-172", "6.794008122942624e+193", "4.3095705257704653e-243",
    ]
    .iter()
    .map(|s| s.to_string())
    .collect();
    // doubles that a binary32 holds exactly, written out in full (negative powers of two, 1 + 2^-k,
    // widened binary32 values): the digits are those of the double, not of the single
    for k in 1..=44 {
        let trim = |x: f64| {
            let t = format!("{:.80}", x);
            t.trim_end_matches('0').trim_end_matches('.').to_string()
        };
        v.push(trim(2f64.powi(-k)));
        if k <= 23 {
            v.push(trim(1.0 + 2f64.powi(-k)));
            v.push(trim(-(3.0 + 2f64.powi(-k))));
        }
        v.push(format!("{:e}", 2f64.powi(-k)));
    }
    for x in [1.0f32 / 3.0, 0.1, 0.2, 0.7, 1.1, 16777217.0, 3.4028235e38, 1.1754944e-38, 1e-45, 6.1e-5, 0.3] {
        v.push(format!("{}", x as f64));
        v.push(format!("{:e}", x as f64));
        v.push(format!("{}", -(x as f64)));
    }
    // plain decimals whose fraction starts with 0..48 zeros, with 1..15 significant digits after them, and
    // zeros written with 1..48 fraction digits
    for z in 0..=48usize {
        for d in ["1", "5", "25", "999", "123456789012345", "100000000000001"] {
            if z % 3 == 0 || d.len() < 3 {
                v.push(format!("0.{}{}", "0".repeat(z), d));
            }
        }
        v.push(format!("-0.{}15", "0".repeat(z)));
        v.push(format!("0.{}", "0".repeat(z + 1)));
        v.push(format!("-0.{}", "0".repeat(z + 1)));
        v.push(format!("7.{}", "0".repeat(z + 1)));
        v.push(format!("12.{}3", "0".repeat(z)));
    }
    // mantissas longer than any digit buffer (769, 800, 900, 1100 bytes) brought back into range by the
    // exponent: a long integer part with a large negative exponent, a long run of zeros after the point
    // with a large positive one
    for n in [767usize, 768, 769, 800, 900, 1100] {
        let d: String = (0..n).map(|i| char::from(b'1' + (i % 9) as u8)).collect();
        v.push(format!("{d}e-{}", n - 20));
        v.push(format!("-{d}.5e-{}", n - 3));
        v.push(format!("0.{}123e{}", "0".repeat(n), n + 3));
        v.push(format!("{}.{}e-{}", &d[..n / 2], &d[n / 2..], n / 2 - 1));
        v.push(format!("1{}e-{}", "0".repeat(n), n));
    }
    // 1..40 fraction digits, all nines and a ramp
    for n in 1..=40 {
        v.push(format!("0.{}", "9".repeat(n)));
        v.push(format!("3.{}", &"14159265358979323846264338327950288419716939937510"[..n]));
        v.push(format!("-{}.5", "1".repeat(n)));
    }
    v
}

fn gen_spelling(r: &mut Rng) -> String {
    match r.below(12) {
        0 => {
            // integers of 1..25 digits, either sign
            let n = r.range(1, 25);
            let mut s = String::new();
            if r.chance(1, 3) {
                s.push('-');
            }
            s.push((b'1' + r.below(9) as u8) as char);
            s.push_str(&digits(r, n - 1));
            s
        }
        1 => {
            // near the 64-bit bounds
            let base: i128 = *r.pick(&[
                i64::MAX as i128,
                i64::MIN as i128,
                u64::MAX as i128,
                -(u64::MAX as i128),
                1i128 << 53,
                0,
                1i128 << 32,
            ]);
            (base + r.below(7) as i128 - 3).to_string()
        }
        2 => {
            // fraction of 1..40 digits
            let mut s = String::new();
            if r.chance(1, 4) {
                s.push('-');
            }
            if r.chance(1, 2) {
                s.push('0');
            } else {
                s.push((b'1' + r.below(9) as u8) as char);
                let k = r.below(22);
                s.push_str(&digits(r, k));
            }
            s.push('.');
            let k = r.range(1, 40);
            s.push_str(&digits(r, k));
            s
        }
        3 => {
            // exponent forms: short mantissa, every exponent shape
            let mut s = String::new();
            if r.chance(1, 4) {
                s.push('-');
            }
            s.push((b'0' + r.below(10) as u8) as char);
            if r.chance(1, 2) {
                s.push('.');
                let k = r.range(1, 6);
                s.push_str(&digits(r, k));
            }
            s.push(*r.pick(&['e', 'E']));
            s.push_str(*r.pick(&["", "+", "-"]));
            if r.chance(1, 5) {
                s.push('0');
            }
            let e = match r.below(4) {
                0 => r.below(23),
                1 => r.below(40),
                2 => r.range(280, 330),
                _ => r.below(500),
            };
            s.push_str(&e.to_string());
            s
        }
        4 => {
            // shortest spelling of a random double (std prints the shortest digits)
            let x = loop {
                let x = f64::from_bits(r.next());
                if x.is_finite() {
                    break x;
                }
            };
            match r.below(3) {
                0 => format!("{:e}", x),
                1 => o_ryu(x),
                _ => o_lexw(x),
            }
        }
        5 => {
            // short decimals where serde_json's single-operation path is exact
            let m = r.next() % (1u64 << 53);
            let e = r.below(45) as i64 - 22;
            format!("{}e{}", m, e)
        }
        6 => {
            // more than 19 significant digits with an exponent
            let n = r.range(20, 40);
            let mut s = String::new();
            if r.chance(1, 4) {
                s.push('-');
            }
            s.push((b'1' + r.below(9) as u8) as char);
            s.push('.');
            s.push_str(&digits(r, n - 1));
            s.push_str(&format!("e{}", r.below(620) as i64 - 310));
            s
        }
        7 => fixed_numbers()[r.below(fixed_numbers().len())].clone(),
        8 => {
            // a random binary32 value, widened: spelled with the shortest digits of the double, or in full
            let x = loop {
                let x = f32::from_bits(r.next() as u32);
                if x.is_finite() {
                    break x as f64;
                }
            };
            match r.below(3) {
                0 => format!("{}", x),
                1 => format!("{:e}", x),
                _ if x.abs() > 1e-30 && x.abs() < 1e30 => {
                    let t = format!("{:.90}", x);
                    if t.contains('.') { t.trim_end_matches('0').trim_end_matches('.').to_string() } else { t }
                }
                _ => o_ryu(x),
            }
        }
        9 => {
            // a plain decimal with many zeros after the point
            let mut s = String::new();
            if r.chance(1, 4) {
                s.push('-');
            }
            s.push_str(*r.pick(&["0", "0", "1", "12"]));
            s.push('.');
            let z = r.below(50);
            s.push_str(&"0".repeat(z));
            let k = r.below(16);
            s.push_str(&digits(r, k));
            if s.ends_with('.') {
                s.push('0');
            }
            s
        }
        _ => {
            let mut s = crate::canon::gen_decimal(r);
            if NumberBuf::new(s.as_bytes().to_vec().into()).is_err() {
                s = "7".to_string();
            }
            s
        }
    }
}

fn gen_key(r: &mut Rng) -> String {
    const POOL: [&str; 30] = [
        "", "a", "b", "aa", "A", "\u{e000}", "\u{ffff}", "\u{10000}", "\u{10ffff}", "\u{d7ff}", "\u{10000}a", "a\u{e000}",
        "z", "\u{e9}", "\"\\\n", "\u{0}",
        // keys that read as numbers, booleans, null (a key deserializer must hand them over as strings)
        "0", "42", "007", "+5", "-3", "18446744073709551615", "1.0", "1e3", "true", "false", "null", "-", "NaN", "9223372036854775808",
    ];
    if r.chance(1, 40) {
        TOKEN.to_string()
    } else if r.chance(2, 3) {
        POOL[r.below(POOL.len())].to_string()
    } else {
        parse_hex_string(&crate::print::gen_cps(r))
    }
}

fn gen_string(r: &mut Rng) -> String {
    if r.chance(1, 30) {
        TOKEN.to_string()
    } else {
        parse_hex_string(&crate::print::gen_cps(r))
    }
}

/// dups: 0 = keys made distinct, 1 = duplicates allowed (and provoked)
fn gen_v(r: &mut Rng, depth: usize, dups: bool, numgen: &mut dyn FnMut(&mut Rng) -> String) -> Value {
    let leaf = depth == 0 || r.chance(2, 5);
    if leaf {
        match r.below(8) {
            0 => Value::Null,
            1 => Value::Boolean(r.chance(1, 2)),
            2 | 3 => Value::String(gen_string(r).as_str().into()),
            _ => num(&numgen(r)),
        }
    } else if r.chance(1, 2) {
        let n = r.below(4);
        Value::Array((0..n).map(|_| gen_v(r, depth - 1, dups, numgen)).collect())
    } else {
        let n = r.below(5);
        let mut es: Vec<Entry> = vec![];
        for _ in 0..n {
            let mut k = gen_key(r);
            if dups {
                if !es.is_empty() && r.chance(1, 3) {
                    k = es[r.below(es.len())].key.as_str().to_string();
                }
            } else {
                while es.iter().any(|e| e.key.as_str() == k) {
                    k.push('x');
                }
            }
            es.push(Entry::new(k.as_str().into(), gen_v(r, depth - 1, dups, numgen)));
        }
        Value::Object(Object::from_vec(es))
    }
}

fn gen_j(r: &mut Rng, depth: usize) -> J {
    let leaf = depth == 0 || r.chance(2, 5);
    if leaf {
        match r.below(9) {
            0 => J::Null,
            1 => J::Bool(r.chance(1, 2)),
            2 | 3 => J::String(gen_string(r)),
            4 => J::Number(gen_u64(r).into()),
            5 => J::Number(gen_i64(r).into()),
            _ => J::Number(serde_json::Number::from_f64(gen_f64(r)).unwrap()),
        }
    } else if r.chance(1, 2) {
        let n = r.below(4);
        J::Array((0..n).map(|_| gen_j(r, depth - 1)).collect())
    } else {
        let n = r.below(5);
        let mut m = serde_json::Map::new();
        for _ in 0..n {
            m.insert(gen_key(r), gen_j(r, depth - 1));
        }
        J::Object(m)
    }
}

fn gen_u64(r: &mut Rng) -> u64 {
    match r.below(4) {
        0 => *r.pick(&[0, 1, u64::MAX, u64::MAX - 1, i64::MAX as u64, i64::MAX as u64 + 1, 1 << 53, (1 << 53) + 1, 10, 99]),
        1 => r.next() >> r.below(64),
        _ => r.next(),
    }
}

fn gen_i64(r: &mut Rng) -> i64 {
    match r.below(4) {
        0 => *r.pick(&[-1, i64::MIN, i64::MIN + 1, -(1 << 53), -(1 << 53) - 1, -10, 0, 5, i64::MAX]),
        1 => -((r.next() >> r.range(1, 63)) as i64) - 1,
        _ => r.next() as i64,
    }
}

const SPECIAL_F64: [u64; 28] = [
    0x0000000000000000, 0x8000000000000000, 0x0000000000000001, 0x8000000000000001, 0x000fffffffffffff, 0x0010000000000000,
    0x0010000000000001, 0x7fefffffffffffff, 0xffefffffffffffff, 0x7feffffffffffffe, 0x3ff0000000000000, 0x3ff0000000000001,
    0x3fefffffffffffff, 0x4340000000000000, 0x4340000000000001, 0x433fffffffffffff, 0x43e0000000000000, 0x43f0000000000000,
    0xc3e0000000000000, 0xc3e0000000000001, 0x3fb999999999999a, 0x3fd3333333333334, 0x4415af1d78b58c40, 0x44b52d02c7e14af6,
    0x3eb0c6f7a0b5ed8d, 0x3e7ad7f29abcaf48, 0x1c5f367fcf16b755, 0x682dc84780a69b93,
];

fn gen_f64(r: &mut Rng) -> f64 {
    match r.below(6) {
        0 => f64::from_bits(*r.pick(&SPECIAL_F64)),
        1 => {
            // integral doubles, also beyond the 64-bit range (printed with ".0" or an exponent)
            let x = (r.next() >> r.below(64)) as f64 * if r.chance(1, 2) { 1.0 } else { -1.0 };
            x * *r.pick(&[1.0, 1.0, 1024.0, 1e6])
        }
        2 => {
            // short decimals
            let m = (r.next() % 100000) as f64;
            let x = m / *r.pick(&[1.0, 10.0, 100.0, 1e5, 1e7, 1e10]);
            if r.chance(1, 2) {
                x
            } else {
                -x
            }
        }
        3 => f64::from_bits(r.next() & 0x800f_ffff_ffff_ffff), // subnormals
        _ => loop {
            let x = f64::from_bits(r.next());
            if x.is_finite() {
                break x;
            }
        },
    }
}

fn obj(es: Vec<(&str, Value)>) -> Value {
    Value::Object(Object::from_vec(es.into_iter().map(|(k, v)| Entry::new(k.into(), v)).collect()))
}

fn token_values() -> Vec<Value> {
    let s = |x: &str| Value::String(x.into());
    let mut v = vec![];
    for inner in [s("12"), s("1.5e3"), s("-0.0"), s("x"), s(""), s("01"), num("1"), Value::Null, Value::Array(vec![]), obj(vec![])] {
        v.push(obj(vec![(TOKEN, inner.clone())]));
        v.push(obj(vec![(TOKEN, inner.clone()), ("a", Value::Null)]));
        v.push(obj(vec![("a", Value::Null), (TOKEN, inner.clone())]));
        v.push(obj(vec![(TOKEN, inner.clone()), (TOKEN, s("7"))]));
        v.push(Value::Array(vec![num("1"), obj(vec![(TOKEN, inner.clone())])]));
        v.push(obj(vec![("k", obj(vec![(TOKEN, inner.clone())]))]));
    }
    v.push(s(TOKEN));
    v
}

fn dup_values() -> Vec<Value> {
    let n = |x: &str| num(x);
    vec![
        obj(vec![("a", n("1")), ("b", n("2")), ("a", n("3"))]),
        obj(vec![("a", n("1")), ("a", n("2")), ("a", n("3"))]),
        obj(vec![("b", n("1")), ("a", n("2")), ("b", n("3")), ("a", n("4")), ("c", n("5"))]),
        obj(vec![("", n("1")), ("", n("2"))]),
        obj(vec![("a", obj(vec![("x", n("1")), ("x", n("2"))])), ("a", obj(vec![("y", n("1")), ("y", n("2")), ("x", n("0"))]))]),
        obj(vec![("\u{e000}", n("1")), ("\u{10000}", n("2")), ("\u{e000}", n("3"))]),
        Value::Array(vec![obj(vec![("k", n("1")), ("k", n("-0"))]), obj(vec![("k", n("1.0")), ("k", n("1e400"))])]),
    ]
}

/// Objects wide enough for several growths of the key index, with repeats of early keys after
/// each growth (the collapse of duplicates has to find entries inserted before the table grew).
fn wide_values(r: &mut Rng, dups: bool) -> Vec<Value> {
    let mut out = vec![];
    for n in [4usize, 5, 8, 9, 15, 16, 29, 30, 58, 70] {
        let mut es: Vec<Entry> = vec![];
        for i in 0..n {
            let k = match i % 5 {
                3 => format!("k{}\u{e9}", i),
                _ => format!("k{}", i),
            };
            es.push(Entry::new(k.as_str().into(), num(&i.to_string())));
            if dups && ((i + 1).is_power_of_two() || r.chance(1, 6)) {
                let e = r.below(i + 1);
                let k = es.iter().filter(|x| x.key.as_str().starts_with('k')).nth(e).map(|x| x.key.clone());
                if let Some(k) = k {
                    es.push(Entry::new(k, Value::Null));
                }
            }
        }
        if dups {
            // and one repeat of every third key at the end
            for i in (0..n).step_by(3) {
                let k = es[i].key.clone();
                es.push(Entry::new(k, Value::Boolean(true)));
            }
        }
        let o = Value::Object(Object::from_vec(es));
        out.push(Value::Array(vec![o.clone(), Value::Null]));
        out.push(o);
    }
    out
}

/// The serde_json value with the same shape (numbers through their text; wide_values only has small integers).
fn j_of_value(v: &Value) -> J {
    match v {
        Value::Null => J::Null,
        Value::Boolean(b) => J::Bool(*b),
        Value::Number(n) => J::Number(n.as_str().parse::<u64>().unwrap_or(0).into()),
        Value::String(s) => J::String(s.as_str().to_string()),
        Value::Array(a) => J::Array(a.iter().map(j_of_value).collect()),
        Value::Object(o) => J::Object(o.iter().map(|e| (e.key.as_str().to_string(), j_of_value(&e.value))).collect()),
    }
}

fn order_values() -> Vec<Value> {
    // key order: UTF-8 byte order = code point order (U+E000 < U+10000), not UTF-16 order
    let n = |x: &str| num(x);
    vec![
        obj(vec![("\u{10000}", n("1")), ("\u{e000}", n("2")), ("\u{ffff}", n("3")), ("a", n("4")), ("", n("5"))]),
        obj(vec![("b", n("1")), ("a", n("2")), ("aa", n("3")), ("B", n("4"))]),
        obj(vec![("z", obj(vec![("b", n("1")), ("a", n("2"))])), ("y", Value::Array(vec![obj(vec![("d", n("1")), ("c", n("2"))])]))]),
    ]
}

pub fn generate_c17(args: &Args, out: &mut Out) {
    let mut r = Rng::new(args.seed);
    let k = if args.thorough() { 16 } else { 1 };
    // every fixed spelling, bare and inside containers, through the three routes
    for s in fixed_numbers() {
        let v = num(s);
        for op in ["ser", "de", "txt"] {
            out.case(|| case_v(op, &v));
        }
        let w = obj(vec![("n", v.clone()), ("l", Value::Array(vec![v.clone(), Value::Null]))]);
        for op in ["ser", "de", "txt"] {
            out.case(|| case_v(op, &w));
        }
    }
    // arrays and objects beyond the sizes at which a serializer or visitor might switch to a bulk path
    // (a length hint capped at 1 MiB / size_of::<Value>() = 11915 elements, 4096 announced entries ..)
    let mut huge: Vec<Value> = vec![];
    for n in [4095usize, 4096, 4097, 11915, 11916, 12000, 15000] {
        huge.push(Value::Array((0..n).map(|i| num(&(i % 10).to_string())).collect()));
    }
    huge.push(Value::Array(vec![Value::Array((0..12000).map(|i| num(&(i % 7).to_string())).collect()), Value::Null]));
    for n in [4094usize, 4095, 4096, 5000] {
        // distinct names, then one or several repeats of early names
        let mut es: Vec<Entry> = (0..n).map(|i| Entry::new(format!("m{i}").as_str().into(), num(&(i % 10).to_string()))).collect();
        huge.push(Value::Object(Object::from_vec(es.clone())));
        es.push(Entry::new("m7".into(), Value::Null));
        huge.push(Value::Object(Object::from_vec(es.clone())));
        es.insert(100, Entry::new("m4000".into(), Value::Boolean(true)));
        es.push(Entry::new("m0".into(), Value::Boolean(false)));
        huge.push(Value::Object(Object::from_vec(es)));
    }
    for v in &huge {
        for op in ["ser", "de"] {
            out.case(|| case_v(op, v));
        }
    }
    let wide: Vec<Value> = wide_values(&mut r, true).into_iter().chain(wide_values(&mut r, false)).collect();
    for v in token_values().into_iter().chain(dup_values()).chain(order_values()).chain(wide) {
        for op in ["ser", "de", "txt"] {
            out.case(|| case_v(op, &v));
        }
    }
    // random spellings
    for _ in 0..10000 * k {
        let s = gen_spelling(&mut r);
        let v = num(&s);
        for op in ["ser", "de", "txt"] {
            out.case(|| case_v(op, &v));
        }
    }
    // strings and keys
    for _ in 0..2000 * k {
        let v = if r.chance(1, 2) {
            Value::String(gen_string(&mut r).as_str().into())
        } else {
            obj(vec![(gen_key(&mut r).as_str(), Value::String(gen_string(&mut r).as_str().into()))])
        };
        for op in ["ser", "de", "txt"] {
            out.case(|| case_v(op, &v));
        }
    }
    // nested values: integers and short decimals only (no known class), duplicate-free
    let mut tame = |r: &mut Rng| -> String {
        match r.below(4) {
            0 => (r.next() as i64 >> r.below(64)).to_string(),
            1 => (r.next() >> r.below(64)).to_string(),
            2 => format!("{}.{}", r.below(1000), r.below(1000)),
            _ => format!("{}.{}e{}", r.below(10), r.below(100), r.below(30) as i64 - 15),
        }
    };
    for _ in 0..4000 * k {
        let d = r.range(1, 8);
        let v = gen_v(&mut r, d, false, &mut tame);
        for op in ["ser", "de", "txt"] {
            out.case(|| case_v(op, &v));
        }
    }
    // ... with duplicate keys
    for _ in 0..4000 * k {
        let d = r.range(1, 8);
        let v = gen_v(&mut r, d, true, &mut tame);
        for op in ["ser", "de", "txt"] {
            out.case(|| case_v(op, &v));
        }
    }
    // ... with every number class
    let mut wild = |r: &mut Rng| gen_spelling(r);
    for _ in 0..4000 * k {
        let d = r.range(1, 6);
        let dups = r.chance(1, 2);
        let v = gen_v(&mut r, d, dups, &mut wild);
        for op in ["ser", "de", "txt"] {
            out.case(|| case_v(op, &v));
        }
    }
}

pub fn generate_c18(args: &Args, out: &mut Out) {
    let mut r = Rng::new(args.seed);
    let k = if args.thorough() { 16 } else { 1 };
    // serde_json -> json-syntax -> serde_json
    for b in SPECIAL_F64 {
        let j = J::Number(serde_json::Number::from_f64(f64::from_bits(b)).unwrap());
        out.case(|| case_j(&j));
        let mut m = serde_json::Map::new();
        m.insert("x".into(), j.clone());
        m.insert("\u{10000}".into(), J::Array(vec![j.clone(), J::Null]));
        m.insert("\u{e000}".into(), J::Bool(true));
        out.case(|| case_j(&J::Object(m)));
    }
    // d * 10^k (every power of ten of the double range, one and two significant digits) and neighbours:
    // the doubles serde_json spells with an exponent and/or without a fraction
    for k10 in -324i32..=308 {
        for d in ["1", "2", "5", "9", "1.5", "2.5", "9.9"] {
            if !(-25..=25).contains(&k10) && d != "1" && d != "9" && d != "2.5" {
                continue;
            }
            let x: f64 = format!("{d}e{k10}").parse().unwrap();
            for y in [x, -x, f64::from_bits(x.to_bits().wrapping_add(1)), f64::from_bits(x.to_bits().wrapping_sub(1))] {
                if y.is_finite() && y != 0.0 {
                    out.case(|| case_j(&J::Number(serde_json::Number::from_f64(y).unwrap())));
                }
            }
        }
    }
    // deep nesting (beyond serde_json's own parser limit of 128): arrays of several items and
    // objects of several members under 64..300 wrappers, both directions
    for depth in [64usize, 126, 127, 128, 129, 130, 200, 300] {
        for shape in 0..3 {
            let mut v = Value::Array(vec![num("1"), num("2"), Value::Array(vec![num("3"), Value::Null]), num("4")]);
            if shape == 2 {
                v = obj(vec![("b", num("1")), ("a", Value::Array(vec![num("2"), num("3")])), ("c", Value::Null)]);
            }
            for i in 0..depth {
                v = match (shape, i % 2) {
                    (0, _) => Value::Array(vec![v]),
                    (1, 0) => Value::Array(vec![Value::Boolean(true), v, Value::Boolean(false)]),
                    (1, _) => obj(vec![("k", v), ("z", Value::Null)]),
                    (_, 0) => obj(vec![("k", v)]),
                    _ => Value::Array(vec![v, num("0")]),
                };
            }
            out.case(|| case_v("is", &v));
            out.case(|| case_j(&j_of_value(&v)));
            crate::common::drop_deep(v);
        }
    }
    for wide in wide_values(&mut r, false) {
        if let Ok(j) = serde_json::to_value(j_of_value(&wide)) {
            out.case(|| case_j(&j));
        }
        out.case(|| case_v("is", &wide));
    }
    for wide in wide_values(&mut r, true) {
        out.case(|| case_v("is", &wide));
    }
    for u in [0u64, 1, 9, 10, u64::MAX, u64::MAX - 1, i64::MAX as u64, i64::MAX as u64 + 1, 1 << 53, (1 << 53) + 1] {
        out.case(|| case_j(&J::Number(u.into())));
    }
    for i in [-1i64, -9, -10, i64::MIN, i64::MIN + 1, -(1 << 53) - 1, 0, 7, i64::MAX] {
        out.case(|| case_j(&J::Number(i.into())));
    }
    for _ in 0..3000 * k {
        let u = gen_u64(&mut r);
        let i = gen_i64(&mut r);
        out.case(|| case_j(&J::Number(u.into())));
        out.case(|| case_j(&J::Number(i.into())));
    }
    // seeded random bit patterns (NaN / infinities cannot be held by serde_json::Number)
    for _ in 0..20000 * k {
        let x = gen_f64(&mut r);
        out.case(|| case_j(&J::Number(serde_json::Number::from_f64(x).unwrap())));
    }
    for _ in 0..1500 * k {
        let j = if r.chance(1, 2) {
            J::String(gen_string(&mut r))
        } else {
            let mut m = serde_json::Map::new();
            m.insert(gen_key(&mut r), J::String(gen_string(&mut r)));
            m.insert(gen_key(&mut r), J::Null);
            J::Object(m)
        };
        out.case(|| case_j(&j));
    }
    for _ in 0..6000 * k {
        let d = r.range(1, 8);
        let j = gen_j(&mut r, d);
        out.case(|| case_j(&j));
    }
    // json-syntax -> serde_json -> json-syntax
    for s in fixed_numbers() {
        let v = num(s);
        out.case(|| case_v("is", &v));
        out.case(|| case_v("is", &obj(vec![("b", v.clone()), ("a", Value::Array(vec![v.clone()]))])));
    }
    for v in token_values().into_iter().chain(dup_values()).chain(order_values()) {
        out.case(|| case_v("is", &v));
    }
    for _ in 0..12000 * k {
        let s = gen_spelling(&mut r);
        out.case(|| case_v("is", &num(&s)));
    }
    let mut wild = |r: &mut Rng| gen_spelling(r);
    for _ in 0..5000 * k {
        let d = r.range(1, 8);
        let v = gen_v(&mut r, d, false, &mut wild);
        out.case(|| case_v("is", &v));
    }
    for _ in 0..2500 * k {
        let d = r.range(1, 6);
        let v = gen_v(&mut r, d, true, &mut wild);
        out.case(|| case_v("is", &v));
    }
}
