//! Parser family (C01, C02, C05, C07, C12): one generator suite, several projections.
//! Case lines: `s <o> <hex code points>` (text input) and `b <o> <hex bytes>` (byte input),
//! `o` = option bits (1 = accept_truncated_surrogate_pair, 2 = accept_invalid_codepoints).
use crate::common::*;
use json_syntax::parse::{Error, Options};
use json_syntax::{CodeMap, Parse, Value};

pub fn opts(o: u32) -> Options {
    Options {
        accept_truncated_surrogate_pair: o & 1 != 0,
        accept_invalid_codepoints: o & 2 != 0,
    }
}

type R = Result<(Value, CodeMap), Error>;

fn finish(r: R, f: impl FnOnce(&R) -> String) -> String {
    let s = f(&r);
    if let Ok((v, _)) = r {
        drop_deep(v);
    }
    s
}

fn verdict(r: R) -> char {
    finish(r, |r| if r.is_ok() { "A".into() } else { "R".into() }).chars().next().unwrap()
}

pub enum Input {
    Text(String),
    Bytes(Vec<u8>),
}

pub fn parse_case(line: &str) -> Option<(u32, Input)> {
    let t = toks(line);
    match t.as_slice() {
        ["s", o, h] => Some((o.parse().ok()?, Input::Text(parse_hex_string(h)))),
        ["b", o, h] => Some((o.parse().ok()?, Input::Bytes(parse_hex_bytes(h)))),
        _ => None,
    }
}

// ---------------------------------------------------------------- C01: verdicts of every entry point
pub fn eval_c01(line: &str) -> String {
    let line = line.to_string();
    guarded(move || match parse_case(&line) {
        Some((_, Input::Text(s))) => {
            let mut out = String::new();
            out.push(verdict(Value::parse_str(&s)));
            out.push(verdict(Value::parse_str_with(&s, Options::strict())));
            out.push(verdict(Value::parse_utf8(s.chars().map(Ok::<char, std::convert::Infallible>))));
            out.push(verdict(Value::parse_utf8_with(
                s.chars().map(Ok::<char, std::convert::Infallible>),
                Options::default(),
            )));
            out.push(verdict(Value::parse_infallible_utf8(s.chars())));
            out.push(verdict(Value::parse_utf8_infallible_with(s.chars(), Options::strict())));
            out.push(verdict(Value::parse(
                s.chars().map(|c| Ok::<_, std::convert::Infallible>(decoded(c))),
            )));
            out.push(verdict(Value::parse_with(
                s.chars().map(|c| Ok::<_, std::convert::Infallible>(decoded(c))),
                Options::strict(),
            )));
            // the verdict does not depend on the lengths the characters declare: UTF-8 lengths, UTF-16 byte
            // lengths, none at all, exactly 2^8 / 2^16 / 2^32 (one letter for all of them; X when they differ)
            let all = |f: &dyn Fn(&dyn Fn(char) -> decoded_char::DecodedChar) -> char| {
                let ls: [&dyn Fn(char) -> decoded_char::DecodedChar; 7] = [
                    &decoded,
                    &|c| decoded_char::DecodedChar::new(c, 2 * c.len_utf16()),
                    &|c| decoded_char::DecodedChar::new(c, 0),
                    &|c| decoded_char::DecodedChar::new(c, 256),
                    &|c| decoded_char::DecodedChar::new(c, 512),
                    &|c| decoded_char::DecodedChar::new(c, 65536),
                    &|c| decoded_char::DecodedChar::new(c, 1 << 32),
                ];
                let vs: Vec<char> = ls.iter().map(|l| f(*l)).collect();
                if vs.iter().all(|v| *v == vs[0]) { vs[0] } else { 'X' }
            };
            out.push(all(&|l| verdict(Value::parse_infallible(s.chars().map(l)))));
            out.push(all(&|l| verdict(Value::parse_infallible_with(s.chars().map(l), Options::strict()))));
            out.push(match s.parse::<Value>() {
                Ok(v) => {
                    drop_deep(v);
                    'A'
                }
                Err(_) => 'R',
            });
            out.push(verdict(Value::parse_slice(s.as_bytes())));
            out.push(verdict(Value::parse_slice_with(s.as_bytes(), Options::strict())));
            out
        }
        Some((_, Input::Bytes(b))) => {
            let mut out = String::new();
            out.push(verdict(Value::parse_slice(&b)));
            out.push(verdict(Value::parse_slice_with(&b, Options::strict())));
            out
        }
        None => format!("BADCASE {line}"),
    })
}

fn decoded(c: char) -> decoded_char::DecodedChar {
    decoded_char::DecodedChar::from_utf8(c)
}

fn run(o: u32, i: &Input) -> R {
    match i {
        Input::Text(s) => Value::parse_str_with(s, opts(o)),
        Input::Bytes(b) => Value::parse_slice_with(b, opts(o)),
    }
}


// ---------------------------------------------------------------- all entry points agree in full
/// Canonical rendering of a complete parse result (value, code map / error with position and span).
fn full_str<E>(r: &Result<(Value, CodeMap), Error<E>>) -> String {
    match r {
        Ok((v, cm)) => format!("OK {} | {}", value_str(v), codemap_str(cm)),
        Err(e) => format!("ERR {} P{} S{}-{}", error_str(e), e.position(), e.span().start(), e.span().end()),
    }
}

/// The same rendering with every source offset sent through `f`.
fn full_mapped<E>(r: &Result<(Value, CodeMap), Error<E>>, f: &dyn Fn(usize) -> String) -> String {
    use json_syntax::parse::Error::*;
    match r {
        Ok((v, cm)) => {
            let mut s = format!("OK {} |", value_str(v));
            for (_, e) in cm.iter() {
                s.push_str(&format!(" {}-{}-{}", f(e.span.start()), f(e.span.end()), e.volume));
            }
            s
        }
        Err(e) => {
            let k = match e {
                Stream(p, _) => format!("ST {}", f(*p)),
                Unexpected(p, None) => format!("U {} -", f(*p)),
                Unexpected(p, Some(c)) => format!("U {} {:x}", f(*p), *c as u32),
                InvalidUnicodeCodePoint(s, c) => format!("IC {} {} {:x}", f(s.start()), f(s.end()), c),
                MissingLowSurrogate(s, h) => format!("ML {} {} {:x}", f(s.start()), f(s.end()), h),
                InvalidLowSurrogate(s, h, c) => format!("IL {} {} {:x} {:x}", f(s.start()), f(s.end()), h, c),
                InvalidUtf8(p) => format!("IU {}", f(*p)),
            };
            format!("ERR {k} P{} S{}-{}", f(e.position()), f(e.span().start()), f(e.span().end()))
        }
    }
}

/// Sources whose characters declare another encoded length than their UTF-8 length (UTF-16
/// bytes; one unit per character; irregular lengths): every reported offset is the sum of the
/// declared lengths of the characters before it, i.e. the image of the UTF-8 offset.
fn declared_lengths_agree(s: &str, o: u32) -> bool {
    let reference = Value::parse_str_with(s, opts(o));
    // UTF-16 bytes; one unit per character; irregular lengths; and lengths no UTF encoding has: nothing at
    // all, exactly 2^8 / 2^16 / 2^32 (a length kept in a narrower field becomes 0), alternately 0 and 1 MiB
    let schemes: [&dyn Fn(usize, char) -> usize; 8] = [
        &|_, c| 2 * c.len_utf16(),
        &|_, _| 1,
        &|i, c| 1 + (i * 7 + c as usize) % 5,
        &|_, _| 0,
        &|_, _| 256,
        &|_, _| 65536,
        &|_, _| 1 << 32,
        &|i, _| if i % 2 == 0 { 0 } else { 1 << 20 },
    ];
    let mut ok = true;
    for len_of in schemes {
        // UTF-8 offset of each boundary -> offset under the scheme
        let mut table = std::collections::HashMap::new();
        let (mut u, mut a) = (0usize, 0usize);
        table.insert(0usize, 0usize);
        let mut dcs = vec![];
        for (i, c) in s.chars().enumerate() {
            let l = len_of(i, c);
            dcs.push(decoded_char::DecodedChar::new(c, l));
            u += c.len_utf8();
            a += l;
            table.insert(u, a);
        }
        let want = full_mapped(&reference, &|p| match table.get(&p) {
            Some(q) => q.to_string(),
            None => format!("?{p}"),
        });
        let r = Value::parse_infallible_with(dcs.iter().copied(), opts(o));
        let got = full_mapped(&r, &|p| p.to_string());
        if let Ok((v, _)) = r {
            drop_deep(v);
        }
        let r2 = Value::parse_with(dcs.iter().map(|c| Ok::<_, std::convert::Infallible>(*c)), opts(o));
        let got2 = full_mapped(&r2, &|p| p.to_string());
        if let Ok((v, _)) = r2 {
            drop_deep(v);
        }
        ok &= got == want && got2 == want;
    }
    if let Ok((v, _)) = reference {
        drop_deep(v);
    }
    ok
}

/// A character source that fails after k characters (`parse_utf8_with` over `Result` items)
/// behaves as the byte entry point does on the same k characters followed by an ill-formed
/// byte: the same syntax error if there is one strictly before, else `Stream` exactly where
/// the byte entry point reports `InvalidUtf8` (position, span, and `Options::flexible()` =
/// both options on).
fn stream_errors_agree(s: &str, o: u32) -> bool {
    let n = s.chars().count();
    let cuts: Vec<usize> = if n <= 10 { (0..=n).collect() } else { vec![0, 1, n / 3, n / 2, n - 1, n] };
    let options = if o == 3 { Options::flexible() } else { opts(o) };
    let mut ok = opts(3) == Options::flexible() || {
        let f = Options::flexible();
        f.accept_truncated_surrogate_pair && f.accept_invalid_codepoints
    };
    for k in cuts {
        let prefix: String = s.chars().take(k).collect();
        let mut bytes = prefix.clone().into_bytes();
        bytes.push(0xff);
        let by = Value::parse_slice_with(&bytes, options);
        let st = Value::parse_utf8_with(prefix.chars().map(Ok::<char, ()>).chain(std::iter::once(Err(()))), options);
        let a = full_mapped(&by, &|p| p.to_string());
        let b = match &st {
            Err(Error::Stream(p, ())) => {
                let e = st.as_ref().err().unwrap();
                format!("ERR IU {} P{} S{}-{}", p, e.position(), e.span().start(), e.span().end())
            }
            _ => full_mapped(&st, &|p| p.to_string()),
        };
        ok &= a == b && a.starts_with("ERR");
        if let Ok((v, _)) = by {
            drop_deep(v);
        }
        if let Ok((v, _)) = st {
            drop_deep(v);
        }
    }
    ok
}

fn full<E>(r: Result<(Value, CodeMap), Error<E>>) -> String {
    let s = full_str(&r);
    if let Ok((v, _)) = r {
        drop_deep(v);
    }
    s
}

/// `EP=1` when every text entry point returns exactly what `parse_str_with` returns under the
/// same options (the option-less ones only for the strict record); otherwise the name of the
/// first entry point that differs.  The model answers `EP=1` (C01_entry_points_text).
pub fn entry_points_agree(s: &str, o: u32) -> String {
    type Inf = std::convert::Infallible;
    let reference = full(Value::parse_str_with(s, opts(o)));
    let mut all: Vec<(&str, String)> = vec![
        ("parse_utf8_with", full(Value::parse_utf8_with(s.chars().map(Ok::<char, Inf>), opts(o)))),
        ("parse_utf8_infallible_with", full(Value::parse_utf8_infallible_with(s.chars(), opts(o)))),
        ("parse_with", full(Value::parse_with(s.chars().map(|c| Ok::<_, Inf>(decoded(c))), opts(o)))),
        ("parse_infallible_with", full(Value::parse_infallible_with(s.chars().map(decoded), opts(o)))),
        ("parse_slice_with", full(Value::parse_slice_with(s.as_bytes(), opts(o)))),
    ];
    if o == 0 {
        all.push(("parse_str", full(Value::parse_str(s))));
        all.push(("parse_utf8", full(Value::parse_utf8(s.chars().map(Ok::<char, Inf>)))));
        all.push(("parse_infallible_utf8", full(Value::parse_infallible_utf8(s.chars()))));
        all.push(("parse", full(Value::parse(s.chars().map(|c| Ok::<_, Inf>(decoded(c)))))));
        all.push(("parse_infallible", full(Value::parse_infallible(s.chars().map(decoded)))));
        all.push(("parse_slice", full(Value::parse_slice(s.as_bytes()))));
        let fs = match s.parse::<Value>() {
            Ok(v) => {
                let t = format!("OK {}", value_str(&v));
                drop_deep(v);
                t
            }
            Err(e) => format!("ERR {} P{} S{}-{}", error_str(&e), e.position(), e.span().start(), e.span().end()),
        };
        let want = if reference.starts_with("OK ") { reference.split(" | ").next().unwrap().to_string() } else { reference.clone() };
        if fs != want {
            return "EP=from_str".into();
        }
    }
    for (name, got) in all {
        if got != reference {
            return format!("EP={name}");
        }
    }
    if !declared_lengths_agree(s, o) {
        return "EP=declared_lengths".into();
    }
    if !stream_errors_agree(s, o) {
        return "EP=stream_errors".into();
    }
    "EP=1".into()
}

fn ep_suffix(o: u32, i: &Input) -> String {
    match i {
        Input::Text(s) => format!(" {}", entry_points_agree(s, o)),
        Input::Bytes(b) => {
            // bytes: the option-less byte entry point agrees with the explicit one
            if o == 0 && full(Value::parse_slice(b)) != full(Value::parse_slice_with(b, opts(0))) {
                " EP=parse_slice".into()
            } else {
                " EP=1".into()
            }
        }
    }
}

// ---------------------------------------------------------------- C02: the value (and key lookups)
pub fn eval_c02(line: &str) -> String {
    let line = line.to_string();
    guarded(move || match parse_case(&line) {
        Some((o, i)) => finish(run(o, &i), |r| match r {
            Ok((v, _)) => {
                // every node's kind predicates and accessors agree with its variant (small documents)
                let mut acc_ok = true;
                let mut budget = 400usize;
                let mut stack = vec![v];
                while let Some(x) = stack.pop() {
                    if budget == 0 {
                        break;
                    }
                    budget -= 1;
                    if value_str(x).len() < 4000 {
                        acc_ok &= accessors_agree(x);
                    }
                    match x {
                        Value::Array(a) => stack.extend(a.iter()),
                        Value::Object(obj) => stack.extend(obj.iter().map(|e| &e.value)),
                        _ => (),
                    }
                }
                format!("OK {} | {}{}", value_str(v), lookups(v), if acc_ok { "" } else { " ACCESSORS-DISAGREE" })
            }
            Err(_) => "ERR".into(),
        }) + &ep_suffix(o, &i),
        None => format!("BADCASE {line}"),
    })
}

/// For every object of the value (pre-order) and every key occurring in it plus one absent
/// key: what get / get_entries / index_of / indexes_of / contains_key / get_unique return.
pub fn lookups(v: &Value) -> String {
    let mut out = String::new();
    let mut stack = vec![v];
    while let Some(x) = stack.pop() {
        match x {
            Value::Array(a) => stack.extend(a.iter().rev()),
            Value::Object(obj) => {
                let mut keys: Vec<String> = vec![];
                for e in obj.iter() {
                    if !keys.iter().any(|k| k == e.key.as_str()) {
                        keys.push(e.key.as_str().to_string());
                    }
                }
                keys.push("\u{1}absent".to_string());
                for k in &keys {
                    let k = k.as_str();
                    let vals: Vec<String> = obj.get(k).map(value_str).collect();
                    let ents: Vec<String> = obj
                        .get_entries(k)
                        .map(|e| format!("{}={}", hex_str(e.key.as_str()), value_str(&e.value)))
                        .collect();
                    let idx: Vec<String> = obj.indexes_of(k).map(|i| i.to_string()).collect();
                    // the lookup iterators behave the same under skip / nth / step_by / last / count
                    let styles = styles_agree(&|| obj.get(k), &|v| v as *const Value)
                        && styles_agree(&|| obj.get_entries(k), &|e| e as *const json_syntax::object::Entry)
                        && styles_agree(&|| obj.get_with_index(k), &|(i, v)| (i, v as *const Value))
                        && styles_agree(&|| obj.get_entries_with_index(k), &|(i, e)| (i, e as *const json_syntax::object::Entry))
                        && styles_agree(&|| obj.indexes_of(k), &|i| i)
                        && crate::object::mut_lookup_agrees(obj, k);
                    let uniq = match obj.get_unique(k) {
                        Ok(None) => "none".to_string(),
                        Ok(Some(v)) => format!("one {}", value_str(v)),
                        Err(d) => format!("dup {} {}", value_str(&d.0.value), value_str(&d.1.value)),
                    };
                    out.push_str(&format!(
                        "<{}{} c={} i={:?} r={:?} ix=[{}] g=[{}] e=[{}] u={}>",
                        hex_str(k),
                        if styles { "" } else { " ITERATOR-STYLES-DISAGREE" },
                        obj.contains_key(k) as u8,
                        obj.index_of(k),
                        obj.redundant_index_of(k),
                        idx.join(","),
                        vals.join(";"),
                        ents.join(";"),
                        uniq
                    ));
                }
                stack.extend(obj.iter().rev().map(|e| &e.value));
            }
            _ => (),
        }
    }
    if out.is_empty() {
        out.push('-');
    }
    out
}

// ---------------------------------------------------------------- C05: the code map, both entry points
pub fn eval_c05(line: &str) -> String {
    let line = line.to_string();
    guarded(move || match parse_case(&line) {
        Some((o, i)) => {
            let show = |r: &R| match r {
                Ok((v, cm)) => {
                    // the traversal's fragment kinds, in order (entry i of the map is fragment i of this walk)
                    let kinds: String = v
                        .traverse()
                        .map(|(_, f)| match f {
                            json_syntax::FragmentRef::Value(_) => 'v',
                            json_syntax::FragmentRef::Entry(_) => 'e',
                            json_syntax::FragmentRef::Key(_) => 'k',
                        })
                        .collect();
                    let idx_ok = v.traverse().enumerate().all(|(n, (i, _))| n == i);
                    format!("OK {} T{} K{}{}", codemap_str(cm), v.traverse().count(), kinds, if idx_ok { "" } else { "!" })
                }
                Err(_) => "ERR".into(),
            };
            (match &i {
                Input::Text(s) => {
                    let a = finish(Value::parse_str_with(s, opts(o)), show);
                    let b = finish(Value::parse_slice_with(s.as_bytes(), opts(o)), show);
                    format!("{a} ; {b}")
                }
                Input::Bytes(_) => finish(run(o, &i), show),
            }) + &ep_suffix(o, &i)
        }
        None => format!("BADCASE {line}"),
    })
}

// ---------------------------------------------------------------- C07: the error, both entry points
pub fn eval_c07(line: &str) -> String {
    let line = line.to_string();
    guarded(move || match parse_case(&line) {
        Some((o, i)) => {
            let show = |r: &R| match r {
                Ok(_) => "OK".to_string(),
                Err(e) => format!("ERR {} P{} S{}-{}", error_str(e), e.position(), e.span().start(), e.span().end()),
            };
            (match &i {
                Input::Text(s) => {
                    let a = finish(Value::parse_str_with(s, opts(o)), show);
                    let b = finish(Value::parse_slice_with(s.as_bytes(), opts(o)), show);
                    format!("{a} ; {b}")
                }
                Input::Bytes(_) => finish(run(o, &i), show),
            }) + &ep_suffix(o, &i)
        }
        None => format!("BADCASE {line}"),
    })
}

// ---------------------------------------------------------------- C12: everything, under the case's options
pub fn eval_c12(line: &str) -> String {
    let line = line.to_string();
    guarded(move || match parse_case(&line) {
        Some((o, i)) => finish(run(o, &i), |r| match r {
            Ok((v, cm)) => format!("OK {} | {}", value_str(v), codemap_str(cm)),
            Err(e) => format!("ERR {}", error_str(e)),
        }) + &ep_suffix(o, &i),
        None => format!("BADCASE {line}"),
    })
}

// =================================================================== generators

fn text_case(o: u32, s: &str) -> String {
    format!("s {o} {}", hex_str(s))
}
fn cps_case(o: u32, cps: &[u32]) -> String {
    format!("s {o} {}", hex_cps(cps.iter().copied()))
}
fn bytes_case(o: u32, b: &[u8]) -> String {
    format!("b {o} {}", hex_bytes(b))
}

pub const TOKENS: [&str; 14] = [
    "[", "]", "{", "}", ",", ":", "\"a\"", "\"\"", "0", "-1.5e2", "true", "false", "null", " ",
];

/// The 45-character alphabet of E2.
pub fn alphabet() -> Vec<char> {
    let mut v: Vec<char> = "[]{},:\"\\/bfnrtu-+.eE0179aAfFx".chars().collect();
    v.extend([' ', '\t', '\n', '\r', '\u{b}', '\u{c}', '\u{a0}', '\0', '\u{1f}', '\u{7f}', '\u{80}']);
    v.extend(['\u{d7ff}', '\u{e000}', '\u{feff}', '\u{fffd}', '\u{10000}', '\u{10ffff}']);
    v.sort();
    v.dedup();
    v
}

/// E1: every string of at most `n` tokens.
fn e1(out: &mut Out, os: &[u32], n: usize) {
    let mut idx: Vec<usize> = vec![];
    loop {
        for &o in os {
            out.case(|| {
                let s: String = idx.iter().map(|i| TOKENS[*i]).collect();
                text_case(o, &s)
            });
        }
        // next sequence (shortlex)
        let mut k = idx.len();
        loop {
            if k == 0 {
                idx = vec![0; idx.len() + 1];
                break;
            }
            k -= 1;
            if idx[k] + 1 < TOKENS.len() {
                idx[k] += 1;
                for j in k + 1..idx.len() {
                    idx[j] = 0;
                }
                break;
            }
        }
        if idx.len() > n {
            break;
        }
    }
}

/// E2: every string of at most `n` characters over the alphabet.
fn e2(out: &mut Out, os: &[u32], n: usize) {
    let al = alphabet();
    let mut idx: Vec<usize> = vec![];
    loop {
        for &o in os {
            out.case(|| {
                let s: String = idx.iter().map(|i| al[*i]).collect();
                text_case(o, &s)
            });
        }
        let mut k = idx.len();
        loop {
            if k == 0 {
                idx = vec![0; idx.len() + 1];
                break;
            }
            k -= 1;
            if idx[k] + 1 < al.len() {
                idx[k] += 1;
                for j in k + 1..idx.len() {
                    idx[j] = 0;
                }
                break;
            }
        }
        if idx.len() > n {
            break;
        }
    }
}

/// Class representatives used after each lexical prefix: all of ASCII plus boundaries.
fn class_reps() -> Vec<u32> {
    let mut v: Vec<u32> = (0..0x80).collect();
    v.extend([
        0x80, 0xa0, 0xff, 0x100, 0x7ff, 0x800, 0x2028, 0x2029, 0xd7ff, 0xe000, 0xfeff, 0xfffd, 0xffff,
        0x10000, 0x1d11e, 0x10ffff,
    ]);
    v
}

/// E3: transition cover of the regular sub-languages in four contexts.
fn e3(out: &mut Out, os: &[u32]) {
    let prefixes: Vec<&str> = vec![
        "", "-", "0", "-0", "1", "12", "1.", "1.5", "1.50", "1e", "1E", "1e+", "1e-", "1e5", "1e+5", "0.", "0e",
        "0.0", "t", "tr", "tru", "true", "f", "fa", "fal", "fals", "false", "n", "nu", "nul", "null", "\"",
        "\"a", "\"\\", "\"\\u", "\"\\u1", "\"\\u12", "\"\\u123", "\"\\u1234", "\"\\ud800", "\"\\ud800\\",
        "\"\\ud800\\u", "\"\\ud800\\ud", "\"\\ud800\\udc0", "\"\\ud800\\udc00", "\"\\udc00", "\"\\n", "\"\"",
        "[", "[1", "[1,", "[1 ", "{", "{\"a\"", "{\"a\":", "{\"a\":1", "{\"a\":1,", "[]", "{}", "[[", "[{",
    ];
    let contexts: [(&str, &str); 4] = [("", ""), ("[", "]"), ("{\"k\":", "}"), ("{", ":0}")];
    let reps = class_reps();
    for (pre, post) in contexts {
        for p in &prefixes {
            for &c in &reps {
                for &o in os {
                    for close in [false, true] {
                        out.case(|| {
                            let mut cps: Vec<u32> = pre.chars().map(|c| c as u32).collect();
                            cps.extend(p.chars().map(|c| c as u32));
                            cps.push(c);
                            if close {
                                cps.extend(post.chars().map(|c| c as u32));
                            }
                            cps_case(o, &cps)
                        });
                    }
                }
            }
            for &o in os {
                out.case(|| text_case(o, &format!("{pre}{p}")));
                out.case(|| text_case(o, &format!("{pre}{p}{post}")));
            }
        }
    }
}

fn hex4(u: u32) -> String {
    format!("\\u{:04x}", u)
}

/// E4: escapes and raw scalars (complete when `full`).
fn e4(out: &mut Out, os: &[u32], full: bool, rng: &mut Rng) {
    // all \uXXXX (65,536) or boundaries + samples
    let units: Vec<u32> = if full {
        (0..0x10000).collect()
    } else {
        let mut v = vec![];
        for b in [0u32, 0x1f, 0x20, 0x22, 0x5c, 0x7f, 0x80, 0x7ff, 0x800, 0xd7ff, 0xd800, 0xdbff, 0xdc00, 0xdfff, 0xe000, 0xfffd, 0xffff] {
            for d in 0..5u32 {
                v.push((b + d).saturating_sub(2).min(0xffff));
            }
        }
        for _ in 0..2000 {
            v.push(rng.below(0x10000) as u32);
        }
        v
    };
    for &u in &units {
        for &o in os {
            out.case(|| text_case(o, &format!("\"{}\"", hex4(u))));
        }
    }
    // upper-case hex digits and mixed case
    for u in [0xabcdu32, 0xd83d, 0xdeaf, 0x00ff] {
        for &o in os {
            out.case(|| text_case(o, &format!("\"\\u{:04X}\"", u)));
            out.case(|| text_case(o, &format!("\"\\u{:02X}{:02x}\"", u >> 8, u & 0xff)));
        }
    }
    // high x low pairs
    if full {
        for h in 0xd800..0xdc00u32 {
            for l in 0xdc00..0xe000u32 {
                out.case(|| text_case(0, &format!("\"{}{}\"", hex4(h), hex4(l))));
            }
        }
    } else {
        let hs = [0xd800u32, 0xd801, 0xd83d, 0xdbfe, 0xdbff];
        let ls = [0xdc00u32, 0xdc01, 0xde00, 0xdffe, 0xdfff];
        for h in hs {
            for l in ls {
                for &o in os {
                    out.case(|| text_case(o, &format!("\"{}{}\"", hex4(h), hex4(l))));
                }
            }
        }
        for _ in 0..2000 {
            let h = 0xd800 + rng.below(0x400) as u32;
            let l = 0xdc00 + rng.below(0x400) as u32;
            out.case(|| text_case(0, &format!("\"{}{}\"", hex4(h), hex4(l))));
        }
    }
    // raw scalars
    let scalars: Vec<u32> = if full {
        (0..0x110000u32).filter(|c| !(0xd800..0xe000).contains(c)).collect()
    } else {
        let mut v: Vec<u32> = (0..0x100).collect();
        for b in [0x7ffu32, 0x800, 0xd7ff, 0xe000, 0xffff, 0x10000, 0x10ffff, 0x2028] {
            for d in 0..5u32 {
                let c = (b + d).saturating_sub(2).min(0x10ffff);
                if !(0xd800..0xe000).contains(&c) {
                    v.push(c);
                }
            }
        }
        for _ in 0..2000 {
            let c = rng.below(0x110000) as u32;
            if !(0xd800..0xe000).contains(&c) {
                v.push(c);
            }
        }
        v
    };
    for &c in &scalars {
        out.case(|| cps_case(0, &[0x22, c, 0x22]));
    }
    // backslash + every ASCII character
    for c in 0..0x80u32 {
        for &o in os {
            out.case(|| cps_case(o, &[0x22, 0x5c, c, 0x22]));
        }
    }
}

/// E5: byte patterns.
fn e5(out: &mut Out, os: &[u32]) {
    let wrap = |mid: &[u8]| {
        let mut v = vec![b'"'];
        v.extend_from_slice(mid);
        v.push(b'"');
        v
    };
    for a in 0..=255u8 {
        for &o in os {
            out.case(|| bytes_case(o, &wrap(&[a])));
            out.case(|| bytes_case(o, &[a]));
            out.case(|| bytes_case(o, &[b'[', a, b']']));
        }
    }
    for a in 0x80..=255u8 {
        for b in 0..=255u8 {
            out.case(|| bytes_case(0, &wrap(&[a, b])));
        }
    }
    for a in [0xc0u8, 0xc1, 0xc2, 0xdf] {
        for b in [0x80u8, 0xa0, 0xaf, 0xbf] {
            for &o in os {
                out.case(|| bytes_case(o, &[a, b]));
                out.case(|| bytes_case(o, &[a, b, b'1']));
                out.case(|| bytes_case(o, &[b'1', a, b]));
            }
        }
    }
    for a in [0xe0u8, 0xe1, 0xec, 0xed, 0xee, 0xef] {
        for b in 0..=255u8 {
            for c in [0x7fu8, 0x80, 0xbf, 0xc0] {
                out.case(|| bytes_case(0, &wrap(&[a, b, c])));
            }
        }
    }
    for a in [0xf0u8, 0xf1, 0xf3, 0xf4, 0xf5, 0xf8] {
        for b in 0..=255u8 {
            for c in [0x7fu8, 0x80, 0xbf, 0xc0] {
                for d in [0x7fu8, 0x80, 0xbf, 0xc0] {
                    out.case(|| bytes_case(0, &wrap(&[a, b, c, d])));
                }
            }
        }
    }
    // truncations of multi-byte characters, BOM, stray continuation after valid text
    let samples: [&[u8]; 8] = [
        "\"é\"".as_bytes(),
        "\"€\"".as_bytes(),
        "\"😀\"".as_bytes(),
        "[\"é\", 1]".as_bytes(),
        "\u{feff}[]".as_bytes(),
        "[]\u{feff}".as_bytes(),
        "{\"€\": \"😀\"}".as_bytes(),
        "\u{feff}".as_bytes(),
    ];
    for s in samples {
        for &o in os {
            for cut in 0..=s.len() {
                out.case(|| bytes_case(o, &s[..cut]));
            }
            for del in 0..s.len() {
                out.case(|| {
                    let mut v = s.to_vec();
                    v.remove(del);
                    bytes_case(o, &v)
                });
            }
        }
    }
    // a syntax error strictly before / after ill-formed bytes
    for tail in [&[0xffu8][..], &[0xc0, 0xaf], &[0xed, 0xa0, 0x80], &[0xe2, 0x82]] {
        for head in ["[1,]", "[1, ", "{\"a\" 1", "tru", "\"abc", "[\"a\\x", "1 "] {
            for &o in os {
                out.case(|| {
                    let mut v = head.as_bytes().to_vec();
                    v.extend_from_slice(tail);
                    bytes_case(o, &v)
                });
                out.case(|| {
                    let mut v = head.as_bytes().to_vec();
                    v.extend_from_slice(tail);
                    v.extend_from_slice(b"]");
                    bytes_case(o, &v)
                });
            }
        }
    }
}

fn corpus() -> Vec<(String, Vec<u8>)> {
    let mut v = vec![];
    if let Ok(rd) = std::fs::read_dir("/repo/tests/inputs") {
        for e in rd.flatten() {
            let p = e.path();
            if p.extension().map(|x| x == "json").unwrap_or(false) {
                v.push((p.file_name().unwrap().to_string_lossy().to_string(), std::fs::read(&p).unwrap()));
            }
        }
    }
    v.sort();
    v
}

/// E6: the corpus, its truncations and single-byte edits.
fn e6(out: &mut Out, os: &[u32], full: bool) {
    let probes: [u8; 8] = [b' ', b'"', b'\\', b',', b'0', b'}', 0x80, 0x00];
    for (_, data) in corpus() {
        // the two >100 KB nesting bombs are exercised on the implementation only (C03):
        // the list-based model is quadratic in the number of fragments
        if data.len() > 8192 {
            continue;
        }
        for &o in os {
            out.case(|| bytes_case(o, &data));
            if let Ok(s) = std::str::from_utf8(&data) {
                out.case(|| text_case(o, s));
            }
        }
        let limit = if full { 2048 } else { 96 };
        if data.len() <= limit {
            for cut in 0..data.len() {
                out.case(|| bytes_case(0, &data[..cut]));
            }
            for i in 0..data.len() {
                out.case(|| {
                    let mut v = data.clone();
                    v.remove(i);
                    bytes_case(0, &v)
                });
                if full || i % 3 == 0 {
                    for p in probes {
                        if data[i] != p {
                            out.case(|| {
                                let mut v = data.clone();
                                v[i] = p;
                                bytes_case(0, &v)
                            });
                        }
                    }
                }
            }
        }
    }
}

// ---- E7: grammar-based random documents ----
pub fn gen_ws(r: &mut Rng, s: &mut String) {
    if r.chance(1, 3) {
        for _ in 0..r.range(1, 3) {
            s.push(*r.pick(&[' ', ' ', '\n', '\t', '\r']));
        }
    }
}

pub fn gen_number(r: &mut Rng, s: &mut String) {
    if r.chance(1, 3) {
        s.push('-');
    }
    if r.chance(1, 4) {
        s.push('0');
    } else {
        s.push(*r.pick(&['1', '2', '5', '9']));
        let m = if r.chance(1, 10) { 30 } else { 4 };
        for _ in 0..r.below(m) {
            s.push((b'0' + r.below(10) as u8) as char);
        }
    }
    if r.chance(1, 3) {
        s.push('.');
        let m = if r.chance(1, 10) { 30 } else { 4 };
        for _ in 0..r.range(1, m) {
            s.push((b'0' + r.below(10) as u8) as char);
        }
    }
    if r.chance(1, 4) {
        s.push(*r.pick(&['e', 'E']));
        match r.below(3) {
            0 => s.push('+'),
            1 => s.push('-'),
            _ => (),
        }
        for _ in 0..r.range(1, 3) {
            s.push((b'0' + r.below(10) as u8) as char);
        }
    }
}

pub fn gen_string(r: &mut Rng, s: &mut String, lenient: bool) {
    s.push('"');
    let n = if r.chance(1, 8) { r.range(8, 24) } else { r.below(5) };
    for _ in 0..n {
        match r.below(16) {
            0 => s.push_str(*r.pick(&["\\\"", "\\\\", "\\/", "\\b", "\\f", "\\n", "\\r", "\\t"])),
            1 => s.push_str(&hex4(*r.pick(&[0u32, 0x1f, 0x22, 0x41, 0x5c, 0xe9, 0x20ac, 0xfffd, 0xffff]))),
            2 => {
                // surrogate pair escape
                s.push_str(&hex4(0xd800 + r.below(0x400) as u32));
                s.push_str(&hex4(0xdc00 + r.below(0x400) as u32));
            }
            3 if lenient => s.push_str(&hex4(0xd800 + r.below(0x800) as u32)),
            4 => s.push(*r.pick(&['é', '€', '😀', '\u{2028}', '\u{7f}', '\u{10ffff}', '\u{fffe}', '/'])),
            5 => s.push(*r.pick(&['k', 'a'])),
            _ => s.push((b'a' + r.below(26) as u8) as char),
        }
    }
    s.push('"');
}

pub fn gen_doc(r: &mut Rng, depth: usize, s: &mut String, lenient: bool) {
    let leaf = depth == 0 || r.chance(2, 5);
    if leaf {
        match r.below(6) {
            0 => s.push_str("null"),
            1 => s.push_str("true"),
            2 => s.push_str("false"),
            3 => gen_string(r, s, lenient),
            _ => gen_number(r, s),
        }
    } else if r.chance(1, 2) {
        s.push('[');
        gen_ws(r, s);
        let n = r.below(4);
        for i in 0..n {
            if i > 0 {
                s.push(',');
            }
            gen_ws(r, s);
            gen_doc(r, depth - 1, s, lenient);
            gen_ws(r, s);
        }
        s.push(']');
    } else {
        s.push('{');
        gen_ws(r, s);
        let n = r.below(4);
        for i in 0..n {
            if i > 0 {
                s.push(',');
                gen_ws(r, s);
            }
            if r.chance(1, 3) {
                s.push_str(*r.pick(&["\"k\"", "\"\"", "\"a\"", "\"k\\u0061\""]));
            } else {
                gen_string(r, s, lenient);
            }
            gen_ws(r, s);
            s.push(':');
            gen_ws(r, s);
            gen_doc(r, depth - 1, s, lenient);
            gen_ws(r, s);
        }
        s.push('}');
    }
}

fn mutate(r: &mut Rng, s: &str) -> String {
    let mut cs: Vec<char> = s.chars().collect();
    for _ in 0..r.range(1, 3) {
        let pool: Vec<char> = "[]{},:\"\\ 0-.eEtfn\n\u{0}u".chars().collect();
        match r.below(4) {
            0 if !cs.is_empty() => {
                cs.remove(r.below(cs.len()));
            }
            1 => {
                let p = r.below(cs.len() + 1);
                cs.insert(p, *r.pick(&pool));
            }
            2 if !cs.is_empty() => {
                let p = r.below(cs.len());
                cs[p] = *r.pick(&pool);
            }
            _ => {
                let p = r.below(cs.len() + 1);
                cs.truncate(p);
            }
        }
    }
    cs.into_iter().collect()
}

fn e7(out: &mut Out, os: &[u32], n: usize, rng: &mut Rng) {
    for k in 0..n {
        let mut r = rng.fork();
        let lenient = os.len() > 1 && k % 3 == 0;
        let mut s = String::new();
        gen_ws(&mut r, &mut s);
        let depth = r.range(0, 6);
        gen_doc(&mut r, depth, &mut s, lenient);
        gen_ws(&mut r, &mut s);
        let m = mutate(&mut r, &s);
        for &o in os {
            out.case_str(&text_case(o, &s));
            out.case_str(&text_case(o, &m));
        }
        if k % 4 == 0 {
            out.case_str(&bytes_case(os[k % os.len()], s.as_bytes()));
            out.case_str(&bytes_case(os[k % os.len()], m.as_bytes()));
        }
    }
}

/// Every sequence of up to four string elements from {high escape, low escape, ordinary
/// escape, raw character}, as a value and as a key (C12's own family).
fn surrogate_sequences(out: &mut Out, os: &[u32]) {
    let elems = ["\\ud83d", "\\ude00", "\\n", "x", "\\u0041", "\\udbff", "\\udc00", "\u{e9}", "\u{1f600}"];
    // sequences of up to three elements over a larger alphabet: every two-character escape (a pending
    // high surrogate must be settled before any of them), a second pair with other halves
    let more = [
        "\\ud83d", "\\ude00", "\\n", "x", "\\u0041", "\\udbff", "\\udc00", "\u{e9}", "\u{1f600}", "\\/", "\\\"", "\\\\", "\\b", "\\f", "\\r", "\\t", "\\ud83e", "\\udd14",
    ];
    for (alpha, max) in [(&elems[..], 4usize), (&more[..], 3)] {
        for n in 0..=max {
            let total = alpha.len().pow(n as u32);
            for code in 0..total {
                let mut c = code;
                let mut body = String::new();
                let mut only_old = true;
                for _ in 0..n {
                    only_old &= c % alpha.len() < elems.len();
                    body.push_str(alpha[c % alpha.len()]);
                    c /= alpha.len();
                }
                if alpha.len() > elems.len() && only_old {
                    continue;
                }
                for &o in os {
                    out.case(|| text_case(o, &format!("\"{body}\"")));
                    out.case(|| text_case(o, &format!("{{\"{body}\":0}}")));
                }
            }
        }
    }
}


/// E8: objects with many distinct keys (several growth / rehash cycles of the key index while
/// the parser pushes entries), duplicates of early keys after each growth, nested.
fn e8(out: &mut Out, os: &[u32], full: bool, rng: &mut Rng) {
    let sizes: &[usize] = if full { &[4, 5, 7, 8, 9, 14, 15, 16, 28, 29, 30, 56, 57, 58, 64, 113, 120] } else { &[4, 5, 8, 9, 15, 16, 29, 30, 58] };
    for &n in sizes {
        for variant in 0..(if full { 6 } else { 3 }) {
            let mut r = rng.fork();
            let mut s = String::from("{");
            let mut count = 0usize;
            for i in 0..n {
                if count > 0 {
                    s.push(',');
                }
                // key names: short ASCII, some non-ASCII, some escaped spellings of the same key
                let key = match (variant, i % 7) {
                    (1, 3) => format!("\"k{}\u{00e9}\"", i),
                    (2, 5) => format!("\"\\u006b{}\"", i),
                    _ => format!("\"k{}\"", i),
                };
                s.push_str(&key);
                s.push(':');
                if variant == 2 && i == n / 2 {
                    // a nested wide object
                    s.push('{');
                    for j in 0..n.min(20) {
                        if j > 0 {
                            s.push(',');
                        }
                        s.push_str(&format!("\"n{}\":{}", j % (n.min(20) - 1).max(1), j));
                    }
                    s.push('}');
                } else {
                    s.push_str(&format!("{}", i));
                }
                count += 1;
                // after (roughly) each power of two, repeat an early key: a duplicate whose first
                // occurrence was inserted before the table grew
                if (i + 1).is_power_of_two() || r.chance(1, 9) {
                    let e = r.below(i + 1);
                    s.push_str(&format!(",\"k{}\":null", e));
                    count += 1;
                }
            }
            s.push('}');
            for &o in os {
                out.case_str(&text_case(o, &s));
                if variant == 0 {
                    out.case_str(&bytes_case(o, format!("[{s}, {s}]").as_bytes()));
                }
            }
        }
    }
}

/// E8b: every key twice, over 40..600 distinct keys (a key index that finds only the first candidate bucket of a hash
/// loses the second occurrence of a key whenever another key shares its control tag: about one key in 128 per neighbour).
fn e8b(out: &mut Out, os: &[u32], full: bool) {
    let sizes: &[usize] = if full { &[40, 150, 300, 600, 1000] } else { &[40, 300, 600] };
    for &n in sizes {
        let mut s = String::from("{");
        for round in 0..2 {
            for i in 0..n {
                if round + i > 0 {
                    s.push(',');
                }
                s.push_str(&format!("\"key{}_{}\":{}", i % 7, i, round * n + i));
            }
        }
        s.push('}');
        for &o in os {
            out.case_str(&text_case(o, &s));
        }
    }
}

/// E9: aliasing.  (a) a high-surrogate escape followed by a second escape at and around every
/// multiple of 0x400 (all 65,536 second escapes when `full`); (b) characters that coincide with a
/// character of the document in their low 7, 8 or 16 bits (or differ in one high bit), put in
/// its place at every position of template documents.
fn e9(out: &mut Out, os: &[u32], full: bool) {
    let seconds: Vec<u32> = if full {
        (0..0x10000).collect()
    } else {
        let mut v = vec![];
        for k in 0..=64u32 {
            for d in [-1i64, 0, 1, 0x1ff] {
                let x = k as i64 * 0x400 + d;
                if (0..0x10000).contains(&x) {
                    v.push(x as u32);
                }
            }
        }
        v
    };
    for h in [0xd800u32, 0xd9ab, 0xdbff] {
        for &l in &seconds {
            for &o in os {
                out.case(|| text_case(o, &format!("\"{}{}\"", hex4(h), hex4(l))));
                if l % 0x400 == 0 {
                    out.case(|| text_case(o, &format!("{{\"{}{}\":0}}", hex4(h), hex4(l))));
                }
            }
        }
    }
    let templates = [
        "{\"a\\n\": [1, -2.5e+3, true, false, null, \"\\u00e9\\\\/\"], \"b\" :\t{}}\r\n ",
        " [ 0.5E-7 ,\n\"\\ud83d\\ude00\\b\\f\\r\\t\\\"\" ]",
    ];
    let offsets: [u32; 9] = [0x80, 0x100, 0x200, 0x2000, 0xff00, 0x10000, 0x10ff00, 0x20000, 0xe0000];
    for t in templates {
        let cs: Vec<u32> = t.chars().map(|c| c as u32).collect();
        for i in 0..cs.len() {
            for off in offsets {
                let c = cs[i] + off;
                if char::from_u32(c).is_none() {
                    continue;
                }
                for &o in os {
                    out.case(|| {
                        let mut v = cs.clone();
                        v[i] = c;
                        cps_case(o, &v)
                    });
                }
            }
        }
    }
}

/// E10: the four characters after `\u`: every word of length 4 over hex digits of both cases and
/// the characters a lenient integer parser would let through (sign, space, underscore, `x`, a
/// non-ASCII digit), alone and after a pending high surrogate.
fn e10(out: &mut Out, os: &[u32], full: bool) {
    let alpha: Vec<char> = if full { "09afAF+- _xgG.\u{663}".chars().collect() } else { "0aF+- _x\u{663}".chars().collect() };
    let n = alpha.len();
    for code in 0..n.pow(4) {
        let mut c = code;
        let mut w = String::new();
        for _ in 0..4 {
            w.push(alpha[c % n]);
            c /= n;
        }
        for &o in os {
            out.case(|| text_case(o, &format!("\"\\u{w}\"")));
            if code % 7 == 0 {
                out.case(|| text_case(o, &format!("\"\\ud800\\u{w}\"")));
                out.case(|| text_case(o, &format!("{{\"\\u{w}\":0}}")));
            }
        }
    }
}

/// E11: strings and keys of 0..=70 ASCII characters followed by a 2-, 3- or 4-byte character
/// (raw, and as an escape / escaped surrogate pair), then a tail: every fill level of an internal
/// buffer of up to 64 bytes meets every character width.
fn e11(out: &mut Out, os: &[u32], full: bool) {
    let tails = ["", "z"];
    for k in 0..=(if full { 140usize } else { 70 }) {
        let run: String = (0..k).map(|i| (b'a' + (i % 26) as u8) as char).collect();
        for c in ["\u{e9}", "\u{20ac}", "\u{1f600}", "\\u00e9", "\\ud83d\\ude00", "\\n"] {
            for (ti, tail) in tails.iter().enumerate() {
                for &o in os {
                    out.case(|| text_case(o, &format!("\"{run}{c}{tail}\"")));
                    if ti == 0 && k % 3 == 0 {
                        out.case(|| text_case(o, &format!("{{\"{run}{c}\":[\"{c}{run}\"]}}")));
                    }
                }
            }
        }
    }
}

/// E12: byte inputs whose first ill-formed sequence lies 0..4 bytes after a prefix that is (or is
/// about to become) a syntax error: the syntax error strictly before it wins, otherwise the
/// ill-formed sequence is reported (a parser that reads ahead would reverse the two).
fn e12(out: &mut Out, os: &[u32]) {
    let prefixes = [
        "", "n", "nu", "nul", "null", "t", "tr", "tru", "true", "f", "fa", "fal", "fals", "false", "[n", "[nu", "[t", "[fa", "{\"a\":n", "{\"a\":tr",
        "1", "-", "1.", "1e", "[1", "[1,", "\"", "\"a", "\"\\", "\"\\u", "\"\\u1", "\"\\u12", "\"\\ud800", "\"\\ud800\\", "[", "{", "{\"a\"", "{\"a\":", "[]", " ",
    ];
    let mids = ["", "x", "]", ",", " ", "l", "u", "e", "xy", "],", "ul", "  ", "xyz", "ull"];
    let bad: [&[u8]; 4] = [&[0xff], &[0xc3], &[0xed, 0xa0, 0x80], &[0xf4, 0x90, 0x80, 0x80]];
    for p in prefixes {
        for m in mids {
            for (bi, b) in bad.iter().enumerate() {
                if bi > 0 && m.len() > 1 {
                    continue;
                }
                for &o in os {
                    let mut bytes = p.as_bytes().to_vec();
                    bytes.extend_from_slice(m.as_bytes());
                    bytes.extend_from_slice(b);
                    out.case_str(&bytes_case(o, &bytes));
                    bytes.extend_from_slice(b"]");
                    out.case_str(&bytes_case(o, &bytes));
                }
            }
        }
    }
}

/// E13: byte inputs longer than 64 KiB in which a 2-, 3- or 4-byte character (whole, or cut short) lies
/// across byte offset 65536 (thorough: 131072 too) in every alignment; the padding is white space, which
/// the model skips in linear time.
fn e13(out: &mut Out, os: &[u32], full: bool) {
    for block in [65536usize, 131072] {
        if block > 65536 && !full {
            continue;
        }
        for ch in ["\u{e9}", "\u{20ac}", "\u{1f600}"] {
            for k in (block - 4)..=(block + 1) {
                // the character starts at byte k
                let mut doc = vec![b' '; k - 2];
                doc.push(b'[');
                doc.push(b'"');
                doc.extend_from_slice(ch.as_bytes());
                let cut = doc.len() - 1;
                doc.extend_from_slice(b"\", 1]\n");
                for &o in os {
                    out.case_str(&bytes_case(o, &doc));
                }
                // the same with the last byte of the character missing: ill-formed exactly there
                let mut bad = doc.clone();
                bad.remove(cut);
                out.case_str(&bytes_case(0, &bad));
            }
        }
    }
}

/// E14: arrays of 7..20 items (beyond any inline capacity of a traversal stack or item buffer) in which one or two
/// items -- first, second, middle, last but one, last -- are non-empty containers: the order of the fragments after
/// them is where a traversal that treats long arrays specially would differ.
fn e14(out: &mut Out, os: &[u32]) {
    let nested = ["[1,[2]]", "{\"a\":{\"b\":[1]}}", "[[]]", "{\"k\":1,\"k\":[2,3]}"];
    for n in [7usize, 8, 9, 10, 16, 17, 20] {
        for pos in [0usize, 1, n / 2, n - 2, n - 1] {
            for (ni, nd) in nested.iter().enumerate() {
                let one: Vec<String> = (0..n).map(|i| if i == pos { nd.to_string() } else { i.to_string() }).collect();
                let doc = format!("[{}]", one.join(","));
                for &o in os {
                    out.case_str(&text_case(o, &doc));
                }
                if ni < 2 {
                    let two: Vec<String> =
                        (0..n).map(|i| if i == pos || i == (pos + 1) % n { nested[(ni + i) % 4].to_string() } else { "null".to_string() }).collect();
                    out.case_str(&text_case(0, &format!("{{\"w\":[{}],\"z\":0}}", two.join(" , "))));
                    out.case_str(&bytes_case(0, format!("[{}]", two.join(",")).as_bytes()));
                }
            }
        }
    }
}

/// The shared suite.  `os` = option records to exercise.
pub fn suite(args: &Args, out: &mut Out, os: &[u32], weight: usize) {
    let mut rng = Rng::new(args.seed);
    let full = args.thorough();
    // weight 2: the family's main observable; weight 1: lighter run
    let (n1, n2) = match (full, weight) {
        (false, 0) => (3, 2),
        (true, 0) => (4, 3),
        (false, 2) => (5, 3),
        (false, _) => (4, 2),
        (true, 2) => (6, 4),
        (true, _) => (5, 3),
    };
    e1(out, os, n1);
    e2(out, os, n2);
    e3(out, os);
    e4(out, os, full && weight == 2, &mut rng);
    e5(out, os);
    e6(out, os, full);
    surrogate_sequences(out, os);
    let n7 = match (full, weight) {
        (false, 0) => 2000,
        (false, _) => 6000,
        (true, 2) => 200000,
        (true, _) => 60000,
    };
    e7(out, os, n7, &mut rng);
    e8(out, os, full, &mut rng);
    e8b(out, os, full);
    e9(out, os, full && weight == 2);
    e10(out, os, full);
    e11(out, os, full);
    e12(out, os);
    e13(out, os, full);
    e14(out, os);
}

pub fn generate_c01(args: &Args, out: &mut Out) {
    suite(args, out, &[0], 2);
}
/// Documents that only a lenient option record accepts (and strict documents under it): what the value
/// and the code map are does not depend on the property under which the options are described.
fn lenient_extra(args: &Args, out: &mut Out) {
    let mut rng = Rng::new(args.seed ^ 0x1e71e7);
    surrogate_sequences(out, &[1, 2, 3]);
    e7(out, &[1, 2, 3], if args.thorough() { 20000 } else { 1500 }, &mut rng);
    for k in (0..=66usize).step_by(3) {
        let run: String = (0..k).map(|i| (b'a' + (i % 26) as u8) as char).collect();
        for c in ["\\ud83d", "\\ude00", "\\ud83d\\ud83d\\ude00", "\\ude00\\ud83d"] {
            for o in [1u32, 2, 3] {
                out.case(|| text_case(o, &format!("[\"{run}{c}\", \"{c}{run}\"]")));
            }
        }
    }
}
pub fn generate_c02(args: &Args, out: &mut Out) {
    suite(args, out, &[0], 2);
    lenient_extra(args, out);
}
pub fn generate_c05(args: &Args, out: &mut Out) {
    suite(args, out, &[0], 1);
    lenient_extra(args, out);
}
pub fn generate_c07(args: &Args, out: &mut Out) {
    suite(args, out, &[0], 1);
}
pub fn generate_c12(args: &Args, out: &mut Out) {
    suite(args, out, &[0, 1, 2, 3], 1);
}
