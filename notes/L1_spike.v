From Coq Require Import List Lia Arith.
Import ListNotations.

Inductive tok := A | LB | RB | CM.
Inductive value := Leaf | Arr (l:list value).
Inductive res := Ok (v:value) | Err (pos:nat) | Fuel.

(* ---------- machine, as in value.rs ---------- *)
Inductive frame := FArr (a:list value) | FItem (a:list value).
Record cfg := { rest : list tok; pos : nat; stack : list frame; cur : option value }.
Inductive frag := FVal (v:value) | FBegin | FErr.
Definition fragment (s:list tok) : frag * list tok * nat :=   (* result, rest, consumed *)
  match s with
  | A :: r => (FVal Leaf, r, 1)
  | LB :: RB :: r => (FVal (Arr []), r, 2)
  | LB :: r => (FBegin, r, 1)
  | _ => (FErr, s, 0)
  end.
Definition finish (s:list tok) (p:nat) (v:value) : res := match s with [] => Ok v | _ => Err p end.
Definition step (c:cfg) : cfg + res :=
  match stack c with
  | [] =>
      match cur c with
      | Some v => inr (finish (rest c) (pos c) v)
      | None =>
          match fragment (rest c) with
          | (FVal v, r, n) => inr (finish r (pos c + n) v)
          | (FBegin, r, n) => inl {| rest := r; pos := pos c + n; stack := [FItem []]; cur := None |}
          | (FErr, _, _) => inr (Err (pos c))
          end
      end
  | FArr a :: k =>
      match rest c with
      | CM :: r => inl {| rest := r; pos := pos c + 1; stack := FItem a :: k; cur := None |}
      | RB :: r => inl {| rest := r; pos := pos c + 1; stack := k; cur := Some (Arr a) |}
      | _ => inr (Err (pos c))
      end
  | FItem a :: k =>
      match cur c with
      | Some v => inl {| rest := rest c; pos := pos c; stack := FArr (a ++ [v]) :: k; cur := None |}
      | None =>
          match fragment (rest c) with
          | (FVal v, r, n) => inl {| rest := r; pos := pos c + n; stack := FArr (a ++ [v]) :: k; cur := None |}
          | (FBegin, r, n) => inl {| rest := r; pos := pos c + n; stack := FItem [] :: FItem a :: k; cur := None |}
          | (FErr, _, _) => inr (Err (pos c))
          end
      end
  end.
Fixpoint run (fuel:nat) (c:cfg) : res :=
  match fuel with O => Fuel | S f => match step c with inl c' => run f c' | inr r => r end end.
Definition machine (s:list tok) : res := run (2 * length s + 2) {| rest := s; pos := 0; stack := []; cur := None |}.

(* ---------- recursive descent reference ---------- *)
Inductive pres := POk (v:value) (r:list tok) (p:nat) | PErr (p:nat) | PFuel.
Fixpoint pvalue (fuel:nat) (s:list tok) (p:nat) : pres :=
  match fuel with O => PFuel | S f =>
    match fragment s with
    | (FVal v, r, n) => POk v r (p + n)
    | (FErr, _, _) => PErr p
    | (FBegin, r, n) => pitems f f r (p + n) []
    end
  end
with pitems (fuel fuel2:nat) (s:list tok) (p:nat) (acc:list value) : pres :=
  match fuel with O => PFuel | S f =>
    match pvalue f s p with
    | POk v r p' =>
        match r with
        | CM :: r' => pitems f f r' (p' + 1) (acc ++ [v])
        | RB :: r' => POk (Arr (acc ++ [v])) r' (p' + 1)
        | _ => PErr p'
        end
    | e => e
    end
  end.

(* ---------- L1: the machine simulates the recursive parser ---------- *)
Definition mk s p K c := {| rest := s; pos := p; stack := K; cur := c |}.

Lemma run_step_l n c c' : step c = inl c' -> run (S n) c = run n c'.
Proof. intros H; cbn [run]; rewrite H; reflexivity. Qed.
Lemma run_step_r n c r : step c = inr r -> run (S n) c = r.
Proof. intros H; cbn [run]; rewrite H; reflexivity. Qed.

Definition sim_value fuel := forall s p,
  match pvalue fuel s p with
  | POk v r p' => forall a k, exists n, forall m, run (n + m) (mk s p (FItem a :: k) None) = run m (mk r p' (FArr (a ++ [v]) :: k) None)
  | PErr e => forall a k, exists n, forall m, run (n + S m) (mk s p (FItem a :: k) None) = Err e
  | PFuel => True
  end.
Definition sim_items fuel := forall f2 s p acc,
  match pitems fuel f2 s p acc with
  | POk v r p' => forall k, exists n, forall m, run (n + m) (mk s p (FItem acc :: k) None) = run m (mk r p' k (Some v))
  | PErr e => forall k, exists n, forall m, run (n + S m) (mk s p (FItem acc :: k) None) = Err e
  | PFuel => True
  end.

Lemma sim : forall fuel, sim_value fuel /\ sim_items fuel.
Proof.
  induction fuel as [|f [IHv IHi]]; [split; red; intros; exact I|].
  split.
  - (* pvalue *)
    red; intros s p. cbn [pvalue].
    destruct (fragment s) as [[fr r] n] eqn:Ef. destruct fr as [v| |].
    + intros a k. exists 1. intros m. cbn [Nat.add]. apply run_step_l.
      unfold step, mk; cbn [stack cur rest pos]. rewrite Ef. reflexivity.
    + (* FBegin: items, then the FItem a frame absorbs the delivered value *)
      specialize (IHi f r (p + n) []).
      destruct (pitems f f r (p + n) []) as [v r' p'|e|]; [| |exact I].
      * intros a k. destruct (IHi (FItem a :: k)) as [n1 H1]. exists (1 + n1 + 1). intros m.
        replace (1 + n1 + 1 + m) with (S (n1 + S m)) by lia.
        rewrite (run_step_l _ _ (mk r (p + n) (FItem [] :: FItem a :: k) None)).
        2:{ unfold step, mk; cbn [stack cur rest pos]. rewrite Ef. reflexivity. }
        rewrite H1. apply run_step_l. reflexivity.
      * intros a k. destruct (IHi (FItem a :: k)) as [n1 H1]. exists (1 + n1). intros m.
        replace (1 + n1 + S m) with (S (n1 + S m)) by lia.
        rewrite (run_step_l _ _ (mk r (p + n) (FItem [] :: FItem a :: k) None)).
        2:{ unfold step, mk; cbn [stack cur rest pos]. rewrite Ef. reflexivity. }
        apply H1.
    + intros a k. exists 0. intros m. cbn [Nat.add]. apply run_step_r.
      unfold step, mk; cbn [stack cur rest pos]. rewrite Ef. reflexivity.
  - (* pitems *)
    red; intros f2 s p acc. cbn [pitems].
    specialize (IHv s p).
    destruct (pvalue f s p) as [v r p'|e|]; [| |exact I].
    + destruct r as [|t r'].
      * intros k. destruct (IHv acc k) as [n1 H1]. exists n1. intros m. rewrite H1. apply run_step_r. reflexivity.
      * destruct t.
        -- intros k. destruct (IHv acc k) as [n1 H1]. exists n1. intros m. rewrite H1. apply run_step_r. reflexivity.
        -- intros k. destruct (IHv acc k) as [n1 H1]. exists n1. intros m. rewrite H1. apply run_step_r. reflexivity.
        -- (* RB *) intros k. destruct (IHv acc k) as [n1 H1]. exists (n1 + 1). intros m.
           replace (n1 + 1 + m) with (n1 + S m) by lia. rewrite H1. apply run_step_l. reflexivity.
        -- (* CM *) specialize (IHi f r' (p' + 1) (acc ++ [v])).
           destruct (pitems f f r' (p' + 1) (acc ++ [v])) as [v2 r2 p2|e|]; [| |exact I].
           ++ intros k. destruct (IHv acc k) as [n1 H1]. destruct (IHi k) as [n2 H2]. exists (n1 + 1 + n2). intros m.
              replace (n1 + 1 + n2 + m) with (n1 + S (n2 + m)) by lia. rewrite H1.
              rewrite (run_step_l _ _ (mk r' (p' + 1) (FItem (acc ++ [v]) :: k) None)) by reflexivity. apply H2.
           ++ intros k. destruct (IHv acc k) as [n1 H1]. destruct (IHi k) as [n2 H2]. exists (n1 + 1 + n2). intros m.
              replace (n1 + 1 + n2 + S m) with (n1 + S (n2 + S m)) by lia. rewrite H1.
              rewrite (run_step_l _ _ (mk r' (p' + 1) (FItem (acc ++ [v]) :: k) None)) by reflexivity. apply H2.
    + intros k. destruct (IHv acc k) as [n1 H1]. exists n1. exact H1.
Qed.
Print Assumptions sim.
