From Coq Require Import ZArith SpecFloat.
From Flocq Require Import Core BinarySingleNaN.
Open Scope Z_scope.
Definition nd (m:positive) (e10:Z) :=
  if (0 <=? e10) then binary_round 53 1024 mode_NE false (m * Z.to_pos (10^e10)) 0
  else let '(mz,ez,lz) := SFdiv_core_binary 53 1024 (Zpos m) 0 (10^(-e10)) 0 in
       binary_round_aux 53 1024 mode_NE false mz ez lz.
Time Eval vm_compute in nd 414673952822385274921803532 (91-26).
Time Eval vm_compute in nd 100034700632974954988286946 (-66-26).
Time Eval vm_compute in nd 1 (-1).
Time Eval vm_compute in nd 5 (-324).
Time Eval vm_compute in nd 9007199254740993 0.
Time Eval vm_compute in nd 1 400.
