From Coq Require Import ZArith List SpecFloat Lia.
From Flocq Require Import Core BinarySingleNaN.
Import ListNotations.
Open Scope bool_scope.
Open Scope Z_scope.

(* nearest binary64 of  m * 10^e10  (m > 0), as a spec_float *)
Definition nd (m:positive) (e10:Z) : spec_float :=
  if (0 <=? e10) then binary_round 53 1024 mode_NE false (m * Z.to_pos (10^e10)) 0
  else let '(mz,ez,lz) := SFdiv_core_binary 53 1024 (Zpos m) 0 (10^(-e10)) 0 in
       binary_round_aux 53 1024 mode_NE false mz ez lz.

Definition sf_eqb (a b:spec_float) : bool :=
  match a, b with
  | S754_finite s1 m1 e1, S754_finite s2 m2 e2 => Bool.eqb s1 s2 && Pos.eqb m1 m2 && Z.eqb e1 e2
  | S754_zero s1, S754_zero s2 => Bool.eqb s1 s2
  | S754_infinity s1, S754_infinity s2 => Bool.eqb s1 s2
  | _, _ => false
  end.

(* exact comparison of  a*10^ea  with  m*2^e ; returns sign of (a*10^ea - m*2^e) after scaling to integers *)
Definition scale2 (e:Z) := if 0 <=? e then (2^e, 1) else (1, 2^(-e)).
Definition scale10 (e:Z) := if 0 <=? e then (10^e, 1) else (1, 10^(-e)).
(* v = m*2^e = num/den *)
Definition ratio (m e:Z) : Z*Z := let '(n,d) := scale2 e in (m*n, d).

(* n with 10^(n-1) <= num/den < 10^n, found by search from an estimate *)
Fixpoint find_n (fuel:nat) (num den n:Z) : Z :=
  match fuel with
  | O => n
  | S f =>
      let '(pn, pd) := scale10 n in            (* 10^n = pn/pd *)
      let '(qn, qd) := scale10 (n-1) in
      if (num * pd >=? pn * den) then find_n f num den (n+1)        (* v >= 10^n *)
      else if (num * qd <? qn * den) then find_n f num den (n-1)    (* v < 10^(n-1) *)
      else n
  end.

(* distance |s*10^x - num/den| as a rational numerator over common denominator den*pd *)
Definition dist (s x num den:Z) : Z*Z :=
  let '(pn,pd) := scale10 x in (Z.abs (s*pn*den - num*pd), den*pd).
Definition dist_lt (a b:Z*Z) : bool := (fst a * snd b <? fst b * snd a).
Definition dist_eq (a b:Z*Z) : bool := (fst a * snd b =? fst b * snd a).

(* candidates for digit count k: floor and ceil of v / 10^(n-k), renormalised *)
Definition cands (num den n k:Z) : list (Z*Z) :=   (* (s, n') *)
  let x := n - k in
  let '(pn,pd) := scale10 x in
  let fl := (num * pd) / (den * pn) in
  let norm s := if s =? 10^k then (10^(k-1), n+1) else (s, n) in
  [norm fl; norm (fl+1)].

Definition best (d:spec_float) (num den:Z) (k:Z) (cs:list (Z*Z)) : option (Z*Z) :=
  fold_left (fun acc c =>
    let '(s,n') := c in
    if (10^(k-1) <=? s) && (s <? 10^k) && sf_eqb (nd (Z.to_pos s) (n'-k)) d then
      match acc with
      | None => Some c
      | Some (s0,n0) =>
          let d0 := dist s0 (n0-k) num den in let d1 := dist s (n'-k) num den in
          if dist_lt d1 d0 then Some c else if dist_eq d1 d0 && Z.even s then Some c else acc
      end
    else acc) cs None.

Fixpoint search (fuel:nat) (d:spec_float) (num den n k:Z) : option (Z*Z*Z) :=
  match fuel with
  | O => None
  | S f => match best d num den k (cands num den n k) with
           | Some (s,n') => Some (n', k, s)
           | None => search f d num den n (k+1)
           end
  end.

Definition nks (m:positive) (e:Z) : option (Z*Z*Z) :=
  let '(num,den) := ratio (Zpos m) e in
  let n := find_n 700 num den ((Z.log2 num - Z.log2 den) * 30103 / 100000 + 1) in
  search 17 (S754_finite false m e) num den n 1.

(* bits -> (m,e) for positive finite doubles *)
Definition of_bits (b:Z) : positive * Z :=
  let ex := Z.shiftr b 52 mod 2048 in let fr := b mod 2^52 in
  if ex =? 0 then (Z.to_pos fr, -1074) else (Z.to_pos (fr + 2^52), ex - 1075).
Definition norm_sf (me:positive*Z) : spec_float := nd (fst me) 0. (* unused *)

(* nks expects canonical (m,e) as produced by binary_round: use nd to canonicalise *)
Definition canon (me:positive*Z) : positive*Z :=
  match binary_round 53 1024 mode_NE false (fst me) (snd me) with
  | S754_finite _ m e => (m,e) | _ => me end.
Definition run (b:Z) := let '(m,e) := canon (of_bits b) in nks m e.

Time Eval vm_compute in map run
  [0x0000000000000001; 0x7fefffffffffffff; 0x4340000000000000; 0x4430000000000000;
   0x44b52d02c7e14af5; 0x44b52d02c7e14af6; 0x444b1ae4d6e2ef4e; 0x444b1ae4d6e2ef4f; 0x444b1ae4d6e2ef50;
   0x3eb0c6f7a0b5ed8c; 0x3eb0c6f7a0b5ed8d; 0x41b3de4355555553; 0x41b3de4355555554; 0x41b3de4355555555;
   0x41b3de4355555556; 0x41b3de4355555557; 0x3FF0000000000000; 0x3FB999999999999A; 0x44B52D02C7E14AF6;
   0x54B249AD2594C37D (* 1e100 *); 0x4202A05F20000000].
