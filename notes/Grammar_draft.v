From Coq Require Import List NArith Lia Bool.
Import ListNotations.
Open Scope N_scope.

(* ---------- values ---------- *)
Inductive value :=
| VNull | VBool (b:bool) | VNum (s:list N) | VStr (s:list N)
| VArr (l:list value) | VObj (l:list (list N * value)).

(* ---------- source items and code-map entries ---------- *)
Definition item := (N * N)%type.                       (* code point, source byte length *)
Definition cps (t:list item) : list N := map fst t.
Definition blen (t:list item) : N := fold_right (fun i a => snd i + a) 0 t.
Definition cme := (N * N * N)%type.                    (* start, end, volume *)
Definition shift (d:N) (cm:list cme) : list cme :=
  map (fun e => match e with (a,b,v) => (a+d, b+d, v) end) cm.
Definition vol (cm:list cme) : N := N.of_nat (length cm).

Record opts := { trunc : bool; inval : bool }.
Definition strict := {| trunc := false; inval := false |}.

(* ---------- characters ---------- *)
Definition is_ws (c:N) := (c =? 0x20) || (c =? 0x09) || (c =? 0x0A) || (c =? 0x0D).
Definition ws (t:list item) : Prop := Forall (fun i => is_ws (fst i) = true) t.
Definition digit (c:N) := (0x30 <=? c) && (c <=? 0x39).
Definition onenine (c:N) := (0x31 <=? c) && (c <=? 0x39).
Definition hexval (c:N) : option N :=
  if digit c then Some (c - 0x30)
  else if (0x41 <=? c) && (c <=? 0x46) then Some (c - 0x41 + 10)
  else if (0x61 <=? c) && (c <=? 0x66) then Some (c - 0x61 + 10)
  else None.
Definition unescaped (c:N) := (0x20 <=? c) && negb (c =? 0x22) && negb (c =? 0x5C) && (c <=? 0x10FFFF).

(* ---------- numbers: RFC 8259 section 6 ---------- *)
Definition digits1 (d:list N) : Prop := d <> [] /\ Forall (fun c => digit c = true) d.
Definition jint (i:list N) : Prop :=
  i = [0x30] \/ exists d ds, onenine d = true /\ Forall (fun c => digit c = true) ds /\ i = d :: ds.
Definition jfrac (f:list N) : Prop := f = [] \/ exists ds, digits1 ds /\ f = 0x2E :: ds.
Definition jexp (e:list N) : Prop :=
  e = [] \/ exists E s ds, (E = 0x65 \/ E = 0x45) /\ (s = [] \/ s = [0x2B] \/ s = [0x2D]) /\
                           digits1 ds /\ e = E :: s ++ ds.
Definition jnum (n:list N) : Prop :=
  exists m i f e, (m = [] \/ m = [0x2D]) /\ jint i /\ jfrac f /\ jexp e /\ n = m ++ i ++ f ++ e.

(* ---------- strings: RFC 8259 section 7 ---------- *)
Inductive selem := Raw (c:N) | Esc (c:N) | U16 (u:N).
Definition esc_table : list (N * N) :=
  [(0x22,0x22); (0x5C,0x5C); (0x2F,0x2F); (0x62,0x08); (0x66,0x0C); (0x6E,0x0A); (0x72,0x0D); (0x74,0x09)].
Inductive elem_src : list N -> selem -> Prop :=
| es_raw c : unescaped c = true -> elem_src [c] (Raw c)
| es_esc l d : In (l,d) esc_table -> elem_src [0x5C; l] (Esc d)
| es_u h3 h2 h1 h0 d3 d2 d1 d0 :
    hexval h3 = Some d3 -> hexval h2 = Some d2 -> hexval h1 = Some d1 -> hexval h0 = Some d0 ->
    elem_src [0x5C; 0x75; h3; h2; h1; h0] (U16 (d3*4096 + d2*256 + d1*16 + d0)).
Definition is_high (u:N) := (0xD800 <=? u) && (u <=? 0xDBFF).
Definition is_low  (u:N) := (0xDC00 <=? u) && (u <=? 0xDFFF).
Fixpoint decode (o:opts) (l:list selem) : option (list N) :=
  let cons c r := match r with Some s => Some (c :: s) | None => None end in
  match l with
  | [] => Some []
  | Raw c :: r => cons c (decode o r)
  | Esc c :: r => cons c (decode o r)
  | U16 u :: r =>
      if is_high u then
        match r with
        | U16 l :: r' =>
            if is_low l then cons (0x10000 + (u - 0xD800) * 0x400 + (l - 0xDC00)) (decode o r')
            else if trunc o then cons 0xFFFD (decode o r) else None
        | _ => if trunc o then cons 0xFFFD (decode o r) else None
        end
      else if is_low u then (if inval o then cons 0xFFFD (decode o r) else None)
      else cons u (decode o r)
  end.
Definition jstr (o:opts) (t:list N) (s:list N) : Prop :=
  exists srcs els, Forall2 elem_src srcs els /\ t = 0x22 :: concat srcs ++ [0x22] /\ decode o els = Some s.

(* ---------- values, with denotation and code map ---------- *)
Definition ch (c:N) : item := (c, 1).
Inductive jv (o:opts) : list item -> value -> list cme -> Prop :=
| jv_null t : cps t = [0x6E;0x75;0x6C;0x6C] -> jv o t VNull [(0, blen t, 1)]
| jv_true t : cps t = [0x74;0x72;0x75;0x65] -> jv o t (VBool true) [(0, blen t, 1)]
| jv_false t : cps t = [0x66;0x61;0x6C;0x73;0x65] -> jv o t (VBool false) [(0, blen t, 1)]
| jv_num t : jnum (cps t) -> jv o t (VNum (cps t)) [(0, blen t, 1)]
| jv_str t s : jstr o (cps t) s -> jv o t (VStr s) [(0, blen t, 1)]
| jv_arr0 lb w rb : fst lb = 0x5B -> fst rb = 0x5D -> ws w ->
    jv o (lb :: w ++ [rb]) (VArr []) [(0, blen (lb :: w ++ [rb]), 1)]
| jv_arr lb t rb vs cm : fst lb = 0x5B -> fst rb = 0x5D -> jitems o t vs cm ->
    jv o (lb :: t ++ [rb]) (VArr vs) ((0, blen (lb :: t ++ [rb]), 1 + vol cm) :: shift (snd lb) cm)
| jv_obj0 lb w rb : fst lb = 0x7B -> fst rb = 0x7D -> ws w ->
    jv o (lb :: w ++ [rb]) (VObj []) [(0, blen (lb :: w ++ [rb]), 1)]
| jv_obj lb t rb es cm : fst lb = 0x7B -> fst rb = 0x7D -> jmembers o t es cm ->
    jv o (lb :: t ++ [rb]) (VObj es) ((0, blen (lb :: t ++ [rb]), 1 + vol cm) :: shift (snd lb) cm)
with jitems (o:opts) : list item -> list value -> list cme -> Prop :=
| ji_one w1 t w2 v cm : ws w1 -> ws w2 -> jv o t v cm ->
    jitems o (w1 ++ t ++ w2) [v] (shift (blen w1) cm)
| ji_cons w1 t w2 comma r v cm vs cms : ws w1 -> ws w2 -> fst comma = 0x2C -> jv o t v cm -> jitems o r vs cms ->
    jitems o (w1 ++ t ++ w2 ++ comma :: r) (v :: vs)
           (shift (blen w1) cm ++ shift (blen (w1 ++ t ++ w2) + snd comma) cms)
with jmembers (o:opts) : list item -> list (list N * value) -> list cme -> Prop :=
| jm_one pre e post k v cm : ws pre -> ws post -> jentry o e k v cm ->
    jmembers o (pre ++ e ++ post) [(k,v)] (shift (blen pre) cm)
| jm_cons pre e post comma r k v cm es cms : ws pre -> ws post -> fst comma = 0x2C -> jentry o e k v cm -> jmembers o r es cms ->
    jmembers o (pre ++ e ++ post ++ comma :: r) ((k,v) :: es)
             (shift (blen pre) cm ++ shift (blen (pre ++ e ++ post) + snd comma) cms)
with jentry (o:opts) : list item -> list N -> value -> list cme -> Prop :=
| je kt w1 colon w2 vt k v cm : jstr o (cps kt) k -> ws w1 -> ws w2 -> fst colon = 0x3A -> jv o vt v cm ->
    jentry o (kt ++ w1 ++ colon :: w2 ++ vt) k v
           ((0, blen (kt ++ w1 ++ colon :: w2 ++ vt), 2 + vol cm) :: (0, blen kt, 1)
              :: shift (blen (kt ++ w1) + snd colon + blen w2) cm).

Definition jtext (o:opts) (s:list item) (v:value) (cm:list cme) : Prop :=
  exists pre mid post cm0, s = pre ++ mid ++ post /\ ws pre /\ ws post /\ jv o mid v cm0 /\ cm = shift (blen pre) cm0.

(* sanity: code map of   { "a": 0 }  preceded by one space *)
Definition str (l:list N) : list item := map ch l.
Lemma jv_eq o t v cm cm' : jv o t v cm' -> cm' = cm -> jv o t v cm.
Proof. intros H E; subst; exact H. Qed.
Lemma jm_eq o t v cm cm' : jmembers o t v cm' -> cm' = cm -> jmembers o t v cm.
Proof. intros H E; subst; exact H. Qed.
Lemma je_eq o t k v cm cm' : jentry o t k v cm' -> cm' = cm -> jentry o t k v cm.
Proof. intros H E; subst; exact H. Qed.
Ltac wsok := repeat constructor.
Ltac wsgoal := match goal with |- ws _ => repeat constructor end.
Example ex1 : jtext strict (str [0x20;0x7B;0x20;0x22;0x61;0x22;0x3A;0x20;0x30;0x20;0x7D])
                 (VObj [([0x61], VNum [0x30])]) [(1,11,4);(3,9,3);(3,6,1);(8,9,1)].
Proof.
  exists (str [0x20]), (str [0x7B;0x20;0x22;0x61;0x22;0x3A;0x20;0x30;0x20;0x7D]), [], [(0,10,4);(2,8,3);(2,5,1);(7,8,1)].
  split; [reflexivity|]. split; [wsgoal|]. split; [wsgoal|]. split; [|reflexivity].
  eapply jv_eq.
  { apply (jv_obj strict (ch 0x7B) (str [0x20;0x22;0x61;0x22;0x3A;0x20;0x30;0x20]) (ch 0x7D)); [reflexivity|reflexivity|].
    eapply jm_eq.
    { apply (jm_one strict (str [0x20]) (str [0x22;0x61;0x22;0x3A;0x20;0x30]) (str [0x20])); [wsgoal|wsgoal|].
      eapply je_eq.
      { apply (je strict (str [0x22;0x61;0x22]) [] (ch 0x3A) (str [0x20]) (str [0x30])); [|wsgoal|wsgoal|reflexivity|].
        - exists [[0x61]], [Raw 0x61]. split; [repeat constructor|]. split; reflexivity.
        - apply (jv_num strict (str [0x30])). exists [], [0x30], [], [].
          split; [left; reflexivity|]. split; [left; reflexivity|]. split; [left; reflexivity|]. split; [left; reflexivity|reflexivity]. }
      reflexivity. }
    reflexivity. }
  vm_compute. reflexivity.
Qed.
Print Assumptions ex1.
