(* Spec/PermEq.v -- equality up to permutation of object entries at any depth.
   Arrays stay ordered, scalars must be equal, entries are matched one-to-one
   (a permutation), so multiplicities of duplicate keys count. *)
From JsonSyntax Require Import Base.Prelude Base.Value.
From Coq Require Import Sorting.Permutation.

Inductive PermEq : value -> value -> Prop :=
| pe_null : PermEq VNull VNull
| pe_bool b : PermEq (VBool b) (VBool b)
| pe_num s : PermEq (VNum s) (VNum s)
| pe_str s : PermEq (VStr s) (VStr s)
| pe_arr x y : Forall2 PermEq x y -> PermEq (VArr x) (VArr y)
| pe_obj x y y' :
    Permutation y y' ->
    Forall2 (fun e e' => fst e = fst e' /\ PermEq (snd e) (snd e')) x y' ->
    PermEq (VObj x) (VObj y).
