(* Spec/SerdeShape32.v -- C16: the JSON shape "at binary32 precision".

   A datum with f32 leaves is rendered differently by json-syntax (the shortest digits that
   read back as the f32) and by serde_json (the f32 widened to f64, exactly): 0.1f32 is the
   number 0.1 for the former and 0.10000000149011612 for the latter.  As numbers they differ;
   they agree once each is rounded to the nearest binary32.  [shape32] / [shape32_sj] are
   [shape_of] / [shape_of_sj] with every number replaced by the binary32 nearest (ties to
   even) to the real it denotes:
     * a json-syntax number is a decimal spelling; its binary32 is [sgl] of the spelling
       (std's correctly rounded str::parse::<f32>, Proofs/Float32Proofs.nearest_single_correct);
     * a serde_json number is an integer or a double; its binary32 is the `as f32` cast.
   Everything else (structure, strings, booleans, object members up to order) is as in the
   exact shape.  Definitions only; executable. *)
From Coq Require Import SpecFloat.
From JsonSyntax Require Import Base.Prelude Base.Value Base.Float64 Spec.SerdeTyped Model.Serde.
Local Open Scope Z_scope.

(* the shape of a value / of a serde_json value for a given reading of numbers *)
Section ShapeWith.
  Variable nk : list N -> nkey.
  Variable sk : tsjnum -> nkey.

  Fixpoint shape_with (v : value) : shape :=
    match v with
    | VNull => ShNull
    | VBool b => ShBool b
    | VNum n => ShNumber (nk n)
    | VStr s => ShString s
    | VArr l => ShArray (map shape_with l)
    | VObj l => ShObject (isort (map (fun e : key * value => (fst e, shape_with (snd e))) l))
    end.

  Fixpoint shape_sj_with (j : tsj) : shape :=
    match j with
    | TjNull => ShNull
    | TjBool b => ShBool b
    | TjNum n => ShNumber (sk n)
    | TjStr s => ShString s
    | TjArr l => ShArray (map shape_sj_with l)
    | TjObj l => ShObject (map (fun e : str * tsj => (fst e, shape_sj_with (snd e))) l)
    end.
End ShapeWith.

(* the binary32 nearest to the real a number denotes *)
Definition num32 (n : list N) : spec_float := sgl n.
Definition sjnum32 (q : tsjnum) : spec_float :=
  match q with
  | SJPos z | SJNeg z => round32 (sf_of_Z z)
  | SJFloat b => round32 (sf_of_bits b)
  end.

(* a binary32 as a number: the integer it denotes, else its (widened) bit pattern; -0 = 0 *)
Definition key_of_sf32 (x : spec_float) : nkey := key32 (sf32_bits x).

Definition shape32 : value -> shape := shape_with (fun n => key_of_sf32 (num32 n)).
Definition shape32_sj : tsj -> shape := shape_sj_with (fun q => key_of_sf32 (sjnum32 q)).

(* ---- the f64 leaves of a datum ----
   Rounding to binary32 is coarser than an f64 leaf: json-syntax spells an f64 with the
   shortest digits that read back as that DOUBLE, and the binary32 nearest to that decimal
   need not be the binary32 nearest to the double itself (when a binary32 rounding boundary
   lies between the two: the double 0x3ab5c87fb0000000, spelt 7.038531e-26, is exactly
   half-way between two binary32 values).  The binary32 shape clause therefore speaks about
   data whose f64 leaves are not separated from their spelling by such a boundary. *)
Fixpoint f64_leaves (d : tsd) : list Z :=
  match d with
  | SdF64 b => [b]
  | SdSome x | SdNewtypeStruct _ x | SdNewtypeVariant _ _ x => f64_leaves x
  | SdSeq l | SdTuple l | SdTupleStruct _ l | SdTupleVariant _ _ l => flat_map f64_leaves l
  | SdMap l => flat_map (fun kv => f64_leaves (fst kv) ++ f64_leaves (snd kv)) l
  | SdStruct _ l | SdStructVariant _ _ l => flat_map (fun fx => f64_leaves (snd fx)) l
  | _ => []
  end.

(* the spelling printed for the double [b] and [b] itself have the same nearest binary32 *)
Definition f64_agrees32 (fmt_f64 : Z -> list N) (b : Z) : bool :=
  nkey_eqb (key_of_sf32 (num32 (fmt_f64 b))) (key_of_sf32 (sjnum32 (SJFloat b))).

Definition f64_leaves_agree32 (fmt_f64 : Z -> list N) (d : tsd) : bool :=
  forallb (f64_agrees32 fmt_f64) (f64_leaves d).

Definition no_f64 (d : tsd) : bool := match f64_leaves d with [] => true | _ => false end.
