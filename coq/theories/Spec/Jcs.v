(* Spec/Jcs.v -- RFC 8785 (JSON Canonicalization Scheme) as a reference serializer:
   members sorted by key compared as UTF-16 code unit sequences, numbers in ECMAScript
   shortest round-trip form of the nearest double, minimal string escaping, no white space.
   [None] when a number is not representable (outside I-JSON). *)
From JsonSyntax Require Import Base.Prelude Base.Value Base.Unicode Spec.Minimal Spec.EcmaNumber.

Fixpoint u16_lt (a b : list N) : bool :=           (* strict lexicographic order on code units *)
  match a, b with
  | _, [] => false
  | [], _ :: _ => true
  | x :: a', y :: b' => (x <? y) || ((x =? y) && u16_lt a' b')
  end.
Definition key_lt (a b : list N) : bool := u16_lt (utf16_units a) (utf16_units b).

(* insertion into a list of (key, text) sorted by key *)
Fixpoint ins_member (m : list N * list N) (l : list (list N * list N)) : list (list N * list N) :=
  match l with
  | [] => [m]
  | x :: r => if key_lt (fst x) (fst m) then x :: ins_member m r else m :: l
  end.
Definition sort_members (l : list (list N * list N)) : list (list N * list N) :=
  fold_right ins_member [] l.

Fixpoint all_some {A} (l : list (option A)) : option (list A) :=
  match l with
  | [] => Some []
  | Some x :: r => option_map (cons x) (all_some r)
  | None :: _ => None
  end.

Fixpoint jcs (v : value) : option (list N) :=
  match v with
  | VNull => Some (s2l "null")
  | VBool true => Some (s2l "true")
  | VBool false => Some (s2l "false")
  | VNum n => canon_number n
  | VStr s => Some (quote s)
  | VArr l =>
      match all_some (map jcs l) with
      | Some ts => Some ([0x5B] ++ join [0x2C] ts ++ [0x5D])
      | None => None
      end
  | VObj es =>
      match all_some (map (fun e : list N * value => option_map (fun t => (fst e, t)) (jcs (snd e))) es) with
      | Some ms =>
          Some ([0x7B] ++ join [0x2C] (map (fun m => quote (fst m) ++ [0x3A] ++ snd m) (sort_members ms)) ++ [0x7D])
      | None => None
      end
  end.

(* I-JSON: no duplicate keys within an object (numbers in range = jcs returns Some) *)
Fixpoint nodup_keys (v : value) : Prop :=
  match v with
  | VArr l => (fix go l := match l with [] => True | x :: r => nodup_keys x /\ go r end) l
  | VObj es => NoDup (map fst es) /\
               (fix go (l : list (list N * value)) := match l with [] => True | e :: r => nodup_keys (snd e) /\ go r end) es
  | _ => True
  end.
