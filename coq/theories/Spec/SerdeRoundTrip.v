(* Spec/SerdeRoundTrip.v -- what C17 and C18 demand, stated without the code:
   - serialising reproduces the value, except that the integer spelling "-0" may lose its
     sign, and duplicate keys collapse to the first position holding the last value;
   - deserialising / converting preserves the structure, strings and keys, and every number
     keeps denoting the same integer (when it is a 64-bit integer) or else the same double;
   - the serde_json detour may also reorder object entries (sorted by key).
   Also the classes of inputs on which the tree is known to deviate (K3, K4) as boolean
   predicates.  Executable; no proofs. *)
From Coq Require Import SpecFloat.
From JsonSyntax Require Import Base.Prelude Base.Value Base.Float64 Model.Compare
  Spec.NumSpelling Spec.SerdeData Spec.SerdeJsonValue.

(* ---------------------------------------------------------------- numbers *)
(* b denotes the same number as a: the same integer when a is a 64-bit integer, else the
   same double (compared as bit patterns: -0.0 and +0.0 differ) *)
Definition num_pres (a b : list N) : bool :=
  match int64_val a with
  | Some z => match int64_val b with Some z' => (z =? z')%Z | None => false end
  | None => sf_eqb (dbl a) (dbl b)
  end.

(* "-0" is the one integer spelling whose sign the i64 view cannot carry *)
Definition neg_zero_num (n : list N) : list N :=
  match n with
  | [0x2D; 0x30] => [0x30]
  | _ => n
  end.

Fixpoint neg_zero_norm (v : value) : value :=
  match v with
  | VNum n => VNum (neg_zero_num n)
  | VArr l => VArr (map neg_zero_norm l)
  | VObj es => VObj (map (fun e : list N * value => (fst e, neg_zero_norm (snd e))) es)
  | other => other
  end.

(* ---------------------------------------------------------------- duplicates *)
Definition key_eqb (a b : list N) : bool := str_eqb a b.

(* keys in order of first occurrence *)
Fixpoint first_keys (ks : list (list N)) : list (list N) :=
  match ks with
  | [] => []
  | k :: r => k :: filter (fun k' => negb (key_eqb k' k)) (first_keys r)
  end.

(* the value of the last entry carrying key k *)
Fixpoint last_value {A} (k : list N) (es : list (list N * A)) : option A :=
  match es with
  | [] => None
  | (k', x) :: r =>
      match last_value k r with
      | Some y => Some y
      | None => if key_eqb k' k then Some x else None
      end
  end.

(* first position, last value *)
Definition collapse_entries {A} (es : list (list N * A)) : list (list N * A) :=
  flat_map (fun k => match last_value k es with Some x => [(k, x)] | None => [] end)
           (first_keys (map fst es)).

(* what serialising a value must produce *)
Fixpoint ser_spec (v : value) : value :=
  match v with
  | VNum n => VNum (neg_zero_num n)
  | VArr l => VArr (map ser_spec l)
  | VObj es => VObj (collapse_entries (map (fun e : list N * value => (fst e, ser_spec (snd e))) es))
  | other => other
  end.

(* duplicates collapsed, numbers untouched: the structure a deserialised value must have *)
Fixpoint collapse (v : value) : value :=
  match v with
  | VArr l => VArr (map collapse l)
  | VObj es => VObj (collapse_entries (map (fun e : list N * value => (fst e, collapse (snd e))) es))
  | other => other
  end.

Fixpoint nodupb (ks : list (list N)) : bool :=
  match ks with
  | [] => true
  | k :: r => negb (existsb (key_eqb k) r) && nodupb r
  end.

Fixpoint nodup_keysb (v : value) : bool :=
  match v with
  | VArr l => forallb nodup_keysb l
  | VObj es => nodupb (map fst es) && forallb (fun e : list N * value => nodup_keysb (snd e)) es
  | _ => true
  end.

(* ---------------------------------------------------------------- same structure *)
(* same constructors, booleans, strings, keys in the same order; numbers related by num_pres *)
Fixpoint vrelb (a b : value) : bool :=
  match a, b with
  | VNull, VNull => true
  | VBool x, VBool y => Bool.eqb x y
  | VNum x, VNum y => num_pres x y
  | VStr x, VStr y => str_eqb x y
  | VArr x, VArr y =>
      (fix go (x y : list value) : bool :=
         match x, y with
         | [], [] => true
         | p :: x', q :: y' => vrelb p q && go x' y'
         | _, _ => false
         end) x y
  | VObj x, VObj y =>
      (fix go (x y : list (list N * value)) : bool :=
         match x, y with
         | [], [] => true
         | (k, p) :: x', (k', q) :: y' => str_eqb k k' && vrelb p q && go x' y'
         | _, _ => false
         end) x y
  | _, _ => false
  end.

(* C17, deserialisation: w has the structure of v (duplicates collapsed) and its numbers
   denote the same integers / doubles *)
Definition de_ok (v w : value) : bool := vrelb (collapse v) w.

(* ---------------------------------------------------------------- entry order *)
Fixpoint ins_by_key {A} (e : list N * A) (l : list (list N * A)) : list (list N * A) :=
  match l with
  | [] => [e]
  | x :: r => match str_cmp (fst e) (fst x) with
              | Gt => x :: ins_by_key e r
              | _ => e :: l
              end
  end.
Definition sort_by_key {A} (l : list (list N * A)) : list (list N * A) :=
  fold_left (fun acc e => ins_by_key e acc) l [].

(* every object's entries sorted by key (a permutation of them), recursively *)
Fixpoint key_sorted (v : value) : value :=
  match v with
  | VArr l => VArr (map key_sorted l)
  | VObj es => VObj (sort_by_key (map (fun e : list N * value => (fst e, key_sorted (snd e))) es))
  | other => other
  end.

(* C18, json-syntax -> serde_json -> json-syntax: equal up to entry order and spelling *)
Definition detour_ok (v w : value) : bool := vrelb (key_sorted v) w.

(* numbers are 64-bit integers or (read as) finite doubles *)
Definition num64 (n : list N) : bool := is_int64 n || sf_is_finite (dbl n).

Section Forall_numbers.
  Variable p : list N -> bool.
  (* p holds of every number of the value *)
  Fixpoint all_nums (v : value) : bool :=
    match v with
    | VNum n => p n
    | VArr l => forallb all_nums l
    | VObj es => forallb (fun e : list N * value => all_nums (snd e)) es
    | _ => true
    end.
End Forall_numbers.
Definition some_num (p : list N -> bool) (v : value) : bool := negb (all_nums (fun n => negb (p n)) v).

Definition wf_nums (v : value) : bool := all_nums valid_number v.
Definition nums64 (v : value) : bool := all_nums num64 v.

(* ---------------------------------------------------------------- known classes *)
(* K3: not a 64-bit integer and the nearest double is infinite *)
Definition K3num (n : list N) : bool := negb (is_int64 n) && negb (sf_is_finite (dbl n)).
Definition K3 (v : value) : bool := some_num K3num v.

(* K4: an object (at any depth) whose FIRST key is serde_json's private number token *)
Fixpoint K4 (v : value) : bool :=
  match v with
  | VArr l => existsb K4 l
  | VObj es =>
      match es with
      | (k, _) :: _ => str_eqb k number_token
      | [] => false
      end || existsb (fun e : list N * value => K4 (snd e)) es
  | _ => false
  end.

Fixpoint sj_eqb (a b : sj) : bool :=
  match a, b with
  | JNull, JNull => true
  | JBool x, JBool y => Bool.eqb x y
  | JNum x, JNum y => sjnum_eqb x y
  | JStr x, JStr y => str_eqb x y
  | JArr x, JArr y =>
      (fix go (x y : list sj) : bool :=
         match x, y with
         | [], [] => true
         | p :: x', q :: y' => sj_eqb p q && go x' y'
         | _, _ => false
         end) x y
  | JObj x, JObj y =>
      (fix go (x y : list (list N * sj)) : bool :=
         match x, y with
         | [], [] => true
         | (k, p) :: x', (k', q) :: y' => str_eqb k k' && sj_eqb p q && go x' y'
         | _, _ => false
         end) x y
  | _, _ => false
  end.
