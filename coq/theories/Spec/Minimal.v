(* Spec/Minimal.v -- the reference minimal serializer (RFC 8785 string escaping,
   no white space, ',' and ':' separators, numbers verbatim). *)
From JsonSyntax Require Import Base.Prelude Base.Value.

Definition hexd (d : N) : N := nth (N.to_nat d) (s2l "0123456789abcdef") 0x3F.

(* RFC 8785 section 3.2.2.2 *)
Definition esc_min (c : N) : list N :=
  if c =? 8 then s2l "\b" else if c =? 9 then s2l "\t" else if c =? 10 then s2l "\n"
  else if c =? 12 then s2l "\f" else if c =? 13 then s2l "\r"
  else if c =? 34 then [0x5C; 0x22] else if c =? 92 then [0x5C; 0x5C]
  else if c <? 0x20 then s2l "\u00" ++ [hexd (c / 16); hexd (c mod 16)] else [c].

Definition quote (s : list N) : list N := [0x22] ++ flat_map esc_min s ++ [0x22].

Fixpoint join (sep : list N) (l : list (list N)) : list N :=
  match l with
  | [] => []
  | [x] => x
  | x :: r => x ++ sep ++ join sep r
  end.

Fixpoint ser_min (v : value) : list N :=
  match v with
  | VNull => s2l "null"
  | VBool true => s2l "true"
  | VBool false => s2l "false"
  | VNum n => n
  | VStr s => quote s
  | VArr l => [0x5B] ++ join [0x2C] (map ser_min l) ++ [0x5D]
  | VObj l => [0x7B] ++ join [0x2C] (map (fun e => quote (fst e) ++ [0x3A] ++ ser_min (snd e)) l) ++ [0x7D]
  end.
