(* Spec/NumSpelling.v -- number spellings as the serde / serde_json bridges look at them:
   json-number's validator (Number::new), the integer views as_u64 / as_i64
   (<u64|i64 as FromStr>::from_str on the spelling), decimal printing of 64-bit integers
   (lexical::to_string / itoa), has_decimal_point, and the nearest binary64 of a spelling
   (what a correctly rounded decimal -> double conversion such as str::parse::<f64>
   returns).  Definitions only; executable.
   Decimal printing/reading goes through the standard library's Decimal.uint so that the
   round-trip lemmas of DecimalN can be reused. *)
From Coq Require Import Decimal DecimalN SpecFloat.
From JsonSyntax Require Import Base.Prelude Base.Float64 Spec.EcmaNumber.

(* ---- decimal digits <-> code points ---- *)
Fixpoint uint_cps (u : Decimal.uint) : list N :=
  match u with
  | Decimal.Nil => []
  | Decimal.D0 r => 0x30 :: uint_cps r
  | Decimal.D1 r => 0x31 :: uint_cps r
  | Decimal.D2 r => 0x32 :: uint_cps r
  | Decimal.D3 r => 0x33 :: uint_cps r
  | Decimal.D4 r => 0x34 :: uint_cps r
  | Decimal.D5 r => 0x35 :: uint_cps r
  | Decimal.D6 r => 0x36 :: uint_cps r
  | Decimal.D7 r => 0x37 :: uint_cps r
  | Decimal.D8 r => 0x38 :: uint_cps r
  | Decimal.D9 r => 0x39 :: uint_cps r
  end.

Definition digit_cons (c : N) : option (Decimal.uint -> Decimal.uint) :=
  match c with
  | 0x30 => Some Decimal.D0 | 0x31 => Some Decimal.D1 | 0x32 => Some Decimal.D2
  | 0x33 => Some Decimal.D3 | 0x34 => Some Decimal.D4 | 0x35 => Some Decimal.D5
  | 0x36 => Some Decimal.D6 | 0x37 => Some Decimal.D7 | 0x38 => Some Decimal.D8
  | 0x39 => Some Decimal.D9
  | _ => None
  end.

Fixpoint cps_uint (l : list N) : option Decimal.uint :=
  match l with
  | [] => Some Decimal.Nil
  | c :: r =>
      match digit_cons c, cps_uint r with
      | Some f, Some u => Some (f u)
      | _, _ => None
      end
  end.

(* lexical::to_string(u64) / itoa *)
Definition fmt_nat (n : N) : list N := uint_cps (N.to_uint n).
(* lexical::to_string(i64) / itoa *)
Definition fmt_int (z : Z) : list N :=
  match z with
  | Zneg p => 0x2D :: fmt_nat (Npos p)
  | _ => fmt_nat (Z.to_N z)
  end.

(* one or more ASCII digits (leading zeros allowed, as from_str allows them) *)
Definition parse_nat (l : list N) : option N :=
  match l with
  | [] => None
  | _ => option_map N.of_uint (cps_uint l)
  end.

(* Number::as_u64 = self.as_str().parse::<u64>().ok().  (from_str also admits a leading
   '+', which no valid JSON number has.) *)
Definition parse_u64 (l : list N) : option Z :=
  match parse_nat l with
  | Some n => if n <? 18446744073709551616 then Some (Z.of_N n) else None
  | None => None
  end.

(* Number::as_i64 = self.as_str().parse::<i64>().ok() *)
Definition parse_i64 (l : list N) : option Z :=
  match l with
  | 0x2D :: r =>
      match parse_nat r with
      | Some n => if n <=? 9223372036854775808 then Some (- Z.of_N n)%Z else None
      | None => None
      end
  | _ =>
      match parse_nat l with
      | Some n => if n <? 9223372036854775808 then Some (Z.of_N n) else None
      | None => None
      end
  end.

(* the integer a spelling denotes when it is a 64-bit integer (i64 or u64) *)
Definition int64_val (l : list N) : option Z :=
  match parse_i64 l with
  | Some z => Some z
  | None => parse_u64 l
  end.
Definition is_int64 (l : list N) : bool :=
  match int64_val l with Some _ => true | None => false end.

(* ---- json_number::Number::new: the validating automaton (lib.rs:123-198) ---- *)
Inductive nstate :=
| NInit | NFirstDigit | NZero | NNonZero | NFracFirst | NFracRest | NExpSign | NExpFirst | NExpRest.

Definition is_digit (c : N) : bool := (0x30 <=? c) && (c <=? 0x39).
Definition is_onenine (c : N) : bool := (0x31 <=? c) && (c <=? 0x39).
Definition is_e (c : N) : bool := (c =? 0x65) || (c =? 0x45).

Definition nstep (s : nstate) (c : N) : option nstate :=
  match s with
  | NInit =>
      if c =? 0x2D then Some NFirstDigit
      else if c =? 0x30 then Some NZero
      else if is_onenine c then Some NNonZero else None
  | NFirstDigit =>
      if c =? 0x30 then Some NZero
      else if is_onenine c then Some NNonZero else None
  | NZero =>
      if c =? 0x2E then Some NFracFirst
      else if is_e c then Some NExpSign else None
  | NNonZero =>
      if is_digit c then Some NNonZero
      else if c =? 0x2E then Some NFracFirst
      else if is_e c then Some NExpSign else None
  | NFracFirst => if is_digit c then Some NFracRest else None
  | NFracRest =>
      if is_digit c then Some NFracRest
      else if is_e c then Some NExpSign else None
  | NExpSign =>
      if (c =? 0x2B) || (c =? 0x2D) then Some NExpFirst
      else if is_digit c then Some NExpRest else None
  | NExpFirst => if is_digit c then Some NExpRest else None
  | NExpRest => if is_digit c then Some NExpRest else None
  end.

Fixpoint nrun (s : nstate) (l : list N) : option nstate :=
  match l with
  | [] => Some s
  | c :: r => match nstep s c with Some s' => nrun s' r | None => None end
  end.

Definition naccept (s : nstate) : bool :=
  match s with NZero | NNonZero | NFracRest | NExpRest => true | _ => false end.

Definition valid_number (l : list N) : bool :=
  match nrun NInit l with Some s => naccept s | None => false end.

(* Number::has_decimal_point *)
Definition has_decimal_point (l : list N) : bool := existsb (fun c => c =? 0x2E) l.

(* ---- the double a spelling denotes: exact decimal, rounded to nearest, ties to even ---- *)
Definition dbl (l : list N) : spec_float :=
  match read_decimal l with
  | Some d => nearest_double d
  | None => S754_nan
  end.
