(* Spec/SerdeTyped.v -- the serde data model as far as C16 speaks about it: data [tsd] (what a
   type's Serialize impl emits, call by call), type descriptors [ty] with nominal struct /
   enum definitions in an environment [env] (so recursive types are finite descriptors),
   the typing function [has_type], the finiteness predicate on floats and the
   normalisation [norm] (-0.0 |-> +0.0, nothing else).  Definitions only; executable.

   Integers carry a width tag and an unbounded Z; floats are IEEE-754 bit patterns (Z);
   strings, names and chars are Unicode scalar values (N). *)
From JsonSyntax Require Import Base.Prelude.
Local Open Scope Z_scope.

Notation str := (list N) (only parsing).

Inductive ikind := I8 | I16 | I32 | I64 | U8 | U16 | U32 | U64.

Definition ikind_eqb (a b : ikind) : bool :=
  match a, b with
  | I8, I8 | I16, I16 | I32, I32 | I64, I64 | U8, U8 | U16, U16 | U32, U32 | U64, U64 => true
  | _, _ => false
  end.

Definition imin (k : ikind) : Z :=
  match k with
  | I8 => - 2 ^ 7 | I16 => - 2 ^ 15 | I32 => - 2 ^ 31 | I64 => - 2 ^ 63
  | _ => 0
  end.
Definition imax (k : ikind) : Z :=
  match k with
  | I8 => 2 ^ 7 - 1 | I16 => 2 ^ 15 - 1 | I32 => 2 ^ 31 - 1 | I64 => 2 ^ 63 - 1
  | U8 => 2 ^ 8 - 1 | U16 => 2 ^ 16 - 1 | U32 => 2 ^ 32 - 1 | U64 => 2 ^ 64 - 1
  end.
Definition int_in_range (k : ikind) (z : Z) : bool := (imin k <=? z) && (z <=? imax k).

(* ---- data: one constructor per Serializer entry point ---- *)
Inductive tsd : Type :=
| SdBool (b : bool)
| SdInt (k : ikind) (z : Z)
| SdF32 (bits : Z)
| SdF64 (bits : Z)
| SdChar (c : N)
| SdStr (s : str)
| SdUnit
| SdUnitStruct (name : str)
| SdNone
| SdSome (x : tsd)
| SdNewtypeStruct (name : str) (x : tsd)
| SdSeq (l : list tsd)
| SdTuple (l : list tsd)
| SdTupleStruct (name : str) (l : list tsd)
| SdMap (l : list (tsd * tsd))
| SdStruct (name : str) (l : list (str * tsd))
| SdUnitVariant (name variant : str)
| SdNewtypeVariant (name variant : str) (x : tsd)
| SdTupleVariant (name variant : str) (l : list tsd)
| SdStructVariant (name variant : str) (l : list (str * tsd)).

(* ---- type descriptors ---- *)
Inductive kty := KStr | KInt (k : ikind) | KChar | KEnum (name : str).

Inductive ty : Type :=
| TyBool | TyInt (k : ikind) | TyF32 | TyF64 | TyChar | TyStr | TyUnit
| TyOption (t : ty)
| TySeq (t : ty)
| TyTuple (l : list ty)
| TyMap (k : kty) (t : ty)
| TyNamed (name : str).

Inductive vdef := VUnit | VNewtype (t : ty) | VTuple (l : list ty) | VStruct (l : list (str * ty)).

Inductive def :=
| DefUnit
| DefNewtype (t : ty)
| DefTuple (l : list ty)
| DefStruct (l : list (str * ty))
| DefEnum (vs : list (str * vdef)).

Definition env := list (str * def).

Fixpoint assoc {A} (k : str) (l : list (str * A)) : option A :=
  match l with
  | [] => None
  | (k', a) :: r => if str_eqb k' k then Some a else assoc k r
  end.

Fixpoint mem_str (k : str) (l : list str) : bool :=
  match l with [] => false | x :: r => str_eqb x k || mem_str k r end.
Fixpoint nodup_str (l : list str) : bool :=
  match l with [] => true | x :: r => negb (mem_str x r) && nodup_str r end.

(* ---- floats as bit patterns ---- *)
Definition f64_wf (b : Z) : bool := (0 <=? b) && (b <? 2 ^ 64).
Definition f32_wf (b : Z) : bool := (0 <=? b) && (b <? 2 ^ 32).
Definition f64_finite (b : Z) : bool := (b / 2 ^ 52) mod 2 ^ 11 <? 2047.
Definition f32_finite (b : Z) : bool := (b / 2 ^ 23) mod 2 ^ 8 <? 255.
Definition f64_norm (b : Z) : Z := if b =? 2 ^ 63 then 0 else b.
Definition f32_norm (b : Z) : Z := if b =? 2 ^ 31 then 0 else b.

(* ---- decimal spelling of an integer (i64/u64 Display, lexical::to_string) ---- *)
Fixpoint pos_digits (fuel : nat) (z : Z) (acc : list N) : list N :=
  match fuel with
  | O => acc
  | S f => if z <? 10 then Z.to_N (z + 48) :: acc
           else pos_digits f (z / 10) (Z.to_N (z mod 10 + 48) :: acc)
  end.
Definition z_dec (z : Z) : list N :=
  if z <? 0 then 0x2D%N :: pos_digits (S (Z.to_nat (Z.log2 (- z)))) (- z) []
  else pos_digits (S (Z.to_nat (Z.log2 z))) z [].

(* ---- the string a map key turns into (None: not a key of the property's domain) ---- *)
Definition key_str (k : tsd) : option str :=
  match k with
  | SdStr s => Some s
  | SdChar c => Some [c]
  | SdInt _ z => Some (z_dec z)
  | SdUnitVariant _ v => Some v
  | _ => None
  end.

Fixpoint keys_of (l : list (tsd * tsd)) : list str :=
  match l with
  | [] => []
  | (k, _) :: r => match key_str k with Some s => s :: keys_of r | None => keys_of r end
  end.

(* data whose JSON rendering is null: [Some x] of such an [x] cannot be told from [None]
   in JSON (by design); it is outside the property's domain *)
Fixpoint null_like (d : tsd) : bool :=
  match d with
  | SdUnit | SdUnitStruct _ | SdNone => true
  | SdSome x => null_like x
  | SdNewtypeStruct _ x => null_like x
  | SdF32 b => negb (f32_finite b)
  | SdF64 b => negb (f64_finite b)
  | _ => false
  end.

(* generic list combinators (top level, so that lemmas about them are stated once; the
   function is a section variable, i.e. outside the fix, so that nested recursive
   definitions through them pass the guard check) *)
Section Combinators.
  Context {A B : Type} (f : A -> B -> bool).
  Fixpoint all2b (l : list A) (ts : list B) {struct l} : bool :=
    match l with
    | [] => match ts with [] => true | _ => false end
    | x :: l' => match ts with [] => false | t :: ts' => f x t && all2b l' ts' end
    end.

  Fixpoint fields2b (l : list (str * A)) (ts : list (str * B)) {struct l} : bool :=
    match l with
    | [] => match ts with [] => true | _ => false end
    | fx :: l' =>
        match ts with
        | [] => false
        | ft :: ts' => str_eqb (fst fx) (fst ft) && f (snd fx) (snd ft) && fields2b l' ts'
        end
    end.
End Combinators.

Section Typing.
  Variable E : env.

  Definition key_has_type (k : tsd) (kt : kty) : bool :=
    match k, kt with
    | SdStr _, KStr => true
    | SdChar _, KChar => true
    | SdInt k z, KInt k' => ikind_eqb k k' && int_in_range k z
    | SdUnitVariant n v, KEnum n' =>
        str_eqb n n' &&
        match assoc n E with
        | Some (DefEnum vs) => match assoc v vs with Some VUnit => true | _ => false end
        | _ => false
        end
    | _, _ => false
    end.

  (* [has_type d t]: [d] is what a value of the Rust type described by [t] emits.
     Map keys must be pairwise distinct (as rendered); struct fields appear exactly as
     declared, in order. *)
  Fixpoint has_type (d : tsd) (t : ty) {struct d} : bool :=
    match d, t with
    | SdBool _, TyBool => true
    | SdInt k z, TyInt k' => ikind_eqb k k' && int_in_range k z
    | SdF32 b, TyF32 => f32_wf b
    | SdF64 b, TyF64 => f64_wf b
    | SdChar _, TyChar => true
    | SdStr _, TyStr => true
    | SdUnit, TyUnit => true
    | SdNone, TyOption _ => true
    | SdSome x, TyOption t' => has_type x t' && negb (null_like x)
    | SdSeq l, TySeq t' => forallb (fun x => has_type x t') l
    | SdTuple l, TyTuple ts => all2b (fun x t => has_type x t) l ts
    | SdMap l, TyMap kt t' =>
        forallb (fun kv => key_has_type (fst kv) kt && has_type (snd kv) t') l
        && nodup_str (keys_of l)
    | SdUnitStruct n, TyNamed n' =>
        str_eqb n n' && match assoc n E with Some DefUnit => true | _ => false end
    | SdNewtypeStruct n x, TyNamed n' =>
        str_eqb n n' && match assoc n E with Some (DefNewtype t') => has_type x t' | _ => false end
    | SdTupleStruct n l, TyNamed n' =>
        str_eqb n n' && match assoc n E with Some (DefTuple ts) => all2b (fun x t => has_type x t) l ts | _ => false end
    | SdStruct n l, TyNamed n' =>
        str_eqb n n' &&
        match assoc n E with
        | Some (DefStruct ts) => fields2b (fun x t => has_type x t) l ts && nodup_str (map fst ts)
        | _ => false
        end
    | SdUnitVariant n v, TyNamed n' =>
        str_eqb n n' &&
        match assoc n E with
        | Some (DefEnum vs) => match assoc v vs with Some VUnit => true | _ => false end
        | _ => false
        end
    | SdNewtypeVariant n v x, TyNamed n' =>
        str_eqb n n' &&
        match assoc n E with
        | Some (DefEnum vs) => match assoc v vs with Some (VNewtype t') => has_type x t' | _ => false end
        | _ => false
        end
    | SdTupleVariant n v l, TyNamed n' =>
        str_eqb n n' &&
        match assoc n E with
        | Some (DefEnum vs) => match assoc v vs with Some (VTuple ts) => all2b (fun x t => has_type x t) l ts | _ => false end
        | _ => false
        end
    | SdStructVariant n v l, TyNamed n' =>
        str_eqb n n' &&
        match assoc n E with
        | Some (DefEnum vs) =>
            match assoc v vs with
            | Some (VStruct ts) => fields2b (fun x t => has_type x t) l ts && nodup_str (map fst ts)
            | _ => false
            end
        | _ => false
        end
    | _, _ => false
    end.
End Typing.

(* ---- every float leaf finite ---- *)
Fixpoint finite_floats (d : tsd) : bool :=
  match d with
  | SdF32 b => f32_finite b
  | SdF64 b => f64_finite b
  | SdSome x | SdNewtypeStruct _ x | SdNewtypeVariant _ _ x => finite_floats x
  | SdSeq l | SdTuple l | SdTupleStruct _ l | SdTupleVariant _ _ l => forallb finite_floats l
  | SdMap l => forallb (fun kv => finite_floats (fst kv) && finite_floats (snd kv)) l
  | SdStruct _ l | SdStructVariant _ _ l => forallb (fun fx => finite_floats (snd fx)) l
  | _ => true
  end.

(* no f32 leaf at all (the exact form of the shape clause) *)
Fixpoint no_f32 (d : tsd) : bool :=
  match d with
  | SdF32 _ => false
  | SdSome x | SdNewtypeStruct _ x | SdNewtypeVariant _ _ x => no_f32 x
  | SdSeq l | SdTuple l | SdTupleStruct _ l | SdTupleVariant _ _ l => forallb no_f32 l
  | SdMap l => forallb (fun kv => no_f32 (fst kv) && no_f32 (snd kv)) l
  | SdStruct _ l | SdStructVariant _ _ l => forallb (fun fx => no_f32 (snd fx)) l
  | _ => true
  end.

(* ---- -0.0 |-> +0.0 in every float leaf; nothing else changes ---- *)
Fixpoint norm (d : tsd) : tsd :=
  match d with
  | SdF32 b => SdF32 (f32_norm b)
  | SdF64 b => SdF64 (f64_norm b)
  | SdSome x => SdSome (norm x)
  | SdNewtypeStruct n x => SdNewtypeStruct n (norm x)
  | SdNewtypeVariant n v x => SdNewtypeVariant n v (norm x)
  | SdSeq l => SdSeq (map norm l)
  | SdTuple l => SdTuple (map norm l)
  | SdTupleStruct n l => SdTupleStruct n (map norm l)
  | SdTupleVariant n v l => SdTupleVariant n v (map norm l)
  | SdMap l => SdMap (map (fun kv => (fst kv, norm (snd kv))) l)
  | SdStruct n l => SdStruct n (map (fun fx => (fst fx, norm (snd fx))) l)
  | SdStructVariant n v l => SdStructVariant n v (map (fun fx => (fst fx, norm (snd fx))) l)
  | other => other
  end.

(* ---- the class on which the round trip is known to fail (known finding) ---- *)
Definition num_token : str := s2l "$serde_json::private::Number".

(* K1: a map whose first emitted key (or a struct whose first field) is the private number
   token: SerializeMap takes it for the arbitrary-precision number hand-shake *)
Fixpoint known_class (d : tsd) : bool :=
  match d with
  | SdSome x | SdNewtypeStruct _ x | SdNewtypeVariant _ _ x => known_class x
  | SdSeq l | SdTuple l | SdTupleStruct _ l | SdTupleVariant _ _ l => existsb known_class l
  | SdMap l =>
      match l with
      | (k, _) :: _ => match key_str k with Some s => str_eqb s num_token | None => false end
      | [] => false
      end || existsb (fun kv => known_class (snd kv)) l
  | SdStruct _ l =>
      match l with fx :: _ => str_eqb (fst fx) num_token | [] => false end
      || existsb (fun fx => known_class (snd fx)) l
  | SdStructVariant _ _ l => existsb (fun fx => known_class (snd fx)) l
  | _ => false
  end.

(* structural equality of data *)
Fixpoint tsd_eqb (a b : tsd) {struct a} : bool :=
  let fix list_eq (x y : list tsd) {struct x} : bool :=
    match x, y with
    | [], [] => true
    | p :: x', q :: y' => tsd_eqb p q && list_eq x' y'
    | _, _ => false
    end in
  let fix map_eq (x y : list (tsd * tsd)) {struct x} : bool :=
    match x, y with
    | [], [] => true
    | (k, p) :: x', (k', q) :: y' => tsd_eqb k k' && tsd_eqb p q && map_eq x' y'
    | _, _ => false
    end in
  let fix fields_eq (x y : list (str * tsd)) {struct x} : bool :=
    match x, y with
    | [], [] => true
    | (f, p) :: x', (f', q) :: y' => str_eqb f f' && tsd_eqb p q && fields_eq x' y'
    | _, _ => false
    end in
  match a, b with
  | SdBool x, SdBool y => Bool.eqb x y
  | SdInt k x, SdInt k' y => ikind_eqb k k' && (x =? y)
  | SdF32 x, SdF32 y => x =? y
  | SdF64 x, SdF64 y => x =? y
  | SdChar x, SdChar y => N.eqb x y
  | SdStr x, SdStr y => str_eqb x y
  | SdUnit, SdUnit => true
  | SdUnitStruct n, SdUnitStruct n' => str_eqb n n'
  | SdNone, SdNone => true
  | SdSome x, SdSome y => tsd_eqb x y
  | SdNewtypeStruct n x, SdNewtypeStruct n' y => str_eqb n n' && tsd_eqb x y
  | SdSeq x, SdSeq y => list_eq x y
  | SdTuple x, SdTuple y => list_eq x y
  | SdTupleStruct n x, SdTupleStruct n' y => str_eqb n n' && list_eq x y
  | SdMap x, SdMap y => map_eq x y
  | SdStruct n x, SdStruct n' y => str_eqb n n' && fields_eq x y
  | SdUnitVariant n v, SdUnitVariant n' v' => str_eqb n n' && str_eqb v v'
  | SdNewtypeVariant n v x, SdNewtypeVariant n' v' y => str_eqb n n' && str_eqb v v' && tsd_eqb x y
  | SdTupleVariant n v x, SdTupleVariant n' v' y => str_eqb n n' && str_eqb v v' && list_eq x y
  | SdStructVariant n v x, SdStructVariant n' v' y => str_eqb n n' && str_eqb v v' && fields_eq x y
  | _, _ => false
  end.
