(* Spec/Multimap.v -- the documented meaning of the Object operations on a plain
   ordered list of key/value pairs (no index).  Every key-based query is a linear scan.
   This is the reference the indexed model (Model/Object.v) is proved to refine. *)
From JsonSyntax Require Import Base.Prelude Base.Value.

Definition has_key (k : key) (e : entry) : bool := str_eqb (fst e) k.
Definition lacks_key (k : key) (e : entry) : bool := negb (has_key k e).

(* ---- queries: linear scans ---- *)
Definition m_contains (es : list entry) (k : key) : bool := existsb (has_key k) es.

Fixpoint positions_from (i : nat) (es : list entry) (k : key) : list nat :=
  match es with
  | [] => []
  | e :: r => if has_key k e then i :: positions_from (S i) r k else positions_from (S i) r k
  end.
Definition m_indexes_of (es : list entry) (k : key) : list nat := positions_from O es k.
Definition m_index_of (es : list entry) (k : key) : option nat := hd_error (m_indexes_of es k).
Definition m_redundant_index_of (es : list entry) (k : key) : option nat := hd_error (tl (m_indexes_of es k)).
Definition m_get_entries (es : list entry) (k : key) : list entry := filter (has_key k) es.
Definition m_get (es : list entry) (k : key) : list value := map snd (m_get_entries es k).
Definition m_get_entries_with_index (es : list entry) (k : key) : list (nat * entry) :=
  combine (m_indexes_of es k) (m_get_entries es k).

Inductive m_unique (A : Type) := MNone | MOne (a : A) | MDup (a b : A).
Arguments MNone {A}.
Arguments MOne {A} a.
Arguments MDup {A} a b.
Definition m_unique_of {A} (l : list A) : m_unique A :=
  match l with [] => MNone | [a] => MOne a | a :: b :: _ => MDup a b end.
Definition m_get_unique (es : list entry) (k : key) := m_unique_of (m_get es k).
Definition m_get_unique_entry (es : list entry) (k : key) := m_unique_of (m_get_entries es k).

(* ---- updates: new entry list and the operation's result ---- *)
(* push / push_front: duplicates are kept; the flag says whether the key was fresh *)
Definition m_push (es : list entry) (e : entry) : list entry * bool :=
  (es ++ [e], negb (m_contains es (fst e))).
Definition m_push_front (es : list entry) (e : entry) : list entry * bool :=
  (e :: es, negb (m_contains es (fst e))).

Fixpoint drop_nth {A} (n : nat) (l : list A) : list A :=
  match l, n with
  | [], _ => []
  | _ :: r, O => r
  | x :: r, S k => x :: drop_nth k r
  end.
Definition m_remove_at (es : list entry) (i : nat) : list entry * option entry :=
  (drop_nth i es, nth_error es i).

(* insert: if the key is present the FIRST matching entry is replaced in place and every
   other matching entry is removed; all the previous matching entries are returned in
   order.  Otherwise the pair is pushed and nothing is returned. *)
Definition m_insert (es : list entry) (k : key) (v : value) : list entry * option (list entry) :=
  match m_index_of es k with
  | Some i => (firstn i es ++ (k, v) :: filter (lacks_key k) (skipn (S i) es), Some (m_get_entries es k))
  | None => (es ++ [(k, v)], None)
  end.

(* insert_front: the pair becomes the first entry; every previous matching entry is removed
   and returned, in order *)
Definition m_insert_front (es : list entry) (k : key) (v : value) : list entry * list entry :=
  ((k, v) :: filter (lacks_key k) es, m_get_entries es k).

(* remove: all matching entries are removed and returned, in order *)
Definition m_remove (es : list entry) (k : key) : list entry * list entry :=
  (filter (lacks_key k) es, m_get_entries es k).

(* remove_unique: as remove; reports none / the entry / a duplicate error carrying the first two.
   (The documentation is silent on the state after a duplicate error; the implementation's
   iterator is drained by Drop, so every matching entry is gone: the spec records that.) *)
Definition m_remove_unique (es : list entry) (k : key) : list entry * m_unique entry :=
  (filter (lacks_key k) es, m_unique_of (m_get_entries es k)).

Definition m_get_or_insert_with (es : list entry) (k : key) (v : value) : list entry * value :=
  match m_get es k with
  | x :: _ => (es, x)
  | [] => (es ++ [(k, v)], v)
  end.

Fixpoint m_set_value_at (es : list entry) (i : nat) (v : value) : list entry :=
  match es, i with
  | [], _ => []
  | (k, _) :: r, O => (k, v) :: r
  | e :: r, S j => e :: m_set_value_at r j v
  end.

Definition m_extend (es l : list entry) : list entry := es ++ l.
Definition m_from_vec (l : list entry) : list entry := l.

(* sort: a permutation of the entries, non-decreasing for the entry order (key, then value) *)
From Coq Require Import Sorting.Permutation Sorting.Sorted.
Definition m_sorted_by (cmp : entry -> entry -> comparison) (l : list entry) : Prop :=
  StronglySorted (fun a b => cmp a b <> Gt) l.
Definition m_is_sort_of (cmp : entry -> entry -> comparison) (es l : list entry) : Prop :=
  Permutation es l /\ m_sorted_by cmp l.
