(* Spec/MacroDoc.v -- JSON documents as one writes them inside `json!( ... )`, the token
   trees of that spelling, "the corresponding JSON text", and the value the document
   denotes.  Independent of the rules of the macro (only the token type is shared).

   A document records the SOURCE form: how each key is written (string literal,
   parenthesised string literal, a variable of type &str, a parenthesised variable) and
   whether each non-empty container ends with a trailing comma.  Entries are kept in
   written order, duplicates included. *)
From JsonSyntax Require Import Base.Prelude Base.Value Base.Unicode Model.Macro Spec.Minimal Spec.Grammar.

Inductive kform := KLit | KParen | KVar (x : list N) | KParenVar (x : list N).

Inductive doc : Type :=
| DNull
| DBool (b : bool)
| DInt (ty : option ity) (z : Z)        (* `-`? digits suffix?, e.g. 7, -5i8, 255u8 *)
| DFloat (neg : bool) (s : list N) (sfx : option fty) (r : list N)
    (* `-`? followed by the float literal written s with suffix sfx; r is the spelling the float
       printer gives to the float the literal denotes (r = s for a literal that is re-spelt as
       itself): the literal passes through its float type, so r is its JSON text *)
| DStr (s : list N)
| DArr (l : list doc) (tc : bool)
| DObj (l : list (kform * list N * doc)) (tc : bool).

Definition dkey (e : kform * list N * doc) : list N := snd (fst e).
Definition dform (e : kform * list N * doc) : kform := fst (fst e).
Definition dval (e : kform * list N * doc) : doc := snd e.

(* ---------- how the document is written: token trees ---------- *)
Definition key_tokens (kf : kform) (k : list N) : list tt :=
  match kf with
  | KLit => [TLit (LStr k)]
  | KParen => [TGroup Paren [TLit (LStr k)]]
  | KVar x => [TIdent (IVar x)]
  | KParenVar x => [TGroup Paren [TIdent (IVar x)]]
  end.

(* what follows an item: nothing or a trailing comma after the last one, `,` + the others *)
Fixpoint sep_tail (items : list (list tt)) (tc : bool) : list tt :=
  match items with
  | [] => if tc then [TPunct PComma] else []
  | x :: r => TPunct PComma :: x ++ sep_tail r tc
  end.
Definition sep_tokens (items : list (list tt)) (tc : bool) : list tt :=
  match items with
  | [] => []
  | x :: r => x ++ sep_tail r tc
  end.

Fixpoint tokens (d : doc) : list tt :=
  match d with
  | DNull => [TIdent INull]
  | DBool b => [TLit (LBool b)]
  | DInt ty z => if (z <? 0)%Z then [TPunct PMinus; TLit (LInt (Z.abs_N z) ty)] else [TLit (LInt (Z.abs_N z) ty)]
  | DFloat neg s sfx _ => if neg then [TPunct PMinus; TLit (LFloat s sfx)] else [TLit (LFloat s sfx)]
  | DStr s => [TLit (LStr s)]
  | DArr l tc => [TGroup Bracket (sep_tokens (map tokens l) tc)]
  | DObj l tc =>
      [TGroup Brace
         (sep_tokens (map (fun e => key_tokens (dform e) (dkey e) ++ TPunct PColon :: tokens (dval e)) l) tc)]
  end.

Definition entry_tokens (e : kform * list N * doc) : list tt :=
  key_tokens (dform e) (dkey e) ++ TPunct PColon :: tokens (dval e).

(* ---------- the corresponding JSON text ---------- *)
Fixpoint text (d : doc) : list N :=
  match d with
  | DNull => s2l "null"
  | DBool true => s2l "true"
  | DBool false => s2l "false"
  | DInt _ z => dec_of_Z z
  | DFloat neg _ _ r => if neg then 0x2D :: r else r
  | DStr s => quote s
  | DArr l _ => [0x5B] ++ join [0x2C] (map text l) ++ [0x5D]
  | DObj l _ => [0x7B] ++ join [0x2C] (map (fun e => quote (dkey e) ++ [0x3A] ++ text (dval e)) l) ++ [0x7D]
  end.

(* ---------- the value denoted ---------- *)
Fixpoint value_of (d : doc) : value :=
  match d with
  | DNull => VNull
  | DBool b => VBool b
  | DInt _ z => VNum (dec_of_Z z)
  | DFloat neg _ _ r => VNum (if neg then 0x2D :: r else r)
  | DStr s => VStr s
  | DArr l _ => VArr (map value_of l)
  | DObj l _ => VObj (map (fun e => (dkey e, value_of (dval e))) l)
  end.

(* reading a decimal spelling back (gives [dec_of_Z] an independent meaning) *)
Definition Z_of_digits (l : list N) : Z := fold_left (fun a c => (a * 10 + (Z.of_N c - 48))%Z) l 0%Z.
Definition Z_of_dec (l : list N) : Z :=
  match l with
  | c :: r => if c =? 0x2D then (- Z_of_digits r)%Z else Z_of_digits l
  | [] => 0%Z
  end.

(* ---------- the domain ---------- *)
(* an unsigned JSON number (what a float printer may answer: 0, 100, 1.5, 1e21, 2.5e-7) *)
Definition unsigned_num (r : list N) : Prop :=
  exists i f e, jint i /\ jfrac f /\ jexp e /\ r = i ++ f ++ e.

(* float literals common to Rust and JSON: int part without a leading zero, a fraction or
   an exponent (or both); those among them that are re-spelt as themselves (r = s) are the
   literals for which the JSON text is the literal text itself *)
Definition float_lit (s : list N) : Prop :=
  exists i f e, jint i /\ jfrac f /\ jexp e /\ (f <> [] \/ e <> []) /\ s = i ++ f ++ e.

Section Dom.
  Variable fmt_float : fty -> list N -> option (list N).
  Variable env : list N -> option (list N).

  Definition key_ok (kf : kform) (k : list N) : Prop :=
    match kf with
    | KLit | KParen => True
    | KVar x | KParenVar x => env x = Some k
    end.

  Fixpoint dom (d : doc) : Prop :=
    match d with
    | DNull => True
    | DBool _ => True
    | DInt ty z => (ity_min (ity_of ty) <= z <= ity_max (ity_of ty))%Z
    | DFloat _ s sfx r => unsigned_num r /\ fmt_float (match sfx with Some t => t | None => FT64 end) s = Some r
    | DStr s => Forall (fun c => is_scalar c = true) s
    | DArr l _ =>
        (fix go (l : list doc) : Prop := match l with [] => True | x :: r => dom x /\ go r end) l
    | DObj l _ =>
        (fix go (l : list (kform * list N * doc)) : Prop :=
           match l with
           | [] => True
           | e :: r => (Forall (fun c => is_scalar c = true) (dkey e) /\ key_ok (dform e) (dkey e) /\ dom (dval e)) /\ go r
           end) l
    end.
End Dom.
