(* Spec/Layout.v -- the reference layout, written from the documentation of
   print::Options and print::Limit.  A container is printed on one line iff all its
   children are and its one-line text respects the limits, where the width is the
   number of characters of that text; otherwise every child goes on its own line,
   indented by (depth + 1) indent units.  Independent of Model/Printer.v except for
   the option record and the string literal function. *)
From JsonSyntax Require Import Base.Prelude Base.Value Model.Printer Spec.Minimal.

Definition sp (n : N) : list N := repeatN 0x20 (N.to_nat n).
Definition unit_text (i : indent) : list N :=
  match i with ISpaces n => repeatN 0x20 (N.to_nat n) | ITabs n => repeatN 0x09 (N.to_nat n) end.
Fixpoint indentation (i : indent) (depth : nat) : list N :=
  match depth with O => [] | S d => unit_text i ++ indentation i d end.

(* does a container with [items] children whose one-line text has [width] characters stay on one line? *)
Definition fits (l : option limit) (items width : N) : bool :=
  match l with
  | None => true
  | Some LAlways => false
  | Some (LItem i) => items <=? i
  | Some (LWidth w) => width <=? w
  | Some (LItemOrWidth i w) => (items <=? i) && (width <=? w)
  end.

Definition LF : N := 0x0A.

(* text and whether it is on one line *)
Fixpoint layout (o : popts) (depth : nat) (v : value) : list N * bool :=
  match v with
  | VNull => (s2l "null", true)
  | VBool true => (s2l "true", true)
  | VBool false => (s2l "false", true)
  | VNum n => (n, true)
  | VStr s => (quote s, true)
  | VArr items =>
      let kids := map (layout o (S depth)) items in
      let one_line :=
        [0x5B] ++ (match items with
                   | [] => sp (array_empty o)
                   | _ => sp (array_begin o)
                            ++ join (sp (array_before_comma o) ++ [0x2C] ++ sp (array_after_comma o)) (map fst kids)
                            ++ sp (array_end o)
                   end) ++ [0x5D] in
      if forallb snd kids && fits (array_limit o) (N.of_nat (length items)) (N.of_nat (length one_line))
      then (one_line, true)
      else
        ([0x5B; LF]
           ++ (match items with
               | [] => []
               | _ => join (sp (array_before_comma o) ++ [0x2C; LF])
                           (map (fun k => indentation (p_indent o) (S depth) ++ fst k) kids) ++ [LF]
               end)
           ++ indentation (p_indent o) depth ++ [0x5D], false)
  | VObj entries =>
      let member (e : list N * value) : list N * bool :=
        let '(t, i) := layout o (S depth) (snd e) in
        (quote (fst e) ++ sp (object_before_colon o) ++ [0x3A] ++ sp (object_after_colon o) ++ t, i) in
      let kids := map member entries in
      let one_line :=
        [0x7B] ++ (match entries with
                   | [] => sp (object_empty o)
                   | _ => sp (object_begin o)
                            ++ join (sp (object_before_comma o) ++ [0x2C] ++ sp (object_after_comma o)) (map fst kids)
                            ++ sp (object_end o)
                   end) ++ [0x7D] in
      if forallb snd kids && fits (object_limit o) (N.of_nat (length entries)) (N.of_nat (length one_line))
      then (one_line, true)
      else
        ([0x7B; LF]
           ++ (match entries with
               | [] => []
               | _ => join (sp (object_before_comma o) ++ [0x2C; LF])
                           (map (fun k => indentation (p_indent o) (S depth) ++ fst k) kids) ++ [LF]
               end)
           ++ indentation (p_indent o) depth ++ [0x7D], false)
  end.

Definition layout_text (o : popts) (v : value) : list N := fst (layout o O v).
