(* Spec/SerdeJsonValue.v -- serde_json::Value as built without the `preserve_order` and
   `arbitrary_precision` features: numbers are PosInt(u64) | NegInt(i64, always negative)
   | Float(f64, always finite); objects are BTreeMap<String, Value>, i.e. entry lists
   strictly increasing in the byte order of the UTF-8 keys (no duplicates). *)
From Coq Require Import SpecFloat.
From JsonSyntax Require Import Base.Prelude Base.Float64 Model.Compare.

Inductive sjnum : Type :=
| PosInt (z : Z)
| NegInt (z : Z)
| SFloat (x : spec_float).

Inductive sj : Type :=
| JNull
| JBool (b : bool)
| JNum (n : sjnum)
| JStr (s : list N)
| JArr (l : list sj)
| JObj (l : list (list N * sj)).

Section SjInd.
  Variable P : sj -> Prop.
  Hypothesis Hnull : P JNull.
  Hypothesis Hbool : forall b, P (JBool b).
  Hypothesis Hnum : forall n, P (JNum n).
  Hypothesis Hstr : forall s, P (JStr s).
  Hypothesis Harr : forall l, Forall P l -> P (JArr l).
  Hypothesis Hobj : forall l, Forall (fun e => P (snd e)) l -> P (JObj l).

  Fixpoint sj_ind' (j : sj) : P j :=
    match j with
    | JNull => Hnull
    | JBool b => Hbool b
    | JNum n => Hnum n
    | JStr s => Hstr s
    | JArr l =>
        Harr l ((fix go (l : list sj) : Forall P l :=
                   match l with
                   | [] => Forall_nil _
                   | x :: r => Forall_cons _ (sj_ind' x) (go r)
                   end) l)
    | JObj l =>
        Hobj l ((fix go (l : list (list N * sj)) : Forall (fun e => P (snd e)) l :=
                   match l with
                   | [] => Forall_nil _
                   | x :: r => Forall_cons _ (sj_ind' (snd x)) (go r)
                   end) l)
    end.
End SjInd.

(* the representation f64::from_bits yields: normal numbers carry a 53-bit mantissa,
   subnormals the exponent -1074 (SpecFloat admits other mantissa/exponent pairs for the
   same real; an f64 is never one of those) *)
Definition canonical_f64 (x : spec_float) : bool := sf_eqb (sf_of_bits (sf_bits x)) x.

(* what the types guarantee *)
Definition wf_sjnum (n : sjnum) : bool :=
  match n with
  | PosInt z => ((0 <=? z) && (z <? 18446744073709551616))%Z
  | NegInt z => ((-9223372036854775808 <=? z) && (z <? 0))%Z
  | SFloat x => sf_is_finite x && canonical_f64 x
  end.

(* keys strictly increasing for <String as Ord>::cmp *)
Fixpoint keys_sorted (ks : list (list N)) : bool :=
  match ks with
  | a :: ((b :: _) as r) => match str_cmp a b with Lt => keys_sorted r | _ => false end
  | _ => true
  end.

Fixpoint wf_sj (j : sj) : bool :=
  match j with
  | JNum n => wf_sjnum n
  | JArr l => forallb wf_sj l
  | JObj es => keys_sorted (map fst es) && forallb (fun e => wf_sj (snd e)) es
  | _ => true
  end.

Definition sjnum_eqb (a b : sjnum) : bool :=
  match a, b with
  | PosInt x, PosInt y => (x =? y)%Z
  | NegInt x, NegInt y => (x =? y)%Z
  | SFloat x, SFloat y => sf_eqb x y
  | _, _ => false
  end.
