(* Spec/KindSpec.v -- KindSet as a mathematical finite set over the six kinds.
   Nothing here mentions masks except the abstraction function [mem]. *)
From JsonSyntax Require Import Base.Prelude Base.Value.

(* ascending kind order = derived Ord on the enum = declaration order *)
Definition kinds_ascending : list kind := [KNull; KBoolean; KNumber; KString; KArray; KObject].

Definition kind_index (k : kind) : N :=
  match k with
  | KNull => 0 | KBoolean => 1 | KNumber => 2 | KString => 3 | KArray => 4 | KObject => 5
  end.

(* abstraction: which kinds a representation denotes *)
Definition mem (s : N) (k : kind) : bool := N.testbit s (kind_index k).
Definition valid (s : N) : Prop := s < 64.

Definition members (s : N) : list kind := filter (mem s) kinds_ascending.

Definition kind_name_spec (k : kind) : list N :=
  match k with
  | KNull => s2l "null" | KBoolean => s2l "boolean" | KNumber => s2l "number"
  | KString => s2l "string" | KArray => s2l "array" | KObject => s2l "object"
  end.

Fixpoint comma_join (l : list kind) : list N :=
  match l with
  | [] => []
  | [k] => kind_name_spec k
  | k :: r => kind_name_spec k ++ s2l ", " ++ comma_join r
  end.

(* "nothing", a single kind, "a, b or c", "anything" *)
Definition render_spec (word : list N) (ms : list kind) : list N :=
  match ms with
  | [] => s2l "nothing"
  | [k] => kind_name_spec k
  | _ =>
      if Nat.eqb (length ms) 6 then s2l "anything"
      else comma_join (removelast ms) ++ s2l " " ++ word ++ s2l " "
                      ++ kind_name_spec (last ms KNull)
  end.

(* the reference for double-ended iteration: a deque holding the members in
   ascending order; [true] pops the front, [false] pops the back; after each
   step the item and the exact remaining size are observed *)
Definition pop_front (l : list kind) : option kind * list kind :=
  match l with [] => (None, []) | x :: r => (Some x, r) end.
Definition pop_back (l : list kind) : option kind * list kind :=
  match l with [] => (None, []) | _ => (Some (last l KNull), removelast l) end.

Fixpoint deque_run (steps : list bool) (l : list kind) : list (option kind * N) * list kind :=
  match steps with
  | [] => ([], l)
  | b :: r =>
      let '(y, l') := if b then pop_front l else pop_back l in
      let '(ys, l'') := deque_run r l' in
      ((y, N.of_nat (length l')) :: ys, l'')
  end.
