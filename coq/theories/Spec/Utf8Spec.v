(* Spec/Utf8Spec.v -- well-formed UTF-8 as "the encoding of some sequence of scalar values".
   Hence no overlong forms, no encoded surrogates, nothing above U+10FFFF. *)
From JsonSyntax Require Import Base.Prelude Base.Unicode.

Definition scalars (cs : list N) : Prop := Forall (fun c => is_scalar c = true) cs.

Definition valid_utf8 (bs : list N) : Prop :=
  exists cs, scalars cs /\ bs = utf8_encode_all cs.
